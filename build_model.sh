#!/bin/sh
# usage: build_model.sh c12   -- extract coq/Extract/C12.v and link build/c12/run
# The build happens in a scratch directory and the runner is moved into place in one step, so that a check that
# is running build/c12/run at the moment (C01, C02, C04 and C17 share build/c01) never meets a half-built one.
set -e
id="$1"
ID=$(echo "$id" | tr a-z A-Z)
root=$(cd "$(dirname "$0")" && pwd)
d="$root/build/$id"
t="$root/build/$id.tmp.$$"
mkdir -p "$d"
rm -rf "$t"
mkdir -p "$t"
trap 'rm -rf "$t"' EXIT
cd "$t"
timeout 300 coqc -Q "$root/coq" Eupsv "$root/coq/Extract/$ID.v" > extract.log 2>&1 || { cat extract.log; exit 1; }
cat "$root/ocaml/prelude.ml" "$root/ocaml/drv_$id.ml" > main.ml
timeout 300 ocamlfind ocamlopt -w -a -O2 -o run model.mli model.ml main.ml 2> ocaml.log || \
timeout 300 ocamlfind ocamlopt -w -a -o run model.mli model.ml main.ml 2> ocaml.log || { cat ocaml.log; exit 1; }
cp -f extract.log ocaml.log model.ml model.mli main.ml "$d/" 2>/dev/null || true
mv -f run "$d/run"
echo "built $d/run"
