#!/bin/sh
# usage: build_model.sh c12   -- extract coq/Extract/C12.v and link build/c12/run
set -e
id="$1"
ID=$(echo "$id" | tr a-z A-Z)
root=$(cd "$(dirname "$0")" && pwd)
d="$root/build/$id"
mkdir -p "$d"
cd "$d"
rm -f model.ml model.mli main.ml run
timeout 300 coqc -Q "$root/coq" Eupsv "$root/coq/Extract/$ID.v" > extract.log 2>&1 || { cat extract.log; exit 1; }
cat "$root/ocaml/prelude.ml" "$root/ocaml/drv_$id.ml" > main.ml
timeout 300 ocamlfind ocamlopt -w -a -O2 -o run model.mli model.ml main.ml 2> ocaml.log || \
timeout 300 ocamlfind ocamlopt -w -a -o run model.mli model.ml main.ml 2> ocaml.log || { cat ocaml.log; exit 1; }
echo "built $d/run"
