(* Base definitions shared by every model: strings as lists of ascii, python-like
   split/join, association-list maps, explicit error results.
   Executable definitions only; lemmas live in Base/BaseLemmas.v. *)
From Coq Require Export List Bool Arith NArith ZArith Ascii.
From Coq Require String.
Export ListNotations.
Export String.StringSyntax.
Notation string := String.string.
Delimit Scope string_scope with string.

Definition str := list ascii.

(* literals:  (lit "abc") *)
Definition lit (x : string) : str := String.list_ascii_of_string x.
Arguments lit x%string.

Definition ascii_eqb (a b : ascii) : bool := Ascii.eqb a b.

Fixpoint str_eqb (a b : str) : bool :=
  match a, b with
  | [], [] => true
  | x :: a', y :: b' => if ascii_eqb x y then str_eqb a' b' else false
  | _, _ => false
  end.

Fixpoint mem_str (x : str) (l : list str) : bool :=
  match l with
  | [] => false
  | y :: l' => if str_eqb x y then true else mem_str x l'
  end.

Fixpoint mem_ascii (c : ascii) (l : list ascii) : bool :=
  match l with
  | [] => false
  | y :: l' => if ascii_eqb c y then true else mem_ascii c l'
  end.

Definition nonempty (x : str) : bool := match x with [] => false | _ => true end.

(* python: s.split(d) for a one-character delimiter *)
Fixpoint split_on (d : ascii) (x : str) : list str :=
  match x with
  | [] => [[]]
  | c :: r =>
      if ascii_eqb c d then [] :: split_on d r
      else match split_on d r with
           | h :: t => (c :: h) :: t
           | [] => [[c]]
           end
  end.

(* python: d.join(l) *)
Fixpoint join (d : ascii) (l : list str) : str :=
  match l with
  | [] => []
  | [x] => x
  | x :: l' => x ++ d :: join d l'
  end.

(* python: sep.join(l) for a string separator *)
Fixpoint join_str (sep : str) (l : list str) : str :=
  match l with
  | [] => []
  | [x] => x
  | x :: l' => x ++ sep ++ join_str sep l'
  end.

Fixpoint starts_with (p x : str) : bool :=
  match p, x with
  | [], _ => true
  | c :: p', d :: x' => if ascii_eqb c d then starts_with p' x' else false
  | _ :: _, [] => false
  end.

Definition ends_with (p x : str) : bool := starts_with (rev p) (rev x).

Fixpoint last_opt {A} (l : list A) : option A :=
  match l with
  | [] => None
  | [x] => Some x
  | _ :: l' => last_opt l'
  end.

Definition remove_str (v : str) (l : list str) : list str :=
  filter (fun x => negb (str_eqb x v)) l.

(* first-occurrence de-duplication (python: pathUnique, utils.uniq), written in the
   form "keep the head, drop its later copies" *)
Fixpoint uniq (l : list str) : list str :=
  match l with
  | [] => []
  | x :: l' => x :: remove_str x (uniq l')
  end.


(* association lists keyed by str; [aset] keeps the position of an existing key
   (python dict semantics) *)
Definition amap (V : Type) := list (str * V).

Fixpoint alookup {V} (k : str) (m : amap V) : option V :=
  match m with
  | [] => None
  | (k', v) :: m' => if str_eqb k k' then Some v else alookup k m'
  end.

Fixpoint aset {V} (k : str) (v : V) (m : amap V) : amap V :=
  match m with
  | [] => [(k, v)]
  | (k', v') :: m' => if str_eqb k k' then (k, v) :: m' else (k', v') :: aset k v m'
  end.

Fixpoint aremove {V} (k : str) (m : amap V) : amap V :=
  match m with
  | [] => []
  | (k', v') :: m' => if str_eqb k k' then aremove k m' else (k', v') :: aremove k m'
  end.

Definition amem {V} (k : str) (m : amap V) : bool :=
  match alookup k m with Some _ => true | None => false end.

Definition akeys {V} (m : amap V) : list str := map fst m.

(* explicit results for python exceptions *)
Inductive errkind := Unsortable | Crash | NotFound | Refused | BadTable | OutOfFuel | Undefined.
Inductive res (A : Type) := Ok (a : A) | Err (e : errkind).
Arguments Ok {A} a.
Arguments Err {A} e.

Definition bind {A B} (r : res A) (f : A -> res B) : res B :=
  match r with Ok a => f a | Err e => Err e end.

(* character classes used by several models *)
Definition is_digit (c : ascii) : bool :=
  let n := nat_of_ascii c in (48 <=? n) && (n <=? 57).
Definition is_upper (c : ascii) : bool :=
  let n := nat_of_ascii c in (65 <=? n) && (n <=? 90).
Definition is_lower (c : ascii) : bool :=
  let n := nat_of_ascii c in (97 <=? n) && (n <=? 122).
Definition is_alpha (c : ascii) : bool := is_upper c || is_lower c.
Definition is_space (c : ascii) : bool :=
  let n := nat_of_ascii c in (n =? 32) || ((9 <=? n) && (n <=? 13)).
(* python \w on ASCII *)
Definition is_word (c : ascii) : bool := is_alpha c || is_digit c || (nat_of_ascii c =? 95).

Definition lower_ascii (c : ascii) : ascii :=
  if is_upper c then ascii_of_nat (nat_of_ascii c + 32) else c.
Definition lower_str (x : str) : str := map lower_ascii x.

(* a dummy definition that forces the extraction of the number types the OCaml
   prelude converts from/to *)
Definition keep_types : nat * N * Z * positive * ascii * comparison * res unit :=
  (0, N0, Z0, xH, zero, Eq, Err Crash).
