(* Lemmas about the shared definitions of Base.v *)
From Eupsv Require Import Base.Base.
From Coq Require Import Lia.

Lemma ascii_eqb_spec a b : reflect (a = b) (ascii_eqb a b).
Proof. apply Ascii.eqb_spec. Qed.

Lemma ascii_eqb_refl a : ascii_eqb a a = true.
Proof. apply Ascii.eqb_refl. Qed.

Lemma ascii_eqb_eq a b : ascii_eqb a b = true <-> a = b.
Proof. apply Ascii.eqb_eq. Qed.

Lemma ascii_eqb_neq a b : ascii_eqb a b = false <-> a <> b.
Proof. apply Ascii.eqb_neq. Qed.

Lemma ascii_eqb_sym a b : ascii_eqb a b = ascii_eqb b a.
Proof. apply Ascii.eqb_sym. Qed.

Lemma str_eqb_eq a b : str_eqb a b = true <-> a = b.
Proof.
  revert b; induction a as [|x a IH]; intros [|y b]; simpl; split; intro H;
    try reflexivity; try discriminate.
  - destruct (ascii_eqb_spec x y) as [->|]; [|discriminate]. f_equal. now apply IH.
  - injection H as -> ->. rewrite ascii_eqb_refl. now apply IH.
Qed.

Lemma str_eqb_refl a : str_eqb a a = true.
Proof. now apply str_eqb_eq. Qed.

Lemma str_eqb_neq a b : str_eqb a b = false <-> a <> b.
Proof.
  split.
  - intros H ->. now rewrite str_eqb_refl in H.
  - intro H. destruct (str_eqb a b) eqn:E; [|reflexivity]. apply str_eqb_eq in E. contradiction.
Qed.

Lemma str_eqb_spec a b : reflect (a = b) (str_eqb a b).
Proof.
  destruct (str_eqb a b) eqn:E; constructor.
  - now apply str_eqb_eq.
  - now apply str_eqb_neq.
Qed.

Lemma str_eqb_sym a b : str_eqb a b = str_eqb b a.
Proof.
  destruct (str_eqb_spec a b) as [->|H].
  - now rewrite str_eqb_refl.
  - symmetry. apply str_eqb_neq. congruence.
Qed.

Lemma str_eq_dec (a b : str) : {a = b} + {a <> b}.
Proof. destruct (str_eqb_spec a b); [left|right]; assumption. Qed.

Lemma mem_str_In x l : mem_str x l = true <-> In x l.
Proof.
  induction l as [|y l IH]; simpl.
  - split; [discriminate|tauto].
  - destruct (str_eqb_spec x y) as [->|H].
    + split; auto.
    + rewrite IH. split; [auto|]. intros [E|E]; [congruence|assumption].
Qed.

Lemma mem_str_not_In x l : mem_str x l = false <-> ~ In x l.
Proof.
  rewrite <- mem_str_In. destruct (mem_str x l); split; congruence.
Qed.

Lemma mem_ascii_In c l : mem_ascii c l = true <-> In c l.
Proof.
  induction l as [|y l IH]; simpl.
  - split; [discriminate|tauto].
  - destruct (ascii_eqb_spec c y) as [->|H].
    + split; auto.
    + rewrite IH. split; [auto|]. intros [E|E]; [congruence|assumption].
Qed.

Lemma mem_ascii_app c a b : mem_ascii c (a ++ b) = mem_ascii c a || mem_ascii c b.
Proof.
  induction a as [|x a IH]; simpl; [reflexivity|]. destruct (ascii_eqb c x); [reflexivity|apply IH].
Qed.

Lemma mem_ascii_cons_false c x l :
  mem_ascii c (x :: l) = false <-> c <> x /\ mem_ascii c l = false.
Proof.
  simpl. destruct (ascii_eqb_spec c x) as [->|H].
  - split; [discriminate | intros [N _]; congruence].
  - split; [intro; split; assumption | intros [_ E]; assumption].
Qed.

(* ---------------------------------------------------------------- remove / uniq *)

Lemma remove_str_In x v l : In x (remove_str v l) <-> In x l /\ x <> v.
Proof.
  unfold remove_str. rewrite filter_In. rewrite negb_true_iff, str_eqb_neq. tauto.
Qed.

Lemma remove_str_notin v l : ~ In v l -> remove_str v l = l.
Proof.
  induction l as [|y l IH]; simpl; intro H; [reflexivity|].
  destruct (str_eqb_spec y v) as [->|N]; simpl.
  - exfalso. apply H. now left.
  - f_equal. apply IH. tauto.
Qed.

Lemma remove_str_app v a b : remove_str v (a ++ b) = remove_str v a ++ remove_str v b.
Proof. unfold remove_str. apply filter_app. Qed.

Lemma remove_str_comm v w l : remove_str v (remove_str w l) = remove_str w (remove_str v l).
Proof.
  induction l as [|y l IH]; simpl; [reflexivity|].
  destruct (str_eqb y w) eqn:Ew, (str_eqb y v) eqn:Ev; simpl; rewrite ?Ew, ?Ev; simpl; congruence.
Qed.

Lemma remove_str_idem v l : remove_str v (remove_str v l) = remove_str v l.
Proof.
  induction l as [|y l IH]; simpl; [reflexivity|].
  destruct (str_eqb y v) eqn:Ev; simpl; rewrite ?Ev; simpl; congruence.
Qed.

Lemma filter_remove_str (p : str -> bool) v l :
  filter p (remove_str v l) = remove_str v (filter p l).
Proof.
  induction l as [|y l IH]; simpl; [reflexivity|].
  destruct (str_eqb y v) eqn:Ev, (p y) eqn:Ep; simpl; rewrite ?Ev, ?Ep; simpl; congruence.
Qed.

Lemma filter_remove_str_absorb (p : str -> bool) v l :
  p v = false -> filter p (remove_str v l) = filter p l.
Proof.
  intro Hp. induction l as [|y l IH]; simpl; [reflexivity|].
  destruct (str_eqb_spec y v) as [->|N]; simpl.
  - now rewrite Hp.
  - now rewrite IH.
Qed.

Lemma uniq_filter (p : str -> bool) l : uniq (filter p l) = filter p (uniq l).
Proof.
  induction l as [|a l IH]; simpl; [reflexivity|].
  destruct (p a) eqn:Ep; simpl.
  - f_equal. rewrite IH. symmetry. apply filter_remove_str.
  - rewrite IH. symmetry. now apply filter_remove_str_absorb.
Qed.

Lemma uniq_remove_str v l : uniq (remove_str v l) = remove_str v (uniq l).
Proof. apply uniq_filter. Qed.

Lemma uniq_In x l : In x (uniq l) <-> In x l.
Proof.
  induction l as [|a l IH]; simpl; [tauto|].
  rewrite remove_str_In, IH. destruct (str_eq_dec x a) as [->|N]; [tauto|].
  split; [tauto|]. intros [E|E]; [congruence|tauto].
Qed.

Lemma NoDup_filter {A} (p : A -> bool) l : NoDup l -> NoDup (filter p l).
Proof.
  induction 1 as [|x l Hx Hl IH]; simpl; [constructor|].
  destruct (p x); [|assumption]. constructor; [|assumption].
  rewrite filter_In. tauto.
Qed.

Lemma uniq_NoDup l : NoDup (uniq l).
Proof.
  induction l as [|a l IH]; simpl; constructor.
  - rewrite remove_str_In. tauto.
  - now apply NoDup_filter.
Qed.

Lemma uniq_NoDup_id l : NoDup l -> uniq l = l.
Proof.
  induction 1 as [|x l Hx Hl IH]; simpl; [reflexivity|].
  rewrite IH. f_equal. now apply remove_str_notin.
Qed.

Lemma uniq_idem l : uniq (uniq l) = uniq l.
Proof. apply uniq_NoDup_id, uniq_NoDup. Qed.

Lemma uniq_app_fresh l v : ~ In v l -> uniq (l ++ [v]) = uniq l ++ [v].
Proof.
  induction l as [|a l IH]; simpl; intro H; [reflexivity|].
  rewrite IH by tauto. rewrite remove_str_app. simpl.
  destruct (str_eqb_spec v a) as [->|N]; simpl; [tauto|reflexivity].
Qed.

Lemma uniq_app_present l v : In v l -> uniq (l ++ [v]) = uniq l.
Proof.
  induction l as [|a l IH]; simpl; intro H; [tauto|].
  f_equal. destruct (str_eq_dec a v) as [->|N].
  - rewrite <- !uniq_remove_str, remove_str_app. simpl. rewrite str_eqb_refl. simpl.
    now rewrite app_nil_r.
  - rewrite IH; [reflexivity|]. destruct H; [congruence|assumption].
Qed.

(* ---------------------------------------------------------------- split / join *)

Lemma split_on_nonnil d x : split_on d x <> [].
Proof.
  induction x as [|c r IH]; simpl; [discriminate|].
  destruct (ascii_eqb c d); [discriminate|]. destruct (split_on d r); [congruence|discriminate].
Qed.

Lemma split_on_nodelim d x : mem_ascii d x = false -> split_on d x = [x].
Proof.
  induction x as [|c r IH]; simpl; [reflexivity|].
  rewrite (ascii_eqb_sym c d).
  destruct (ascii_eqb d c); [discriminate|]. intro H. now rewrite IH.
Qed.

Lemma split_on_app d x y :
  mem_ascii d x = false -> split_on d (x ++ d :: y) = x :: split_on d y.
Proof.
  induction x as [|c r IH]; simpl; intro H.
  - now rewrite ascii_eqb_refl.
  - rewrite (ascii_eqb_sym c d).
    destruct (ascii_eqb d c); [discriminate|]. now rewrite IH.
Qed.

Lemma split_on_parts_nodelim d x : Forall (fun p => mem_ascii d p = false) (split_on d x).
Proof.
  induction x as [|c r IH]; simpl.
  - constructor; [reflexivity|constructor].
  - destruct (ascii_eqb_spec c d) as [->|N].
    + constructor; [reflexivity|assumption].
    + destruct (split_on d r) as [|h t]; [constructor; [|constructor]|].
      * simpl. apply ascii_eqb_neq in N. rewrite ascii_eqb_sym. now rewrite N.
      * inversion IH; subst. constructor; [|assumption].
        simpl. apply ascii_eqb_neq in N. rewrite ascii_eqb_sym. now rewrite N.
Qed.

Lemma split_on_join d l :
  l <> [] -> Forall (fun p => mem_ascii d p = false) l -> split_on d (join d l) = l.
Proof.
  induction l as [|x l IH]; intros Hne Hall; [congruence|].
  inversion Hall as [|? ? Hx Hl]; subst.
  destruct l as [|y l'].
  - simpl. now apply split_on_nodelim.
  - change (join d (x :: y :: l')) with (x ++ d :: join d (y :: l')).
    rewrite split_on_app by assumption. f_equal. apply IH; [discriminate|assumption].
Qed.

Lemma join_split_on d x : join d (split_on d x) = x.
Proof.
  induction x as [|c r IH]; simpl; [reflexivity|].
  destruct (ascii_eqb_spec c d) as [->|N].
  - destruct (split_on d r) as [|h t] eqn:E; [now apply split_on_nonnil in E|].
    simpl. simpl in IH. now rewrite IH.
  - destruct (split_on d r) as [|h t] eqn:E; [now apply split_on_nonnil in E|].
    destruct t; simpl in *; now rewrite <- IH.
Qed.

Lemma join_cons d x y l : join d (x :: y :: l) = x ++ d :: join d (y :: l).
Proof. reflexivity. Qed.

Lemma mem_ascii_join c d l :
  c <> d -> Forall (fun p => mem_ascii c p = false) l -> mem_ascii c (join d l) = false.
Proof.
  intros Hcd. induction l as [|x l IH]; intro H; [reflexivity|].
  inversion H as [|? ? Hx Hl]; subst. destruct l as [|y l'].
  - assumption.
  - rewrite join_cons, mem_ascii_app, Hx. simpl.
    apply ascii_eqb_neq in Hcd. rewrite Hcd. now apply IH.
Qed.

Lemma starts_with_refl p x : starts_with p (p ++ x) = true.
Proof. induction p as [|c p IH]; simpl; [reflexivity|]. now rewrite ascii_eqb_refl. Qed.

Lemma Forall_filter {A} (P : A -> Prop) (p : A -> bool) l : Forall P l -> Forall P (filter p l).
Proof.
  induction 1 as [|x l Hx Hl IH]; simpl; [constructor|]. destruct (p x); [constructor|]; assumption.
Qed.

(* ---------------------------------------------------------------- association lists *)

Lemma alookup_aset_same {V} k (v : V) m : alookup k (aset k v m) = Some v.
Proof.
  induction m as [|[k' v'] m IH]; simpl.
  - now rewrite str_eqb_refl.
  - destruct (str_eqb k k') eqn:E; simpl; rewrite ?str_eqb_refl, ?E; auto.
Qed.

Lemma alookup_aset_other {V} k k' (v : V) m : k' <> k -> alookup k' (aset k v m) = alookup k' m.
Proof.
  intro N. induction m as [|[k2 v2] m IH]; simpl.
  - apply str_eqb_neq in N. now rewrite N.
  - destruct (str_eqb_spec k k2) as [->|N2]; simpl.
    + apply str_eqb_neq in N. now rewrite N.
    + destruct (str_eqb k' k2); [reflexivity|apply IH].
Qed.

Lemma alookup_aremove_same {V} k (m : amap V) : alookup k (aremove k m) = None.
Proof.
  induction m as [|[k' v'] m IH]; simpl; [reflexivity|].
  destruct (str_eqb k k') eqn:E; simpl; rewrite ?E; auto.
Qed.

Lemma alookup_aremove_other {V} k k' (m : amap V) : k' <> k -> alookup k' (aremove k m) = alookup k' m.
Proof.
  intro N. induction m as [|[k2 v2] m IH]; simpl; [reflexivity|].
  destruct (str_eqb_spec k k2) as [->|N2]; simpl.
  - apply str_eqb_neq in N. now rewrite N.
  - destruct (str_eqb k' k2); [reflexivity|apply IH].
Qed.

Lemma split_on_parts_sub c d x :
  mem_ascii c x = false -> Forall (fun p => mem_ascii c p = false) (split_on d x).
Proof.
  induction x as [|a r IH]; simpl; intro H.
  - constructor; [reflexivity|constructor].
  - destruct (ascii_eqb c a) eqn:Eca; [discriminate|]. specialize (IH H).
    destruct (ascii_eqb a d).
    + constructor; [reflexivity|assumption].
    + destruct (split_on d r) as [|h t]; [constructor; [|constructor]|].
      * simpl. now rewrite Eca.
      * inversion IH; subst. constructor; [|assumption]. simpl. now rewrite Eca.
Qed.
