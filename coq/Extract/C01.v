Require Import ExtrOcamlBasic.
From Eupsv Require Import Base.Base Model.PathAlg Model.Setup.
Extraction "model.ml" keep_types setup request find_setup_product setup_string.
