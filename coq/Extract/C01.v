Require Import ExtrOcamlBasic.
From Eupsv Require Import Base.Base Model.PathAlg Model.Setup Model.SetupWf Model.Resolve Model.SetupFull Generated.Config
  Model.SetupText Model.ResolveReal Model.SetupMS Model.SetupMSWf Model.SetupMSFull Model.SetupMSText
  Model.SetupCmds.
Extraction "model.ml" keep_types setup request find_setup_product setup_string
  wf2_check wf2_fields dl_of rank_of
  request_full_simple setup_full_simple select_vro entry_str site_config default_config
  world_of_text product_of_text setup_text request_text
  request_full_real request_full_real_checked full_domain fw_real_ok fw_conv db_sorted db_of
  msetup mrequest mfind_setup_product ms_setup_string mwf2_check mwf2_fields
  mrequest_full_simple msetup_full_simple mdb_of mworld_of_text mproduct_of_text msetup_text
  shell_after cmds_in_claim command_texts.
