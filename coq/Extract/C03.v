Require Import ExtrOcamlBasic.
From Eupsv Require Import Base.Base Model.Resolve Model.ResolveSpec Generated.Config.
Extraction "model.ml" keep_types parse_entry entry_str select_vro initial_preferred find_from_vro
  resolve_request classify designates_in designates wf_db vcmp_simple vmatch_simple
  site_config default_config pinned_path_quirk.
