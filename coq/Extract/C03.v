Require Import ExtrOcamlBasic.
From Eupsv Require Import Base.Base Model.Resolve Model.ResolveSpec Generated.Config Model.ResolveReal Model.ResolveExt Model.ResolveSeq.
Extraction "model.ml" keep_types parse_entry entry_str select_vro initial_preferred find_from_vro
  resolve_request classify designates_in designates wf_db vcmp_simple vmatch_simple
  site_config default_config pinned_path_quirk
  vcmp_real vmatch_real resolve_real walk_real real_domain real_names_ok conv_names names_of
  latest_tie expr_tie find_latest select_latest find_by_expr is_expr
  select_vro_x select_vro_w initial_preferred_x find_from_vro_x resolve_request_x designates_in_x wf_dbx flatten mkWorld
  tf_lookup find_tagged_x tag_designates_x
  apply_mut view_after hd_flavor find_tagged find_version.
