Require Import ExtrOcamlBasic.
From Eupsv Require Import Base.Base Model.Shell.
Extraction "model.ml" keep_types emit emit_failed render protect new_after sh_lex sh_run sh_source
  claim_env valid_names nodup_keys gone_ok quote_val needs_quote in_claim forget forced_ok.
