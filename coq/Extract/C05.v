Require Import ExtrOcamlBasic.
From Eupsv Require Import Base.Base Model.Shell Model.ShellSession.
Extraction "model.ml" keep_types emit emit_failed render protect new_after sh_lex sh_run sh_source
  claim_env valid_names nodup_keys gone_ok quote_val needs_quote in_claim forget forced_ok
  front_end cli_stdout listing api_session session_in_claim session_keeps session_final sh_chain call_shell_env.
