Require Import ExtrOcamlBasic.
From Eupsv Require Import Base.Base Model.Db Model.DbExt.
Extraction "model.ml" keep_types empty_db view listing step_gen effects_gen astep_gen run decide compile_all apply find_tagged xstep xempty xrun xastep kstep krun.
