Require Import ExtrOcamlBasic.
From Eupsv Require Import Base.Base Model.Db Model.Cache Model.CacheLive.
Extraction "model.ml" keep_types init_world run_proc_S delete_cache q_cache q_db uq_cache uq_db uq_files q_served uq_served fallbacks upsdb run_lstep_S pk_get key_eqb glookup.
