Require Import ExtrOcamlBasic.
From Eupsv Require Import Base.Base Model.Crash.
Extraction "model.ml" keep_types crash_state lower_atomic lower_inplace lower_all apply_effects is_tmp.
