Require Import ExtrOcamlBasic.
From Eupsv Require Import Base.Base Model.Crash Model.Db Model.CrashDb Model.CrashXdev Model.CrashCache.
Extraction "model.ml" keep_types crash_state lower_atomic lower_inplace lower_all apply_effects is_tmp
  empty_db run effects_gen image read_db crash_fs store_of view lower_atomic_at target_kinds load_cache
  helper_unwind sys_target persists.
