Require Import ExtrOcamlBasic.
From Eupsv Require Import Base.Base Model.Lock Model.LockName.
Extraction "model.ml" keep_types trace_view ntrace_view.
