Require Import ExtrOcamlBasic.
From Eupsv Require Import Base.Base Model.Lock.
Extraction "model.ml" keep_types trace_view.
