Require Import ExtrOcamlBasic.
From Eupsv Require Import Base.Base Model.VersionCompare Model.VersionKey Model.VersionStacks.
Extraction "model.ml" keep_types version_cmp version_cmp_strict version_cmp_pinned version_cmp_strict_pinned
  split_version cmp_primaries version_match tokenize items latest conv key key_compare accepts
  latest_over_stacks latest_listing.
