Require Import ExtrOcamlBasic.
From Eupsv Require Import Base.Base Model.Rx Model.Cond Model.Args Model.Legacy Model.Blocks Model.TableSpec.
Extraction "model.ml" keep_types tokenize eval_value eval_cond split_args mk_action classify
  rewrite split_lines read_text select table_actions args_class.
