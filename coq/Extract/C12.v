Require Import ExtrOcamlBasic.
From Eupsv Require Import Base.Base Model.PathAlg Model.PathAlgScript.
Extraction "model.ml" keep_types env_prepend env_set env_unset exec_pacts elems uniq run_script.
