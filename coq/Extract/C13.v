Require Import ExtrOcamlBasic.
From Eupsv Require Import Base.Base Model.Graph Model.Resolve Generated.Config Model.DepWalk Model.DepWalkText Model.BuildOrder Model.UsesSeq.
Extraction "model.ml" keep_types dependent_products dependent_products_pinned dependent_products_byname_pinned
  topo_graph topo_graph_byname_pinned scc comp_layers
  sort_layers node_cmp node_cmp_pinned partition_ok uses_index users users_pinned walk_top check_cycles
  create_dependencies install_manifest cli_lines
  world_after db_after current_of run_session
  list_text graph_text edges_text lookup_text hyps_text site_config default_config.
