Require Import ExtrOcamlBasic.
From Eupsv Require Import Base.Base Model.Graph Model.Db Model.Remove.
Extraction "model.ml" keep_types remove remove_fixed remove_pinned collect uses_index users.
