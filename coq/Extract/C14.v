Require Import ExtrOcamlBasic.
From Eupsv Require Import Base.Base Model.Graph Model.Db Model.Remove Model.RemoveExt.
Extraction "model.ml" keep_types remove remove_fixed remove_pinned collect uses_index users
  remove_x eups_remove cli_remove select prompt destroy_i.
