Require Import ExtrOcamlBasic.
From Eupsv Require Import Base.Base Model.Paths Model.Records Model.RecordsExt Model.RecordsDirs.
Extraction "model.ml" keep_types vf_read vf_lines vf_write_gen add_flavor db_declare_gen db_find
  cf_read cf_lines cf_set_version canon_gen resolve_paths mk_product trim_info_gen
  vf_classify cf_classify make_product cf_get_version cf_remove_version vf_remove_flavor
  realpath ex_via env0
  cf_set_versions_opt cf_remove_versions_opt assign_flavors db_assign_tag db_find_seq
  tag_target db_assign_tag_at db_assign_tag_in.
