Require Import ExtrOcamlBasic.
From Eupsv Require Import Base.Base Model.PathAlg Model.Setup Model.Expand.
Extraction "model.ml" keep_types setup expand_gen render.
