Require Import ExtrOcamlBasic.
From Eupsv Require Import Base.Base Model.PathAlg Model.Setup Model.Expand Model.ExpandText.
Extraction "model.ml" keep_types setup expand_gen render expand_text_gen classify_text.
