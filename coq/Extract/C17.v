Require Import ExtrOcamlBasic.
From Eupsv Require Import Base.Base Model.PathAlg Model.Setup Model.Expand Model.ExpandText Model.ExpandRe Model.ExpandOpt.
Extraction "model.ml" keep_types setup expand_gen render expand_text_gen classify_text reexpand_text_gen unexpand_text reexpand_text_opt.
