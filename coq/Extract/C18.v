Require Import ExtrOcamlBasic.
From Eupsv Require Import Base.Base Model.Manifest Model.ManifestSpec Model.ManifestOps.
Extraction "model.ml" keep_types new_dep m_write m_read empty_manifest tl_new tl_add tl_write tl_read tl_products
  m_of_rows m_inverse remap m_apply spec_remap norm_manifest wf_manifest sorted_entries visible as_flavor
  m_merge read_remap remap_rows files_rows remap_entries m_print wf_table m_noreinstall remap_declares
  tl_trace m_trace.
