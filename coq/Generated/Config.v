(* GENERATED on every run of ./check C03 by harness/c03.py from python/eups/hooks.py (config.Eups.VRO,
   preferredTags, globalTags, reservedTags, userTags) and python/eups/Eups.py (tag registration loop of
   Eups.__init__).  Do not edit. *)
From Eupsv Require Import Base.Base Model.Resolve.

Definition hooks_vro : list (str * list str) := [((lit "default"), [(lit "type:exact"); (lit "commandLine"); (lit "version"); (lit "versionExpr"); (lit "current")])].
Definition hooks_preferred_tags : list str := [(lit "version"); (lit "versionExpr"); (lit "current"); (lit "stable"); (lit "latest")].
Definition hooks_global_tags : list str := [(lit "current"); (lit "stable")].
Definition hooks_reserved_tags : list str := [(lit "commandLine"); (lit "keep"); (lit "type")].
Definition hooks_user_tags : list str := [].
Definition eups_builtin_global_tags : list str := [(lit "latest")].
Definition eups_pseudo_tags : list str := [(lit "commandLine"); (lit "keep"); (lit "path"); (lit "setup"); (lit "type"); (lit "version"); (lit "version!"); (lit "versionExpr"); (lit "warn")].

(* the configuration of a site that registers the extra global tags [extra] and runs as user [user] *)
Definition site_config (extra user : list str) : config :=
  mkConfig hooks_vro hooks_preferred_tags
           (hooks_global_tags ++ extra ++ eups_builtin_global_tags)
           (hooks_user_tags ++ user) eups_pseudo_tags.

Definition default_config : config := site_config [] [].
