(* C11 - model of the command part of Table._read (python/eups/table.py 327-449) and of
   Action.__init__: splitting the text between the parentheses into arguments (the
   protection passes with the control characters 1, 2, 3), normalising the command name
   through the lower-cased dictionary, the arity checks and the extra flags.
   Executable definitions only. *)
From Eupsv Require Import Base.Base Model.Rx.

(* ---------------------------------------------------------------- argument splitting *)

(* args.replace(backslash-quote, chr 2) *)
Definition protect_bsq (s : str) : str := replace_all [c_bsl; c_dq] [c_02] s.

(* the pattern  comma, blanks, quote, ONE blank, quote  replaced by  that blank, quote, chr 1, quote *)
Definition csq_match (s : str) : option (str * nat) :=
  match s with
  | c :: r =>
      if ascii_eqb c c_comma then
        let '(ws, r1) := span is_pyspace r in
        match r1 with
        | q :: x :: q' :: _ =>
            if ascii_eqb q c_dq && is_pyspace x && ascii_eqb q' c_dq
            then Some ([x; c_dq; c_01; c_dq], length ws + 3)
            else None
        | _ => None
        end
      else None
  | [] => None
  end.

(* the pattern  quote, one or more non-quotes, quote ; the whole match has character a
   replaced by character b *)
Definition quoted_match (a b : ascii) (s : str) : option (str * nat) :=
  match s with
  | q :: r =>
      if ascii_eqb q c_dq then
        match span (fun c => negb (ascii_eqb c c_dq)) r with
        | (body, q' :: _) =>
            match body with
            | [] => None
            | _ => Some (c_dq :: map_char a b body ++ [c_dq], S (length body))
            end
        | (_, []) => None
        end
      else None
  | [] => None
  end.

Definition is_argsep (c : ascii) : bool := ascii_eqb c c_comma || ascii_eqb c c_sp.

Definition unprotect (s : str) : str :=
  map_char c_03 c_comma (map_char c_02 c_dq (map_char c_01 c_sp (strip_dq s))).

(* [fx] = false: the pinned code, with the special case for a quoted single blank (which
   also fires across two quoted arguments when the first ends in a comma);
   [fx] = true: the repaired code, where that pass is gone (the next pass covers it) *)
Definition protect (fx : bool) (s : str) : str :=
  let s1 := protect_bsq (strip_dq s) in
  resub (quoted_match c_comma c_03)
    (resub (quoted_match c_sp c_01)
       (if fx then s1 else resub csq_match s1)).

Definition split_args (fx : bool) (s : str) : list str :=
  map unprotect (split_set is_argsep (protect fx s)).

(* ---------------------------------------------------------------- actions *)

Record action := mkAction { a_cmd : str; a_args : list str; a_extra : list (str * bool) }.

Inductive cmdres := CAdd (a : action) | CSkip | CRaise.

(* the constants of class Action *)
Definition k_addAlias := lit "addAlias".
Definition k_declareOptions := lit "declareOptions".
Definition k_envAppend := lit "envAppend".
Definition k_envPrepend := lit "envPrepend".
Definition k_envSet := lit "envSet".
Definition k_envUnset := lit "envUnset".
Definition k_prodDir := lit "prodDir".
Definition k_print := lit "print".
Definition k_setupEnv := lit "setupEnv".
Definition k_setupOptional := lit "setupOptional".
Definition k_setupRequired := lit "setupRequired".
Definition k_unsetupOptional := lit "unsetupOptional".
Definition k_unsetupRequired := lit "unsetupRequired".
Definition k_sourceRequired := lit "sourceRequired".

(* the dictionary of _read, keyed by the lower-cased name *)
Definition cmd_table : amap str :=
  [ (lit "addalias", k_addAlias);
    (lit "declareoptions", k_declareOptions);
    (lit "envappend", k_envAppend);
    (lit "envprepend", k_envPrepend);
    (lit "envset", k_envSet);
    (lit "envunset", k_envUnset);
    (lit "pathappend", k_envAppend);
    (lit "pathprepend", k_envPrepend);
    (lit "pathremove", k_envUnset);
    (lit "pathset", k_envSet);
    (lit "print", k_print);
    (lit "proddir", k_prodDir);
    (lit "setupenv", k_setupEnv);
    (lit "setenv", k_envSet);
    (lit "unsetenv", k_envUnset);
    (lit "setuprequired", k_setupRequired);
    (lit "setupoptional", k_setupOptional);
    (lit "sourcerequired", k_sourceRequired);
    (lit "unsetuprequired", k_unsetupRequired);
    (lit "unsetupoptional", k_unsetupOptional) ].

Definition normalise_cmd (name : str) : option str := alookup (lower_str name) cmd_table.

(* Action.__init__: the first -f and the argument after it are deleted *)
Fixpoint del_f (args : list str) : list str :=
  match args with
  | [] => []
  | a :: r => if str_eqb a (lit "-f") then tl r else a :: del_f r
  end.

Definition add (cmd : str) (args : list str) (extra : list (str * bool)) : cmdres :=
  CAdd (mkAction cmd (del_f args) extra).

Definition s_optional := lit "optional".
Definition s_append := lit "append".

(* utils.dirEnvNameFor *)
Definition upper_ascii (c : ascii) : ascii :=
  if is_lower c then ascii_of_nat (nat_of_ascii c - 32) else c.
Definition dir_env_name (product : str) : str := map upper_ascii product ++ lit "_DIR".

(* the if/elif cascade after the dictionary; [top] is the name of the top product (the
   table is read with a topProduct) *)
Definition process_cmd (top : str) (cmd : str) (args : list str) : cmdres :=
  if str_eqb cmd k_prodDir || str_eqb cmd k_setupEnv then add cmd args []
  else if str_eqb cmd k_addAlias then add cmd args []
  else if str_eqb cmd k_declareOptions then add cmd args []
  else if str_eqb cmd k_unsetupOptional || str_eqb cmd k_unsetupRequired then
    add k_unsetupRequired args [(s_optional, negb (str_eqb cmd k_unsetupRequired))]
  else if str_eqb cmd k_setupOptional || str_eqb cmd k_setupRequired then
    add k_setupRequired args [(s_optional, negb (str_eqb cmd k_setupRequired))]
  else if str_eqb cmd k_envAppend || str_eqb cmd k_envPrepend then
    if (length args <? 2) || (3 <? length args) then CRaise
    else add k_envPrepend args [(s_append, str_eqb cmd k_envAppend)]
  else if str_eqb cmd k_envSet then
    match args with
    | a0 :: (_ :: _) as rest => add k_envSet [a0; join_str [c_sp] rest] []
    | _ => CRaise
    end
  else if str_eqb cmd k_envUnset then
    match args with
    | [a0] =>
        let pdir := dir_env_name top in
        let a0' := if str_eqb a0 (lit "PRODUCT_DIR") then pdir else a0 in
        if str_eqb a0' pdir then add k_envUnset [a0'] [] else CSkip
    | _ => CRaise
    end
  else if str_eqb cmd k_sourceRequired then CSkip
  else if str_eqb cmd k_print then add cmd args []
  else CSkip.

(* a line that matched the command pattern: name as written, text between the parentheses *)
Definition mk_action (fx : bool) (top : str) (name argstr : str) : cmdres :=
  match normalise_cmd name with
  | None => CSkip
  | Some cmd => process_cmd top cmd (split_args fx argstr)
  end.

(* a line that matched neither pattern: cmd = line; args = [] *)
Definition mk_action_other (top : str) (line : str) : cmdres := process_cmd top line [].
