(* C11 - model of the block structure parser Table._read (python/eups/table.py 268-320,
   450-457) and of the branch selection Table.actions (473-503).
   [classify] is the level-A function (one rewritten line to its kind: the two regular
   expressions of _read); [read_blocks] is the state machine with the five variables of the
   code (logical, block, ifBlock, logicalBlocks, self._actions); [select] walks the chains.
   The flag [fx] selects the repaired code (true) or the pinned code (false):
     - the repaired brace pattern accepts blanks after the left brace of an else line;
     - the repaired VersionParser._expr always evaluates the right operand;
     - the repaired argument splitter has no special case for a quoted single blank.
   A second flag [eb] selects the reader with the repair of D6 (proposed fix C11-empty-branch;
   true) or the reader that tests the truth of block / ifBlock (false):
     - the repaired reader has two more state variables, inBranch (set on every brace line
       except a bare right brace) and an ifBlock that is None until the else line was seen;
       a brace line closes the open branch when block is non-empty OR inBranch is set.
   Executable definitions only. *)
From Eupsv Require Import Base.Base Model.Rx Model.Cond Model.Args Model.Legacy.

(* ---------------------------------------------------------------- level A: lines *)

Inductive linekind :=
| LIf (c : str)              (* if (c) left-brace *)
| LElseIf (c : str)          (* right-brace else if (c) left-brace *)
| LElse (exact : bool)       (* right-brace else left-brace; exact: group 2 is else in lower case *)
| LClose                     (* right-brace *)
| LCmd (name argstr : str)   (* name ( argstr ) optional semicolon *)
| LOther (line : str).

(* blanks, left brace, (blanks when allowed), end *)
Definition tail_brace (trail_ok : bool) (s : str) : bool :=
  match drop_ws s with
  | b :: r => ascii_eqb b c_lb && (if trail_ok then all_ws r else match r with [] => true | _ => false end)
  | [] => false
  end.

(* ( cond ) tail : the closing parenthesis is the last one of the line *)
Definition paren_group (s : str) : option (str * str) :=
  match s with
  | p :: r => if ascii_eqb p c_lp then split_last c_rp r else None
  | [] => None
  end.

(* [if] blanks ( cond ) : case-insensitive *)
Definition if_head (s : str) : option (str * str) :=
  match ci_prefix (lit "if") s with
  | Some r => paren_group (drop_ws r)
  | None => None
  end.

Definition brace_match (fx : bool) (l : str) : option linekind :=
  match if_head l with
  | Some (c, t) => if tail_brace true t then Some (LIf c) else None
  | None =>
      match l with
      | b :: r =>
          if ascii_eqb b c_rb then
            match drop_ws r with
            | [] => Some LClose
            | r1 =>
                match ci_prefix (lit "else") r1 with
                | Some r2 =>
                    match if_head (drop_ws r2) with
                    | Some (c, t) => if tail_brace fx t then Some (LElseIf c) else None
                    | None =>
                        if tail_brace fx r2
                        then Some (LElse (match cs_prefix (lit "else") r1 with Some _ => true | None => false end))
                        else None
                    end
                | None => None
                end
            end
          else None
      | [] => None
      end
  end.

(* blanks, optional semicolon, blanks, end *)
Definition tail_semi (s : str) : bool :=
  match drop_ws s with
  | [] => true
  | c :: r => ascii_eqb c c_semi && all_ws r
  end.

Definition cmd_match (l : str) : option (str * str) :=
  match span is_word l with
  | ([], _) => None
  | (name, r) =>
      match paren_group (drop_ws r) with
      | Some (a, t) => if tail_semi t then Some (name, a) else None
      | None => None
      end
  end.

Definition classify (fx : bool) (l : str) : linekind :=
  match brace_match fx l with
  | Some k => k
  | None => match cmd_match l with
            | Some (n, a) => LCmd n a
            | None => LOther l
            end
  end.

(* ---------------------------------------------------------------- level B: the state machine *)

(* an element of a logicalBlocks list *)
Inductive lbelem := LLog (c : str) | LBlk (b : list action).
Definition lbb := list lbelem.

Record rstate := mkR {
  r_logical : str;
  r_block : list action;
  r_ifblock : list action;
  r_chain : lbb;             (* logicalBlocks *)
  r_out : list lbb           (* self._actions *)
}.

Definition s_true : str := lit "True".
Definition r_init : rstate := mkR s_true [] [] [] [].

Definition is_nil {A} (l : list A) : bool := match l with [] => true | _ => false end.

(* the body of  if mat:  for a brace line *)
Definition step_brace (k : linekind) (st : rstate) : rstate :=
  let st1 :=
    if is_nil (r_block st) then st
    else
      match k with
      | LElse true =>
          mkR (r_logical st) [] (r_block st) (r_chain st) (r_out st)
      | LElseIf c =>
          mkR c [] (r_ifblock st) (r_chain st ++ [LLog (r_logical st); LBlk (r_block st)]) (r_out st)
      | _ =>
          let ifb := if is_nil (r_ifblock st) then r_block st else r_ifblock st in
          let elb := if is_nil (r_ifblock st) then [] else r_block st in
          let ch := r_chain st ++ [LLog (r_logical st); LBlk ifb; LBlk elb] in
          match k with
          | LIf _ => mkR (r_logical st) [] [] [] (r_out st ++ [ch])
          | _ => mkR (r_logical st) [] ifb ch (r_out st)
          end
      end in
  match k with
  | LIf c => mkR c (r_block st1) (r_ifblock st1) (r_chain st1) (r_out st1)
  | LClose =>
      if is_nil (r_chain st1) then mkR s_true (r_block st1) (r_ifblock st1) (r_chain st1) (r_out st1)
      else mkR s_true (r_block st1) [] [] (r_out st1 ++ [r_chain st1])
  | _ => st1
  end.

Definition step_cmd (r : cmdres) (st : rstate) : res rstate :=
  match r with
  | CAdd a => Ok (mkR (r_logical st) (r_block st ++ [a]) (r_ifblock st) (r_chain st) (r_out st))
  | CSkip => Ok st
  | CRaise => Err BadTable
  end.

Definition step (fx : bool) (top : str) (k : linekind) (st : rstate) : res rstate :=
  match k with
  | LCmd n a => step_cmd (mk_action fx top n a) st
  | LOther l => step_cmd (mk_action_other top l) st
  | _ => Ok (step_brace k st)
  end.

Fixpoint run_lines (fx : bool) (top : str) (ks : list linekind) (st : rstate) : res rstate :=
  match ks with
  | [] => Ok st
  | k :: r => bind (step fx top k st) (run_lines fx top r)
  end.

(* after the loop *)
Definition finish (st : rstate) : list lbb :=
  r_out st
  ++ (if is_nil (r_chain st) then [] else [r_chain st])
  ++ (if is_nil (r_block st) then [] else [[LLog (r_logical st); LBlk (r_block st); LBlk []]]).

Definition read_blocks (fx : bool) (top : str) (ks : list linekind) : res (list lbb) :=
  bind (run_lines fx top ks r_init) (fun st => Ok (finish st)).

(* ---------------------------------------------------------------- the state machine with the repair of D6 *)

(* logical, block, inBranch, ifBlock (None until the else line of the chain was seen),
   logicalBlocks, self._actions *)
Record rstate_r := mkQ {
  q_logical : str;
  q_block : list action;
  q_inbranch : bool;
  q_ifblock : option (list action);
  q_chain : lbb;
  q_out : list lbb
}.

Definition q_init : rstate_r := mkQ s_true [] false None [] [].

(* the body of  if mat:  for a brace line:  if block or inBranch: ...;  inBranch = group 1 or
   group 2 matched;  then the lines on logical as before *)
Definition step_brace_r (k : linekind) (st : rstate_r) : rstate_r :=
  let st1 :=
    if is_nil (q_block st) && negb (q_inbranch st) then st
    else
      match k with
      | LElse true =>
          mkQ (q_logical st) [] (q_inbranch st) (Some (q_block st)) (q_chain st) (q_out st)
      | LElseIf c =>
          mkQ c [] (q_inbranch st) (q_ifblock st)
              (q_chain st ++ [LLog (q_logical st); LBlk (q_block st)]) (q_out st)
      | _ =>
          let ifb := match q_ifblock st with Some b => b | None => q_block st end in
          let elb := match q_ifblock st with Some _ => q_block st | None => [] end in
          let ch := q_chain st ++ [LLog (q_logical st); LBlk ifb; LBlk elb] in
          match k with
          | LIf _ => mkQ (q_logical st) [] (q_inbranch st) None [] (q_out st ++ [ch])
          | _ => mkQ (q_logical st) [] (q_inbranch st) (Some ifb) ch (q_out st)
          end
      end in
  match k with
  | LIf c => mkQ c (q_block st1) true (q_ifblock st1) (q_chain st1) (q_out st1)
  | LClose =>
      if is_nil (q_chain st1) then mkQ s_true (q_block st1) false (q_ifblock st1) (q_chain st1) (q_out st1)
      else mkQ s_true (q_block st1) false None [] (q_out st1 ++ [q_chain st1])
  | _ => mkQ (q_logical st1) (q_block st1) true (q_ifblock st1) (q_chain st1) (q_out st1)
  end.

Definition step_cmd_r (r : cmdres) (st : rstate_r) : res rstate_r :=
  match r with
  | CAdd a => Ok (mkQ (q_logical st) (q_block st ++ [a]) (q_inbranch st) (q_ifblock st) (q_chain st) (q_out st))
  | CSkip => Ok st
  | CRaise => Err BadTable
  end.

Definition step_r (fx : bool) (top : str) (k : linekind) (st : rstate_r) : res rstate_r :=
  match k with
  | LCmd n a => step_cmd_r (mk_action fx top n a) st
  | LOther l => step_cmd_r (mk_action_other top l) st
  | _ => Ok (step_brace_r k st)
  end.

Fixpoint run_lines_r (fx : bool) (top : str) (ks : list linekind) (st : rstate_r) : res rstate_r :=
  match ks with
  | [] => Ok st
  | k :: r => bind (step_r fx top k st) (run_lines_r fx top r)
  end.

(* after the loop: unchanged *)
Definition finish_r (st : rstate_r) : list lbb :=
  q_out st
  ++ (if is_nil (q_chain st) then [] else [q_chain st])
  ++ (if is_nil (q_block st) then [] else [[LLog (q_logical st); LBlk (q_block st); LBlk []]]).

Definition read_blocks_r (fx : bool) (top : str) (ks : list linekind) : res (list lbb) :=
  bind (run_lines_r fx top ks q_init) (fun st => Ok (finish_r st)).

(* the reader selected by the flag *)
Definition read_blocks_sel (fx eb : bool) (top : str) (ks : list linekind) : res (list lbb) :=
  if eb then read_blocks_r fx top ks else read_blocks fx top ks.

(* ---------------------------------------------------------------- Table.actions *)

(* while LBB: logical, ifBlock, elseBlock = LBB[0], LBB[1], LBB[2:] ... *)
Fixpoint sel_chain (fx : bool) (e : cenv) (l : lbb) : res (list action) :=
  match l with
  | [] => Ok []
  | LLog c :: LBlk b :: rest =>
      bind (eval_cond fx e c) (fun t =>
        if t then Ok b
        else match rest with
             | [LBlk eb] => Ok eb
             | [LLog _] => Err Crash
             | _ => sel_chain fx e rest
             end)
  | _ => Err Crash
  end.

Fixpoint select (fx : bool) (e : cenv) (ls : list lbb) : res (list action) :=
  match ls with
  | [] => Ok []
  | l :: r => bind (sel_chain fx e l) (fun a => bind (select fx e r) (fun b => Ok (a ++ b)))
  end.

(* ---------------------------------------------------------------- the whole path *)

(* Table(file, topProduct=top, addDefaultProduct=False) *)
Definition read_text (fx eb : bool) (top : str) (text : str) : res (list lbb) :=
  bind (rewrite (split_lines text)) (fun ls => read_blocks_sel fx eb top (map (classify fx) ls)).

(* Table(...).actions(flavor, types) *)
Definition table_actions (fx eb : bool) (top : str) (text : str) (e : cenv) : res (list action) :=
  bind (read_text fx eb top text) (select fx e).
