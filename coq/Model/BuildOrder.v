(* The consumers of the topological dependency listing (property C13):

     Distrib._createDeps / DefaultDistrib.createDependencies   python/eups/distrib/Distrib.py 367-483, 826-854
     server.Manifest.addDependency / roll                      python/eups/distrib/server.py
       -> [create_dependencies]: the ordered list of manifest entries (the install order of eups distrib)
     app.printProducts(dependencies=True)                      python/eups/app.py 100-170
       -> [cli_lines]: the lines eups list --dependencies [--topological] [--depth EXPR] prints (with the repair
          of proposed_fixes/C13-list-prints-every-version; the pinned behaviour is [cli_lines_pinned])

   Executable definitions only, layered on Model/Graph.v (a [world] of resolved table lines,
   [dependent_products] = Eups.getDependentProducts).

   _createDeps, the path through the EUPS database (noeups is off):
     - productList.addDependency(top) first;
     - Eups.getProduct(top) then getDependentProducts(top, productDictionary={}, topological=True); every
       exception of either is swallowed (except Exception: return None) and becomes EupsException
       Unable to determine dependencies;  the arguments recursive and exact are not consulted on this path
       (the listing is always the recursive one, exactness is the one of the Eups instance);
     - dependencies.sort(key = -depth): python list.sort is stable, so products of one depth keep the order of
       the listing (ascending depth, then name);
     - every listed product is looked up AGAIN, Eups.findProductFromVRO(name, version), under the preferred tags
       of the Eups instance, under the running flavor and then its fall-back flavors as the listing itself looks
       (proposed_fixes/C13-createdeps-fallback-flavor; the pinned tree looked under the running flavor only): found -> an entry with the version found and the optional
       flag of the listing; not found -> skipped when optional, ProductNotFound when required;
     - productList.roll(): the entry of the top product goes from the front to the end.
   DefaultDistrib.createDependencies then fills table file, distribution id and install directory of every
   entry (updateDependencies); the order and the (name, version, optional) of the entries do not change. *)
From Eupsv Require Import Base.Base Model.Graph.

(* ---------------------------------------------------------------- the second look-up *)

(* Eups.findProductFromVRO(name, version) for a listed product, asked of the same database under the
   version resolution order the lines were resolved with (version before versionExpr before the tags):
   an explicit version is found exactly when it is declared - when it is not, the look-up stops at the
   version entries and never falls through to a tag (Eups.py 910-927); a product listed without a version
   is the stub of a bare line for which no tag designated anything, and asking again finds nothing *)
Definition relookup (w : world) (p : node) : option node :=
  match nver p with
  | Some v => if declared w (nname p) v then Some (nname p, Some v, true) else None
  | None => None
  end.

(* ---------------------------------------------------------------- the manifest *)

(* product (name, Some version, true) and the optional flag *)
Definition mentry := (node * bool)%type.

(* dependencies.sort(key=lambda a: -a[2]) *)
Definition depth_desc_cmp (a b : entry) : option comparison := Some (Nat.compare (edepth b) (edepth a)).

Definition by_depth (l : list entry) : list entry :=
  match psort depth_desc_cmp l with Ok s => s | Err _ => l end.

(* the loop over the sorted listing, Distrib.py 456-469 *)
Fixpoint manifest_loop (w : world) (l : list entry) : res (list mentry) :=
  match l with
  | [] => Ok []
  | x :: r =>
      match relookup w (enode x) with
      | Some q =>
          match manifest_loop w r with
          | Err e => Err e
          | Ok m => Ok ((q, eoptional x) :: m)
          end
      | None => if eoptional x then manifest_loop w r else Err NotFound
      end
  end.

(* Distrib.createDependencies(name, version): [Err Undefined] is the EupsException Unable to determine
   dependencies (the product is not declared, or the listing raised), [Err NotFound] the ProductNotFound of a
   required dependency that is not declared *)
Definition create_dependencies (fuel : nat) (w : world) (n v : str) : res (list mentry) :=
  let top : node := (n, Some v, true) in
  if negb (declared w n v) then Err Undefined
  else
    match dependent_products fuel w top true with
    | Err OutOfFuel => Err OutOfFuel
    | Err _ => Err Undefined
    | Ok l =>
        match manifest_loop w (by_depth l) with
        | Err e => Err e
        | Ok m => Ok (m ++ [(top, false)])
        end
    end.

Definition manifest_nodes (m : list mentry) : list node := map fst m.

(* ---------------------------------------------------------------- installing in manifest order *)

(* the products the table of p asks for, as resolved *)
Definition targets (w : world) (p : node) : list node :=
  match node_table w p with
  | Some es => map own_target es
  | None => []
  end.

(* install the products of [todo] one after the other; a product can be installed when every product its
   table asks for that is to be installed at all (it is in [manifest]) has been installed before it.
   [Err Refused]: the loop met an uninstalled dependency *)
Fixpoint install_loop (w : world) (manifest installed todo : list node) : res (list node) :=
  match todo with
  | [] => Ok installed
  | p :: r =>
      if forallb (fun d => implb (mem_node d manifest) (mem_node d installed)) (targets w p)
      then install_loop w manifest (installed ++ [p]) r
      else Err Refused
  end.

Definition install_manifest (w : world) (m : list mentry) : res (list node) :=
  install_loop w (manifest_nodes m) [] (manifest_nodes m).

(* ---------------------------------------------------------------- eups list --dependencies *)

(* --depth: an integer N means depth <= N; otherwise an operator and an integer, compared with the depth
   of every line; no option: everything *)
Inductive depth_filter := DAll | DLe (n : nat) | DLt (n : nat) | DGe (n : nat) | DGt (n : nat)
                        | DEq (n : nat) | DNe (n : nat).

Definition depth_ok (f : depth_filter) (d : nat) : bool :=
  match f with
  | DAll => true
  | DLe n => Nat.leb d n
  | DLt n => Nat.ltb d n
  | DGe n => Nat.leb n d
  | DGt n => Nat.ltb n d
  | DEq n => Nat.eqb d n
  | DNe n => negb (Nat.eqb d n)
  end.

Fixpoint mem_str (x : str) (l : list str) : bool :=
  match l with
  | [] => false
  | y :: r => if str_eqb x y then true else mem_str x r
  end.

(* app.py 151-168 without -v, as pinned: _msgs was keyed by the product NAME, so of the products of one name only
   the first one met was printed (kept for the refutation example cli_one_line_per_name_refuted_pinned) *)
Fixpoint first_of_name (seen : list str) (l : list entry) : list entry :=
  match l with
  | [] => []
  | x :: r =>
      if mem_str (nname (enode x)) seen then first_of_name seen r
      else x :: first_of_name (nname (enode x) :: seen) r
  end.

Fixpoint mem_key (k : ukey) (l : list ukey) : bool :=
  match l with
  | [] => false
  | y :: r => if ukey_eqb k y then true else mem_key k r
  end.

(* repaired (proposed_fixes/C13-list-prints-every-version): _msgs is keyed by (name, version) - a product is printed
   once, two versions of one name are two products and both are printed.  The name of the top product is not
   entered: a dependency on the product itself (a cycle through the root) is printed again *)
Fixpoint first_of_product (seen : list ukey) (l : list entry) : list entry :=
  match l with
  | [] => []
  | x :: r =>
      if mem_key (ukey_of (enode x)) seen then first_of_product seen r
      else x :: first_of_product (ukey_of (enode x) :: seen) r
  end.

(* the dependency lines printed for a listing: the depth test comes first, then the test of what was printed.
   [fx] = true: the repaired code; false: the pinned tree *)
Definition cli_entries_with (fx : bool) (f : depth_filter) (l : list entry) : list entry :=
  let kept := filter (fun x => depth_ok f (edepth x)) l in
  if fx then first_of_product [] kept else first_of_name [] kept.

Definition cli_entries := cli_entries_with true.

(* printProducts(dependencies=True, topological, checkCycles, depth) on the product [top]: the products
   printed, in order - the top product itself at depth 0.  With checkCycles and without topological the
   listing is computed (and may raise) but nothing is printed *)
Definition cli_lines_with (fx : bool) (fuel : nat) (w : world) (top : node) (topological check : bool)
           (f : depth_filter) : res (list node) :=
  match (if check then
           match topo_graph fuel w top with
           | Err x => Err x
           | Ok g => match check_cycles g with Err x => Err x | Ok _ => Ok tt end
           end
         else Ok tt) with
  | Err x => Err x
  | Ok _ =>
      match dependent_products fuel w top topological with
      | Err x => Err x
      | Ok l =>
          if check && negb topological then Ok []
          else Ok ((if depth_ok f 0 then [top] else []) ++ map enode (cli_entries_with fx f l))
      end
  end.

Definition cli_lines := cli_lines_with true.
Definition cli_lines_pinned := cli_lines_with false.
