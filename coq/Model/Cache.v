(* Model of the persisted product cache (C07), on top of the database model Model/Db.v.

   Code followed: stack/ProductFamily.py (addVersion, removeVersion, assignTag, unassignTag),
   stack/ProductStack.py (fromCache, _tryCache, cacheIsUpToDate, reload, persist, save,
   ensureInSync, _cacheFileIsInSync, refreshFromDatabase, addProduct, removeProduct, assignTag,
   unassignTag), db/Database.py (isNewerThan, findProductNames), and the write-through blocks
   of Eups.declare / undeclare / assignTag / unassignTag.

   The world: the database files of Model/Db.v, a logical clock, a modification time for every
   product directory, version file and chain file, and the cache files (pickles), one per
   (cache directory, stack, flavor), each with its modification time and its content (product
   name -> ProductFamily, i.e. versions and tags).  A cache directory is named by a string: a
   user's name (the _caches_ directory under his EUPS_USERDATA) or [upsdb] (the ups_db
   directory of the stack itself).

   Every primitive file effect of the database model advances the clock ([tick]) and stamps
   the record and its product directory; every write of a cache file advances the clock and
   stamps the file.  [tick] is a parameter: the theorems assume it strictly increasing
   (clock_strict); with a clock that can stand still the property is false (Props/C07.v).

   A process is: build one Eups (ProductStack.fromCache for every stack on the path: the
   user's cache directory, else ups_db, else rebuild from the files and save), then a list of
   operations.  One operation = the decisions of Model/Db.v ([decide], taken on what the files
   say -- under the coherence theorem that is what the in-memory cache says), whose
   record-level actions are grouped as the code groups them: one group per call of
   Database.declare / undeclare / assignTag / unassignTag, each followed by ensureInSync, the
   in-memory update of the ProductStack and save(invoking flavor).  A process may die before a
   group or between the database update of a group and its cache update.

   The record [variant] selects the pinned tree or the repaired code for the two defects found:
   v_rm   : ProductFamily.removeVersion collects the tags of the version from self.versions
            (pinned: none is ever found, the tags stay) or from self.tags (repaired);
   v_init : Eups.__init__ computes the needed flavors before the fall-back flavor list is
            installed (pinned: the first Eups of a process loads the invoking flavor only) or
            after (repaired: the invoking flavor and its fall-backs).

   Executable definitions only. *)
From Eupsv Require Import Base.Base Model.Db.

(* ---------------------------------------------------------------- ProductFamily *)

Record family := mkFam {
  f_versions : amap vrec;     (* version -> (directory, table file) *)
  f_tags : amap str           (* tag -> version *)
}.

Definition fam_empty : family := mkFam [] [].

Definition fam_has_version (v : str) (fm : family) : bool := amem v (f_versions fm).

Definition fam_add_version (v : str) (r : vrec) (fm : family) : family :=
  mkFam (aset v r (f_versions fm)) (f_tags fm).

(* assignTag raises ProductNotFound when the version is not registered *)
Definition fam_assign_tag (t v : str) (fm : family) : res family :=
  if fam_has_version v fm then Ok (mkFam (f_versions fm) (aset t v (f_tags fm))) else Err NotFound.

Definition fam_unassign_tag (t : str) (fm : family) : family * bool :=
  if amem t (f_tags fm) then (mkFam (f_versions fm) (aremove t (f_tags fm)), true) else (fm, false).

Definition remove_keys {V} (ks : list str) (m : amap V) : amap V := fold_left (fun m k => aremove k m) ks m.

(* the tags of a version: the keys of self.tags whose value is the version *)
Definition tags_of_version (v : str) (tags : amap str) : list str :=
  filter (fun t => opt_str_eqb (alookup t tags) v) (akeys tags).

(* removeVersion: itsTags = ...; for tag in itsTags: self.unassignTag(tag); del self.versions[version].
   Pinned: the comprehension runs over self.versions.items(), compares the (directory, table,
   Table) tuples with the version name, finds nothing, and the tags stay *)
Definition fam_remove_version (pin_rm : bool) (v : str) (fm : family) : family * bool :=
  if fam_has_version v fm then
    (mkFam (aremove v (f_versions fm))
           (if pin_rm then f_tags fm else remove_keys (tags_of_version v (f_tags fm)) (f_tags fm)), true)
  else (fm, false).

(* one flavor's data: product name -> family (the content of one cache file) *)
Definition fdata := amap family.

Definition fd_decl (fd : fdata) (n v : str) : option vrec :=
  match alookup n fd with Some fm => alookup v (f_versions fm) | None => None end.

Definition fd_tag (fd : fdata) (n t : str) : option str :=
  match alookup n fd with Some fm => alookup t (f_tags fm) | None => None end.

(* ---------------------------------------------------------------- the world *)

Record pickle := mkPk { pk_stamp : nat; pk_data : fdata }.

(* (cache directory, stack, flavor) *)
Definition pkey := (str * str * str)%type.
Definition pkey_eqb (a b : pkey) : bool :=
  let '(l, s, f) := a in let '(l', s', f') := b in str_eqb l l' && str_eqb s s' && str_eqb f f'.

Definition upsdb : str := lit "db".

Inductive rkey :=
| RDir (s n : str)             (* ups_db/n *)
| RVer (s : str) (k : key)     (* ups_db/n/v.version *)
| RChain (s : str) (k : key).  (* ups_db/n/t.chain *)

Definition rkey_eqb (a b : rkey) : bool :=
  match a, b with
  | RDir s n, RDir s' n' => str_eqb s s' && str_eqb n n'
  | RVer s k, RVer s' k' => str_eqb s s' && key_eqb k k'
  | RChain s k, RChain s' k' => str_eqb s s' && key_eqb k k'
  | _, _ => false
  end.

Record world := mkW {
  w_db : db;
  w_clock : nat;
  w_stamps : list (rkey * nat);
  w_pickles : list (pkey * pickle)
}.

Definition init_world (path : list str) : world := mkW (empty_db path) 0 [] [].

Definition stamp_of (st : list (rkey * nat)) (k : rkey) : nat :=
  match glookup rkey_eqb k st with Some t => t | None => 0 end.

Definition pk_get (w : world) (loc s fl : str) : option pickle := glookup pkey_eqb (loc, s, fl) (w_pickles w).

Definition stack_of (d : db) (s : str) : stack :=
  match alookup s d with Some st => st | None => empty_stack end.

Definition vname (kv : key * vcontent) : str := fst (fst kv).
Definition cname (kv : key * ccontent) : str := fst (fst kv).

(* Database.findProductNames: the product directories that hold a version file *)
Definition db_names (d : db) (s : str) : list str := uniq (map vname (vfiles (stack_of d s))).

(* flavors with a declaration in the stack *)
Definition db_flavors (d : db) (s : str) : list str :=
  uniq (flat_map (fun kv : key * vcontent => akeys (snd kv)) (vfiles (stack_of d s))).

(* is some record of product n in stack s newer than tau *)
Definition newer_n (d : db) (st : list (rkey * nat)) (s n : str) (tau : nat) : bool :=
  (tau <? stamp_of st (RDir s n))
  || existsb (fun kv => str_eqb (vname kv) n && (tau <? stamp_of st (RVer s (fst kv)))) (vfiles (stack_of d s))
  || existsb (fun kv => str_eqb (cname kv) n && (tau <? stamp_of st (RChain s (fst kv)))) (cfiles (stack_of d s)).

(* Database.isNewerThan(tau): strict comparison, only products that have a version file *)
Definition newer_than (w : world) (s : str) (tau : nat) : bool :=
  existsb (fun n => newer_n (w_db w) (w_stamps w) s n tau) (db_names (w_db w) s).

(* ---------------------------------------------------------------- effects with stamps *)

Definition eff_name (e : fseffect) : str :=
  match e with
  | Mkdir _ n | Rmdir _ n => n
  | WriteV _ k _ | RemoveV _ k | WriteC _ k _ | RemoveC _ k => fst k
  end.

Definition sset (k : rkey) (t : nat) (st : list (rkey * nat)) : list (rkey * nat) := gset rkey_eqb k t st.

(* d is the database before the effect *)
Definition stamp_effect (e : fseffect) (d : db) (t : nat) (st : list (rkey * nat)) : list (rkey * nat) :=
  match e with
  | Mkdir s n => if db_has_dir d s n then st else sset (RDir s n) t st
  | Rmdir _ _ => st
  | WriteV s k _ => sset (RVer s k) t (sset (RDir s (fst k)) t st)
  | RemoveV s k => sset (RDir s (fst k)) t st
  | WriteC s k _ => sset (RChain s k) t (sset (RDir s (fst k)) t st)
  | RemoveC s k => sset (RDir s (fst k)) t st
  end.

Section Clock.
Variable tick : nat -> nat.

Definition do_effect (w : world) (e : fseffect) : world :=
  let t := tick (w_clock w) in
  mkW (apply1 e (w_db w)) t (stamp_effect e (w_db w) t (w_stamps w)) (w_pickles w).

Definition do_effects (w : world) (es : list fseffect) : world := fold_left do_effect es w.

(* one record-level action: the effects Database.* performs for it on the files as they are *)
Definition do_act (w : world) (x : aact) : world := do_effects w (compile (w_db w) x).

Definition do_acts (w : world) (xs : list aact) : world := fold_left do_act xs w.

(* ---------------------------------------------------------------- ProductStack in memory *)

Record pstack := mkPS {
  ps_lookup : amap fdata;             (* flavor -> product name -> family *)
  ps_modtimes : list (key * nat)      (* (cache directory, flavor) -> stamp of the file when loaded / written *)
}.

Definition ps_empty : pstack := mkPS [] [].

Definition ps_names (ps : pstack) : list str :=
  flat_map (fun e : str * fdata => akeys (snd e)) (ps_lookup ps).

Definition same_names (a b : list str) : bool :=
  forallb (fun x => mem_str x b) a && forallb (fun x => mem_str x a) b.

(* cacheIsUpToDate *)
Definition up_to_date (w : world) (loc s fl : str) : bool :=
  match pk_get w loc s fl with
  | None => false
  | Some p => negb (newer_than w s (pk_stamp p))
  end.

(* reload(flavors, dir): a missing file is skipped *)
Fixpoint reload (w : world) (loc s : str) (fls : list str) (ps : pstack) : pstack :=
  match fls with
  | [] => ps
  | fl :: r =>
      reload w loc s r
        (match pk_get w loc s fl with
         | Some p => mkPS (aset fl (pk_data p) (ps_lookup ps)) (gset key_eqb (loc, fl) (pk_stamp p) (ps_modtimes ps))
         | None => ps
         end)
  end.

(* _tryCache: every needed flavor up to date, then load them and compare the product names *)
Definition try_cache (w : world) (loc s : str) (fls : list str) (ps : pstack) : pstack * bool :=
  if forallb (up_to_date w loc s) fls then
    let ps1 := reload w loc s fls ps in
    if same_names (db_names (w_db w) s) (ps_names ps1) then (ps1, true)
    else (mkPS [] (ps_modtimes ps1), false)
  else (ps, false).

(* _cacheFileIsInSync: the file was not rewritten since this instance loaded or wrote it *)
Definition in_sync (w : world) (s : str) (ps : pstack) (loc fl : str) : bool :=
  match glookup key_eqb (loc, fl) (ps_modtimes ps), pk_get w loc s fl with
  | Some m, Some p => pk_stamp p <=? m
  | _, _ => true
  end.

(* persist(flavor) *)
Definition persist (w : world) (s loc fl : str) (ps : pstack) : world * pstack :=
  let t := tick (w_clock w) in
  let data := match alookup fl (ps_lookup ps) with Some fd => fd | None => [] end in
  let lk := match alookup fl (ps_lookup ps) with Some _ => ps_lookup ps | None => aset fl [] (ps_lookup ps) end in
  (mkW (w_db w) t (w_stamps w) (gset pkey_eqb (loc, s, fl) (mkPk t data) (w_pickles w)),
   mkPS lk (gset key_eqb (loc, fl) t (ps_modtimes ps))).

(* save(flavors): a flavor whose file is out of sync is skipped and reported *)
Fixpoint save (w : world) (s loc : str) (fls : list str) (ps : pstack) : world * pstack * bool :=
  match fls with
  | [] => (w, ps, true)
  | fl :: r =>
      if in_sync w s ps loc fl then
        let '(w1, ps1) := persist w s loc fl ps in save w1 s loc r ps1
      else
        let '(w1, ps1, _) := save w s loc r ps in (w1, ps1, false)
  end.

(* refreshFromDatabase: what the version and chain files of the stack say, for every flavor.
   Candidates come from the file names, values from the record lookups. *)
Definition rebuild_family (d : db) (s f n : str) : family :=
  mkFam
    (flat_map (fun kv : key * vcontent =>
       if str_eqb (vname kv) n then
         match db_decl d s n (snd (fst kv)) f with Some r => [(snd (fst kv), r)] | None => [] end
       else []) (vfiles (stack_of d s)))
    (flat_map (fun kv : key * ccontent =>
       if str_eqb (cname kv) n then
         match db_tag d s n (snd (fst kv)) f with
         | Some v => if is_some (db_decl d s n v f) then [(snd (fst kv), v)] else []
         | None => []
         end
       else []) (cfiles (stack_of d s))).

Definition rebuild_fdata (d : db) (s f : str) : fdata :=
  flat_map (fun n => let fm := rebuild_family d s f n in
                     if is_nil (f_versions fm) then [] else [(n, fm)]) (db_names d s).

Definition rebuild_lookup (d : db) (s : str) : amap fdata :=
  map (fun f => (f, rebuild_fdata d s f)) (db_flavors d s).

(* fromCache(dbpath, flavors, persistDir = loc) *)
Definition from_cache (w : world) (s loc : str) (needed : list str) : world * pstack :=
  let '(ps1, ok1) := try_cache w loc s needed ps_empty in
  if ok1 then (w, ps1) else
  let '(ps2, ok2) := try_cache w upsdb s needed ps1 in
  if ok2 then (w, ps2) else
  let lk := rebuild_lookup (w_db w) s in
  let '(w', ps3, _) := save w s loc (uniq (akeys lk ++ needed)) (mkPS lk (ps_modtimes ps2)) in
  (w', ps3).

(* findCachedFlavors(dir): the flavors that have a cache file in the directory, for this stack *)
Definition cached_flavors (w : world) (loc s : str) : list str :=
  flat_map (fun e : pkey * pickle =>
    let '(l, s', f) := fst e in if str_eqb l loc && str_eqb s' s then [f] else []) (w_pickles w).

(* ensureInSync: reload everything in the cache directory when a loaded file moved *)
Definition ensure_in_sync (w : world) (s loc : str) (ps : pstack) : pstack :=
  if forallb (in_sync w s ps loc) (akeys (ps_lookup ps)) then ps
  else reload w loc s (cached_flavors w loc s) ps.

(* ---------------------------------------------------------------- in-memory write-through *)

Definition ps_family (ps : pstack) (f n : str) : option family :=
  match alookup f (ps_lookup ps) with Some fd => alookup n fd | None => None end.

Definition ps_set_family (ps : pstack) (f n : str) (fm : family) : pstack :=
  let fd := match alookup f (ps_lookup ps) with Some fd => fd | None => [] end in
  mkPS (aset f (aset n fm fd) (ps_lookup ps)) (ps_modtimes ps).

Definition ps_del_family (ps : pstack) (f n : str) : pstack :=
  match alookup f (ps_lookup ps) with
  | Some fd => mkPS (aset f (aremove n fd) (ps_lookup ps)) (ps_modtimes ps)
  | None => ps
  end.

(* the update of one ProductStack for one record-level action; the boolean says whether the
   stack reports a change; Err = the call raises (ProductNotFound) *)
Definition wt_act (pin_rm : bool) (x : aact) (ps : pstack) : res (pstack * bool) :=
  match x with
  | ASetDecl _ n v f r =>
      (* addProduct: addVersion on the (possibly new) family *)
      let fm := match ps_family ps f n with Some fm => fm | None => fam_empty end in
      Ok (ps_set_family ps f n (fam_add_version v r fm), true)
  | ASetTag _ n t f v =>
      (* lookup[flavor][product].assignTag(tag, version); KeyError and ProductNotFound both end in a raise *)
      match ps_family ps f n with
      | None => Err NotFound
      | Some fm => match fam_assign_tag t v fm with
                   | Ok fm' => Ok (ps_set_family ps f n fm', true)
                   | Err e => Err e
                   end
      end
  | ADelTag _ n t f =>
      match ps_family ps f n with
      | None => Ok (ps, false)
      | Some fm => let '(fm', ch) := fam_unassign_tag t fm in
                   if ch then Ok (ps_set_family ps f n fm', true) else Ok (ps, false)
      end
  | ADelDecl _ n v f =>
      (* removeProduct: removeVersion, and the family goes with its last version *)
      match ps_family ps f n with
      | None => Ok (ps, false)
      | Some fm => let '(fm', ch) := fam_remove_version pin_rm v fm in
                   if ch then
                     (if is_nil (f_versions fm') then Ok (ps_del_family ps f n, true)
                      else Ok (ps_set_family ps f n fm', true))
                   else Ok (ps, false)
      end
  end.

Fixpoint wt_acts (pin_rm : bool) (xs : list aact) (ps : pstack) : res (pstack * bool) :=
  match xs with
  | [] => Ok (ps, false)
  | x :: r =>
      match wt_act pin_rm x ps with
      | Err e => Err e
      | Ok (ps1, c1) => match wt_acts pin_rm r ps1 with
                        | Err e => Err e
                        | Ok (ps2, c2) => Ok (ps2, c1 || c2)
                        end
      end
  end.

(* ---------------------------------------------------------------- one process *)

Definition mem := amap pstack.     (* Eups.versions: stack -> ProductStack *)

Record variant := mkVar { v_rm : bool; v_init : bool }.
Definition repaired : variant := mkVar false false.

(* neededFlavors of Eups.__init__ *)
Definition needed (pin_init : bool) (fl : str) : list str := if pin_init then [fl] else fallbacks fl.

Definition act_root (x : aact) : str :=
  match x with ASetDecl s _ _ _ _ | ADelDecl s _ _ _ | ASetTag s _ _ _ _ | ADelTag s _ _ _ => s end.

(* one group per call of Database.declare (with the tag it carries) / undeclare / assignTag / unassignTag *)
Fixpoint groups (xs : list aact) : list (list aact) :=
  match xs with
  | [] => []
  | ASetDecl s n v f r :: rest =>
      match rest with
      | ASetTag s' n' t' f' v' :: rest' =>
          (* Database.declare(product) with the tag the product carries: same stack, product, flavor, version *)
          if str_eqb s s' && str_eqb n n' && str_eqb f f' && str_eqb v v'
          then [ASetDecl s n v f r; ASetTag s' n' t' f' v'] :: groups rest'
          else [ASetDecl s n v f r] :: groups rest
      | _ => [ASetDecl s n v f r] :: groups rest
      end
  | x :: rest => [x] :: groups rest
  end.

(* Eups.unassignTag saves only when the stack reported a change; the others always *)
Definition save_always (g : list aact) : bool :=
  match g with ADelTag _ _ _ _ :: _ => false | _ => true end.

Definition group_stack (g : list aact) : str :=
  match g with x :: _ => act_root x | [] => [] end.

Inductive gres := GOk | GCrashed | GRaised.

(* save(self.flavor) of the write-through blocks: CacheOutOfSync is answered by refreshFromDatabase *)
Definition save_flavor (w : world) (s loc fl : str) (ps : pstack) : world * pstack :=
  if in_sync w s ps loc fl then persist w s loc fl ps
  else (w, mkPS (rebuild_lookup (w_db w) s) (ps_modtimes ps)).

(* database update ; [death] ; ensureInSync ; in-memory update ; save *)
Definition run_group (vr : variant) (loc fl : str) (w : world) (m : mem) (g : list aact) (die_after_db : bool)
  : world * mem * gres :=
  let w1 := do_acts w g in
  if die_after_db then (w1, m, GCrashed) else
  let s := group_stack g in
  match alookup s m with
  | None => (w1, m, GOk)
  | Some ps =>
      let ps1 := ensure_in_sync w1 s loc ps in
      match wt_acts (v_rm vr) g ps1 with
      | Err _ => (w1, aset s ps1 m, GRaised)
      | Ok (ps2, changed) =>
          if save_always g || changed then
            let '(w2, ps3) := save_flavor w1 s loc fl ps2 in (w2, aset s ps3 m, GOk)
          else (w1, aset s ps2 m, GOk)
      end
  end.

(* crash = (index of the group, false: die before its database call / true: right after it) *)
Fixpoint run_groups (vr : variant) (loc fl : str) (w : world) (m : mem) (gs : list (list aact))
  (crash : option (nat * bool)) : world * mem * gres :=
  match gs with
  | [] => (w, m, GOk)
  | g :: rest =>
      match crash with
      | Some (0, false) => (w, m, GCrashed)
      | _ =>
        let die := match crash with Some (0, true) => true | _ => false end in
        let '(w1, m1, r) := run_group vr loc fl w m g die in
        match r with
        | GOk => run_groups vr loc fl w1 m1 rest
                   (match crash with Some (S k, b) => Some (k, b) | _ => None end)
        | _ => (w1, m1, r)
        end
      end
  end.

Inductive pop :=
| POp (x : op)                 (* a command of Model/Db.v, issued by this process's Eups *)
| PDel (loc s fl : str).       (* somebody removes a cache file while the process lives *)

Definition delete_cache (w : world) (loc s fl : str) : world :=
  mkW (w_db w) (w_clock w) (w_stamps w) (gremove pkey_eqb (loc, s, fl) (w_pickles w)).

Inductive outcome := OOk | OErr (e : errkind) | ORaised | OCrashed.

(* the decisions are those of Model/Db.v on the files; the op must be issued under the
   process's own flavor (an Eups has one) *)
Definition run_op (vr : variant) (loc fl : str) (w : world) (m : mem) (x : op) (crash : option (nat * bool))
  : world * mem * outcome :=
  if negb (str_eqb (o_flavor (op_opts x)) fl) then (w, m, OErr Undefined) else
  match decide false (view (w_db w)) x with
  | Err e => (w, m, OErr e)
  | Ok acts =>
      let '(w1, m1, r) := run_groups vr loc fl w m (groups acts) crash in
      (w1, m1, match r with GOk => OOk | GCrashed => OCrashed | GRaised => ORaised end)
  end.

Definition run_pop (vr : variant) (loc fl : str) (w : world) (m : mem) (x : pop) (crash : option (nat * bool))
  : world * mem * outcome :=
  match x with
  | POp o => run_op vr loc fl w m o crash
  | PDel l s f => (delete_cache w l s f, m, OOk)
  end.

(* crash = (index of the operation, index of the group, before / after its database call) *)
Fixpoint run_pops (vr : variant) (loc fl : str) (w : world) (m : mem) (xs : list pop)
  (crash : option (nat * nat * bool)) : world * mem * list outcome :=
  match xs with
  | [] => (w, m, [])
  | x :: rest =>
      let c := match crash with Some (0, g, b) => Some (g, b) | _ => None end in
      let '(w1, m1, oc) := run_pop vr loc fl w m x c in
      match oc with
      | OCrashed => (w1, m1, [oc])
      | _ =>
        let '(w2, m2, ocs) := run_pops vr loc fl w1 m1 rest
                                (match crash with Some (S i, g, b) => Some (i, g, b) | _ => None end) in
        (w2, m2, oc :: ocs)
      end
  end.

(* Eups.__init__: fromCache for every stack of the path, in order *)
Fixpoint load_stacks (w : world) (loc : str) (nf : list str) (path : list str) : world * mem :=
  match path with
  | [] => (w, [])
  | s :: r =>
      let '(w1, ps) := from_cache w s loc nf in
      let '(w2, m) := load_stacks w1 loc nf r in
      (w2, (s, ps) :: m)
  end.

Definition load (vr : variant) (w : world) (loc fl : str) : world * mem :=
  load_stacks w loc (needed (v_init vr) fl) (map fst (w_db w)).

Record proc := mkProc {
  p_loc : str;        (* the cache directory the process persists to: its user's name, or [upsdb] for an administrator *)
  p_flavor : str;
  p_ops : list pop;
  p_crash : option (nat * nat * bool)
}.

Definition run_proc_full (vr : variant) (w : world) (p : proc) : world * mem * list outcome :=
  let '(w1, m) := load vr w (p_loc p) (p_flavor p) in
  run_pops vr (p_loc p) (p_flavor p) w1 m (p_ops p) (p_crash p).

Definition run_proc (vr : variant) (w : world) (p : proc) : world := fst (fst (run_proc_full vr w p)).

End Clock.

(* ---------------------------------------------------------------- queries *)

Inductive query :=
| QDeclared (s n v f : str)        (* is version v of n declared for f in stack s *)
| QDir (s n v f : str)             (* its directory and table file *)
| QHasTag (s n v t f : str)        (* does that version carry tag t *)
| QTagged (s n t f : str)          (* the version tag t designates *)
| QFind (n v f : str)              (* Eups.findProduct(n, v, flavor=f): the first stack of the path that has it *)
| QFindTagged (n t f : str).       (* Eups.findTaggedProduct(n, t, flavor=f) *)

Inductive answer :=
| ABool (b : bool)
| ARec (r : option vrec)
| AVer (v : option str)
| AStackRec (x : option (str * vrec))
| AStackVer (x : option (str * str)).

Definition q_flavor (q : query) : str :=
  match q with
  | QDeclared _ _ _ f | QDir _ _ _ f | QHasTag _ _ _ _ f | QTagged _ _ _ f | QFind _ _ f | QFindTagged _ _ f => f
  end.

Section Eval.
Variable dl : str -> str -> str -> str -> option vrec.   (* stack, product, version, flavor *)
Variable tl : str -> str -> str -> str -> option str.    (* stack, product, tag, flavor *)

(* a tag whose version is not there is not found (getTaggedProduct raises, the caller goes on) *)
Definition vis_tag (s n t f : str) : option str :=
  match tl s n t f with
  | Some v => if is_some (dl s n v f) then Some v else None
  | None => None
  end.

Fixpoint first_decl (roots : list str) (n v f : str) : option (str * vrec) :=
  match roots with
  | [] => None
  | s :: r => match dl s n v f with Some x => Some (s, x) | None => first_decl r n v f end
  end.

Fixpoint first_tagged (roots : list str) (n t f : str) : option (str * str) :=
  match roots with
  | [] => None
  | s :: r => match vis_tag s n t f with Some v => Some (s, v) | None => first_tagged r n t f end
  end.

Definition q_eval (path : list str) (q : query) : answer :=
  match q with
  | QDeclared s n v f => ABool (is_some (dl s n v f))
  | QDir s n v f => ARec (dl s n v f)
  | QHasTag s n v t f => ABool (is_some (dl s n v f) && opt_str_eqb (tl s n t f) v)
  | QTagged s n t f => AVer (vis_tag s n t f)
  | QFind n v f => AStackRec (first_decl path n v f)
  | QFindTagged n t f => AStackVer (first_tagged path n t f)
  end.
End Eval.

Definition mem_decl (m : mem) (s n v f : str) : option vrec :=
  match alookup s m with
  | Some ps => match alookup f (ps_lookup ps) with Some fd => fd_decl fd n v | None => None end
  | None => None
  end.

Definition mem_tag (m : mem) (s n t f : str) : option str :=
  match alookup s m with
  | Some ps => match alookup f (ps_lookup ps) with Some fd => fd_tag fd n t | None => None end
  | None => None
  end.

(* the answer of an Eups whose product stacks are m (noCache=False) *)
Definition q_cache (m : mem) (q : query) : answer := q_eval (mem_decl m) (mem_tag m) (map fst m) q.

(* the answer read from the version and chain files (noCache=True) *)
Definition q_db (w : world) (q : query) : answer :=
  q_eval (db_decl (w_db w)) (db_tag (w_db w)) (map fst (w_db w)) q.

(* ---------------------------------------------------------------- the vocabulary of the theorems *)

(* distinct effects get distinct, increasing stamps *)
Definition clock_strict (tick : nat -> nat) : Prop := forall c, c < tick c.

(* the worlds that histories produce: any number of processes of any users and flavors, one after
   the other, each with any operations, dying or not at any of the modelled points, and cache
   files deleted at any moment; EUPS_PATH names each stack once *)
Inductive reachable (tick : nat -> nat) (vr : variant) : world -> Prop :=
| R_init path : NoDup path -> reachable tick vr (init_world path)
| R_proc w p : reachable tick vr w -> reachable tick vr (run_proc tick vr w p)
| R_del w loc s fl : reachable tick vr w -> reachable tick vr (delete_cache w loc s fl).

(* does fromCache believe the cache files of directory loc for stack s (the outcome of _tryCache) *)
Definition believed (w : world) (loc s : str) (nf : list str) : bool := snd (try_cache w loc s nf ps_empty).

(* ---------------------------------------------------------------- for the driver *)

Definition tickS : nat -> nat := S.

Definition run_proc_S := run_proc_full tickS.
