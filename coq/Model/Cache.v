(* Model of the persisted product cache (C07), on top of the database model Model/Db.v.

   Code followed: stack/ProductFamily.py (addVersion, removeVersion, assignTag, unassignTag),
   stack/ProductStack.py (fromCache, _tryCache, cacheIsUpToDate, reload, persist, save,
   ensureInSync, _cacheFileIsInSync, refreshFromDatabase, addProduct, removeProduct, assignTag,
   unassignTag), db/Database.py (isNewerThan, findProductNames), and the write-through blocks
   of Eups.declare / undeclare / assignTag / unassignTag.

   The world: the database files of Model/Db.v, a logical clock, a modification time for every
   product directory, version file and chain file, and the cache files (pickles), one per
   (cache directory, stack, flavor), each with its modification time and its content (product
   name -> ProductFamily, i.e. versions and tags).  A cache directory is named by a string: a
   user's name (the _caches_ directory under his EUPS_USERDATA) or [upsdb] (the ups_db
   directory of the stack itself).

   Every primitive file effect of the database model advances the clock ([tick]) and stamps
   the record and its product directory; every write of a cache file advances the clock and
   stamps the file.  [tick] is a parameter: the theorems assume it strictly increasing
   (clock_strict); with a clock that can stand still the property is false (Props/C07.v).

   A process is: build one Eups (ProductStack.fromCache for every stack on the path: the
   user's cache directory, else ups_db, else rebuild from the files and save), then a list of
   operations.  One operation = the decisions of Model/Db.v ([decide], taken on what the files
   say -- under the coherence theorem that is what the in-memory cache says), whose
   record-level actions are grouped as the code groups them: one group per call of
   Database.declare / undeclare / assignTag / unassignTag, each followed by ensureInSync, the
   in-memory update of the ProductStack and save(invoking flavor).  A process may die before a
   group or between the database update of a group and its cache update.

   The record [variant] selects the pinned tree or the repaired code for the two defects found:
   v_rm   : ProductFamily.removeVersion collects the tags of the version from self.versions
            (pinned: none is ever found, the tags stay) or from self.tags (repaired);
   v_init : Eups.__init__ computes the needed flavors before the fall-back flavor list is
            installed (pinned: the first Eups of a process loads the invoking flavor only) or
            after (repaired: the invoking flavor and its fall-backs).

   User tags.  A user tag of user u is a chain file in the tag directory of u for the stack (the
   directory that also holds the cache files of u for that stack), one subdirectory per product;
   only u reads and writes it.  In a ProductFamily it is an entry of the same tags dictionary under
   the name user:t; here the user tags of a family are kept apart in [f_utags] (tag names that start
   with user: are not global tag names).  Operations: Eups.assignTag / unassignTag with a user tag
   ([PUAssign], [PUUnassign]); Database.undeclare removes the user tags of the undeclaring user from
   the undeclared version; ProductFamily.removeVersion drops every tag of the version; a rebuild
   (refreshFromDatabase(userTagDir)) reads the user tags of the loading user; a load from the cache
   files of ups_db is followed by ProductStack._loadUserTags; cacheIsUpToDate compares a cache file in
   a user's directory with that user's tag directory as well as with the stack's records.

   The model follows the code with the six repairs proposed for this property; the variant record
   keeps the pinned behaviour of five of them:
   v_uloc     : Eups.assignTag writes the chain file of a user tag among the stack's own chain files
                (pinned) or into the user's tag directory (repaired);
   v_ustale   : cacheIsUpToDate looks for newer files in Database(cacheDir), which lists no product
                because a tag directory has no version files (pinned), or in the user's tag
                directory for the products of the stack (repaired);
   v_noread   : Eups.declare registers the new version in the cache with the tag given on the
                command line only (pinned), or with the tags the database now gives it, among them
                the user's chain files that already name it (repaired);
   v_shared   : an administrator's rebuild writes his user tags into the cache files of ups_db
                (pinned), or no user tag at all (repaired);
   (ProductStack._loadUserTags raising ProductNotFound on a chain file whose version is gone, and
   Tags.saveGroup raising for the global group, have no pinned variant: a raise is not a state.)

   Executable definitions only. *)
From Eupsv Require Import Base.Base Model.Db.

(* ---------------------------------------------------------------- ProductFamily *)

Record family := mkFam {
  f_versions : amap vrec;     (* version -> (directory, table file) *)
  f_tags : amap str;          (* tag -> version *)
  f_utags : amap str          (* user tag -> version: the entries user:t of the same dictionary *)
}.

Definition fam_empty : family := mkFam [] [] [].

Definition fam_has_version (v : str) (fm : family) : bool := amem v (f_versions fm).

Definition fam_add_version (v : str) (r : vrec) (fm : family) : family :=
  mkFam (aset v r (f_versions fm)) (f_tags fm) (f_utags fm).

(* assignTag raises ProductNotFound when the version is not registered *)
Definition fam_assign_tag (t v : str) (fm : family) : res family :=
  if fam_has_version v fm then Ok (mkFam (f_versions fm) (aset t v (f_tags fm)) (f_utags fm)) else Err NotFound.

Definition fam_unassign_tag (t : str) (fm : family) : family * bool :=
  if amem t (f_tags fm) then (mkFam (f_versions fm) (aremove t (f_tags fm)) (f_utags fm), true) else (fm, false).

(* the same two for a user tag *)
Definition fam_assign_utag (t v : str) (fm : family) : res family :=
  if fam_has_version v fm then Ok (mkFam (f_versions fm) (f_tags fm) (aset t v (f_utags fm))) else Err NotFound.

Definition fam_unassign_utag (t : str) (fm : family) : family * bool :=
  if amem t (f_utags fm) then (mkFam (f_versions fm) (f_tags fm) (aremove t (f_utags fm)), true) else (fm, false).

Definition remove_keys {V} (ks : list str) (m : amap V) : amap V := fold_left (fun m k => aremove k m) ks m.

(* the tags of a version: the keys of self.tags whose value is the version *)
Definition tags_of_version (v : str) (tags : amap str) : list str :=
  filter (fun t => opt_str_eqb (alookup t tags) v) (akeys tags).

(* removeVersion: itsTags = ...; for tag in itsTags: self.unassignTag(tag); del self.versions[version].
   Pinned: the comprehension runs over self.versions.items(), compares the (directory, table,
   Table) tuples with the version name, finds nothing, and the tags stay *)
Definition fam_remove_version (pin_rm : bool) (v : str) (fm : family) : family * bool :=
  if fam_has_version v fm then
    (mkFam (aremove v (f_versions fm))
           (if pin_rm then f_tags fm else remove_keys (tags_of_version v (f_tags fm)) (f_tags fm))
           (if pin_rm then f_utags fm else remove_keys (tags_of_version v (f_utags fm)) (f_utags fm)), true)
  else (fm, false).

(* one flavor's data: product name -> family (the content of one cache file) *)
Definition fdata := amap family.

Definition fd_decl (fd : fdata) (n v : str) : option vrec :=
  match alookup n fd with Some fm => alookup v (f_versions fm) | None => None end.

Definition fd_tag (fd : fdata) (n t : str) : option str :=
  match alookup n fd with Some fm => alookup t (f_tags fm) | None => None end.

Definition fd_utag (fd : fdata) (n t : str) : option str :=
  match alookup n fd with Some fm => alookup t (f_utags fm) | None => None end.

(* ---------------------------------------------------------------- the world *)

Record pickle := mkPk { pk_stamp : nat; pk_data : fdata }.

(* (cache directory, stack, flavor) *)
Definition pkey := (str * str * str)%type.
Definition pkey_eqb (a b : pkey) : bool :=
  let '(l, s, f) := a in let '(l', s', f') := b in str_eqb l l' && str_eqb s s' && str_eqb f f'.

Definition upsdb : str := lit "db".

Inductive rkey :=
| RDir (s n : str)             (* ups_db/n *)
| RVer (s : str) (k : key)     (* ups_db/n/v.version *)
| RChain (s : str) (k : key)   (* ups_db/n/t.chain *)
| RUDir (u s n : str)          (* tag directory of user u for stack s: n/ *)
| RUChain (u s : str) (k : key). (* there: n/t.chain *)

(* (user, stack, product, tag): one chain file of a user's tag directory *)
Definition ukey := (str * str * str * str)%type.
Definition ukey_eqb (a b : ukey) : bool :=
  let '(u, s, n, t) := a in let '(u', s', n', t') := b in
  str_eqb u u' && str_eqb s s' && str_eqb n n' && str_eqb t t'.

Definition rkey_eqb (a b : rkey) : bool :=
  match a, b with
  | RDir s n, RDir s' n' => str_eqb s s' && str_eqb n n'
  | RVer s k, RVer s' k' => str_eqb s s' && key_eqb k k'
  | RChain s k, RChain s' k' => str_eqb s s' && key_eqb k k'
  | RUDir u s n, RUDir u' s' n' => str_eqb u u' && str_eqb s s' && str_eqb n n'
  | RUChain u s k, RUChain u' s' k' => str_eqb u u' && str_eqb s s' && key_eqb k k'
  | _, _ => false
  end.

Record world := mkW {
  w_db : db;
  w_clock : nat;
  w_stamps : list (rkey * nat);
  w_pickles : list (pkey * pickle);
  w_uc : list (ukey * ccontent)      (* the chain files of the users' tag directories; none is empty *)
}.

Definition init_world (path : list str) : world := mkW (empty_db path) 0 [] [] [].

Definition stamp_of (st : list (rkey * nat)) (k : rkey) : nat :=
  match glookup rkey_eqb k st with Some t => t | None => 0 end.

Definition pk_get (w : world) (loc s fl : str) : option pickle := glookup pkey_eqb (loc, s, fl) (w_pickles w).

Definition stack_of (d : db) (s : str) : stack :=
  match alookup s d with Some st => st | None => empty_stack end.

Definition vname (kv : key * vcontent) : str := fst (fst kv).
Definition cname (kv : key * ccontent) : str := fst (fst kv).

(* Database.findProductNames: the product directories that hold a version file *)
Definition db_names (d : db) (s : str) : list str := uniq (map vname (vfiles (stack_of d s))).

(* flavors with a declaration in the stack *)
Definition db_flavors (d : db) (s : str) : list str :=
  uniq (flat_map (fun kv : key * vcontent => akeys (snd kv)) (vfiles (stack_of d s))).

(* is some record of product n in stack s newer than tau *)
Definition newer_n (d : db) (st : list (rkey * nat)) (s n : str) (tau : nat) : bool :=
  (tau <? stamp_of st (RDir s n))
  || existsb (fun kv => str_eqb (vname kv) n && (tau <? stamp_of st (RVer s (fst kv)))) (vfiles (stack_of d s))
  || existsb (fun kv => str_eqb (cname kv) n && (tau <? stamp_of st (RChain s (fst kv)))) (cfiles (stack_of d s)).

(* Database.isNewerThan(tau): strict comparison, only products that have a version file *)
Definition newer_than (w : world) (s : str) (tau : nat) : bool :=
  existsb (fun n => newer_n (w_db w) (w_stamps w) s n tau) (db_names (w_db w) s).

(* ---------------------------------------------------------------- the users' tag directories *)

Definition uc_file (uc : list (ukey * ccontent)) (u s n t : str) : ccontent :=
  match glookup ukey_eqb (u, s, n, t) uc with Some c => c | None => [] end.

(* the version that the chain file of user tag t gives for flavor f *)
Definition uc_tag (uc : list (ukey * ccontent)) (u s n t f : str) : option str := alookup f (uc_file uc u s n t).

(* the chain files of user u for product n of stack s: their tag names (candidates come from the file
   names, values from the lookups above) *)
Definition uc_tags (uc : list (ukey * ccontent)) (u s n : str) : list str :=
  flat_map (fun e : ukey * ccontent =>
    let '(u', s', n', t) := fst e in
    if str_eqb u' u && str_eqb s' s && str_eqb n' n then [t] else []) uc.

(* Database.findTags restricted to the tag directory: the user tags whose entry for f is v *)
Definition utags_on (uc : list (ukey * ccontent)) (u s n v f : str) : list str :=
  filter (fun t => opt_str_eqb (uc_tag uc u s n t f) v) (uc_tags uc u s n).

(* is some file of the tag directory of user u for product n of stack s newer than tau *)
Definition unewer_n (uc : list (ukey * ccontent)) (st : list (rkey * nat)) (u s n : str) (tau : nat) : bool :=
  (tau <? stamp_of st (RUDir u s n))
  || existsb (fun t => tau <? stamp_of st (RUChain u s (n, t))) (uc_tags uc u s n).

(* Database(ups_db).isNewerThan(tau, tag directory): the products of the stack, looked up there *)
Definition unewer_than (w : world) (u s : str) (tau : nat) : bool :=
  existsb (fun n => unewer_n (w_uc w) (w_stamps w) u s n tau) (db_names (w_db w) s).

(* ---------------------------------------------------------------- effects with stamps *)

Definition eff_name (e : fseffect) : str :=
  match e with
  | Mkdir _ n | Rmdir _ n => n
  | WriteV _ k _ | RemoveV _ k | WriteC _ k _ | RemoveC _ k => fst k
  end.

Definition sset (k : rkey) (t : nat) (st : list (rkey * nat)) : list (rkey * nat) := gset rkey_eqb k t st.

(* d is the database before the effect *)
Definition stamp_effect (e : fseffect) (d : db) (t : nat) (st : list (rkey * nat)) : list (rkey * nat) :=
  match e with
  | Mkdir s n => if db_has_dir d s n then st else sset (RDir s n) t st
  | Rmdir _ _ => st
  | WriteV s k _ => sset (RVer s k) t (sset (RDir s (fst k)) t st)
  | RemoveV s k => sset (RDir s (fst k)) t st
  | WriteC s k _ => sset (RChain s k) t (sset (RDir s (fst k)) t st)
  | RemoveC s k => sset (RDir s (fst k)) t st
  end.

Section Clock.
Variable tick : nat -> nat.

Definition do_effect (w : world) (e : fseffect) : world :=
  let t := tick (w_clock w) in
  mkW (apply1 e (w_db w)) t (stamp_effect e (w_db w) t (w_stamps w)) (w_pickles w) (w_uc w).

Definition do_effects (w : world) (es : list fseffect) : world := fold_left do_effect es w.

(* one record-level action: the effects Database.* performs for it on the files as they are *)
Definition do_act (w : world) (x : aact) : world := do_effects w (compile (w_db w) x).

Definition do_acts (w : world) (xs : list aact) : world := fold_left do_act xs w.

(* Database.assignTag(user:t, n, v, f) in the tag directory of u (the product directory is made when missing) *)
Definition do_uset (w : world) (u s n t f v : str) : world :=
  let c := tick (w_clock w) in
  mkW (w_db w) c (sset (RUChain u s (n, t)) c (sset (RUDir u s n) c (w_stamps w))) (w_pickles w)
      (gset ukey_eqb (u, s, n, t) (aset f v (uc_file (w_uc w) u s n t)) (w_uc w)).

(* Database.unassignTag(user:t, n, f) there: the file is rewritten without the flavor, or removed with its
   last flavor; nothing happens when the file does not name the flavor *)
Definition do_udel (w : world) (u s n t f : str) : world :=
  let old := uc_file (w_uc w) u s n t in
  if amem f old then
    let c := tick (w_clock w) in
    let new := aremove f old in
    if is_nil new
    then mkW (w_db w) c (sset (RUDir u s n) c (w_stamps w)) (w_pickles w) (gremove ukey_eqb (u, s, n, t) (w_uc w))
    else mkW (w_db w) c (sset (RUChain u s (n, t)) c (sset (RUDir u s n) c (w_stamps w))) (w_pickles w)
             (gset ukey_eqb (u, s, n, t) new (w_uc w))
  else w.

(* what Database.undeclare does in the tag directory of the undeclaring user: his tags leave the version *)
Definition do_uact (w : world) (u : str) (x : aact) : world :=
  match x with
  | ADelDecl s n v f =>
      if is_some (db_decl (w_db w) s n v f)
      then fold_left (fun w t => do_udel w u s n t f) (utags_on (w_uc w) u s n v f) w
      else w
  | _ => w
  end.

Definition do_uacts (w : world) (u : str) (xs : list aact) : world := fold_left (fun w x => do_uact w u x) xs w.

(* ---------------------------------------------------------------- ProductStack in memory *)

Record pstack := mkPS {
  ps_lookup : amap fdata;             (* flavor -> product name -> family *)
  ps_modtimes : list (key * nat)      (* (cache directory, flavor) -> stamp of the file when loaded / written *)
}.

Definition ps_empty : pstack := mkPS [] [].

Definition ps_names (ps : pstack) : list str :=
  flat_map (fun e : str * fdata => akeys (snd e)) (ps_lookup ps).

Definition same_names (a b : list str) : bool :=
  forallb (fun x => mem_str x b) a && forallb (fun x => mem_str x a) b.

(* cacheIsUpToDate; a cache directory other than ups_db is a user's tag directory as well *)
Definition up_to_date (pin_ustale : bool) (w : world) (loc s fl : str) : bool :=
  match pk_get w loc s fl with
  | None => false
  | Some p =>
      negb (negb pin_ustale && negb (str_eqb loc upsdb) && unewer_than w loc s (pk_stamp p))
      && negb (newer_than w s (pk_stamp p))
  end.

(* reload(flavors, dir): a missing file is skipped *)
Fixpoint reload (w : world) (loc s : str) (fls : list str) (ps : pstack) : pstack :=
  match fls with
  | [] => ps
  | fl :: r =>
      reload w loc s r
        (match pk_get w loc s fl with
         | Some p => mkPS (aset fl (pk_data p) (ps_lookup ps)) (gset key_eqb (loc, fl) (pk_stamp p) (ps_modtimes ps))
         | None => ps
         end)
  end.

(* _tryCache: every needed flavor up to date, then load them and compare the product names *)
Definition try_cache (pin_ustale : bool) (w : world) (loc s : str) (fls : list str) (ps : pstack) : pstack * bool :=
  if forallb (up_to_date pin_ustale w loc s) fls then
    let ps1 := reload w loc s fls ps in
    if same_names (db_names (w_db w) s) (ps_names ps1) then (ps1, true)
    else (mkPS [] (ps_modtimes ps1), false)
  else (ps, false).

(* _cacheFileIsInSync: the file was not rewritten since this instance loaded or wrote it *)
Definition in_sync (w : world) (s : str) (ps : pstack) (loc fl : str) : bool :=
  match glookup key_eqb (loc, fl) (ps_modtimes ps), pk_get w loc s fl with
  | Some m, Some p => pk_stamp p <=? m
  | _, _ => true
  end.

(* persist(flavor) *)
Definition persist (w : world) (s loc fl : str) (ps : pstack) : world * pstack :=
  let t := tick (w_clock w) in
  let data := match alookup fl (ps_lookup ps) with Some fd => fd | None => [] end in
  let lk := match alookup fl (ps_lookup ps) with Some _ => ps_lookup ps | None => aset fl [] (ps_lookup ps) end in
  (mkW (w_db w) t (w_stamps w) (gset pkey_eqb (loc, s, fl) (mkPk t data) (w_pickles w)) (w_uc w),
   mkPS lk (gset key_eqb (loc, fl) t (ps_modtimes ps))).

(* save(flavors): a flavor whose file is out of sync is skipped and reported *)
Fixpoint save (w : world) (s loc : str) (fls : list str) (ps : pstack) : world * pstack * bool :=
  match fls with
  | [] => (w, ps, true)
  | fl :: r =>
      if in_sync w s ps loc fl then
        let '(w1, ps1) := persist w s loc fl ps in save w1 s loc r ps1
      else
        let '(w1, ps1, _) := save w s loc r ps in (w1, ps1, false)
  end.

(* refreshFromDatabase: what the version and chain files of the stack say, for every flavor.
   Candidates come from the file names, values from the record lookups. *)
(* the user tags a rebuild gives product n: the chain files of the tag directory whose version is declared *)
Definition rebuild_utags (d : db) (uc : list (ukey * ccontent)) (utd : option str) (s f n : str) : amap str :=
  match utd with
  | None => []
  | Some u =>
      flat_map (fun t =>
        match uc_tag uc u s n t f with
        | Some v => if is_some (db_decl d s n v f) then [(t, v)] else []
        | None => []
        end) (uc_tags uc u s n)
  end.

Definition rebuild_family (d : db) (uc : list (ukey * ccontent)) (utd : option str) (s f n : str) : family :=
  mkFam
    (flat_map (fun kv : key * vcontent =>
       if str_eqb (vname kv) n then
         match db_decl d s n (snd (fst kv)) f with Some r => [(snd (fst kv), r)] | None => [] end
       else []) (vfiles (stack_of d s)))
    (flat_map (fun kv : key * ccontent =>
       if str_eqb (cname kv) n then
         match db_tag d s n (snd (fst kv)) f with
         | Some v => if is_some (db_decl d s n v f) then [(snd (fst kv), v)] else []
         | None => []
         end
       else []) (cfiles (stack_of d s)))
    (rebuild_utags d uc utd s f n).

Definition rebuild_fdata (d : db) (uc : list (ukey * ccontent)) (utd : option str) (s f : str) : fdata :=
  flat_map (fun n => let fm := rebuild_family d uc utd s f n in
                     if is_nil (f_versions fm) then [] else [(n, fm)]) (db_names d s).

Definition rebuild_lookup (d : db) (uc : list (ukey * ccontent)) (utd : option str) (s : str) : amap fdata :=
  map (fun f => (f, rebuild_fdata d uc utd s f)) (db_flavors d s).

(* ProductStack._loadUserTags(tag directory) after a load from the cache files of ups_db: every
   assignment of every chain file of the products of the stack goes into the loaded family that has
   the version (repaired: an assignment whose version or flavor is not loaded is passed over) *)
Definition set_utag (lk : amap fdata) (f n t v : str) : amap fdata :=
  match alookup f lk with
  | None => lk
  | Some fd =>
      match alookup n fd with
      | None => lk
      | Some fm => match fam_assign_utag t v fm with
                   | Ok fm' => aset f (aset n fm' fd) lk
                   | Err _ => lk
                   end
      end
  end.

(* the assignments of the chain files of product n: (tag, flavor) *)
Definition utag_entries (uc : list (ukey * ccontent)) (u s n : str) : list (str * str) :=
  flat_map (fun t => map (fun f => (t, f)) (akeys (uc_file uc u s n t))) (uc_tags uc u s n).

Definition load_utags_n (uc : list (ukey * ccontent)) (u s n : str) (lk : amap fdata) : amap fdata :=
  fold_left (fun lk (tf : str * str) =>
    match uc_tag uc u s n (fst tf) (snd tf) with
    | Some v => set_utag lk (snd tf) n (fst tf) v
    | None => lk
    end) (utag_entries uc u s n) lk.

Definition load_user_tags (d : db) (uc : list (ukey * ccontent)) (utd : option str) (s : str) (ps : pstack) : pstack :=
  match utd with
  | None => ps
  | Some u => mkPS (fold_left (fun lk n => load_utags_n uc u s n lk) (db_names d s) (ps_lookup ps)) (ps_modtimes ps)
  end.

(* fromCache(dbpath, flavors, persistDir = loc, userTagDir = utd) *)
Definition from_cache (pin_ustale : bool) (w : world) (s loc : str) (utd : option str) (needed : list str) : world * pstack :=
  let '(ps1, ok1) := try_cache pin_ustale w loc s needed ps_empty in
  if ok1 then (w, ps1) else
  let '(ps2, ok2) := try_cache pin_ustale w upsdb s needed ps1 in
  if ok2 then
    (* loaded from the shared files of ups_db: the stack is persisted into its own directory (repaired:
       proposed_fixes/C07-fromcache-persists-after-fallback; before the repair nothing was written, the
       instance had no file of its own whose time it knew, and neither ensureInSync nor save could tell
       that another instance had rewritten it) *)
    let ps2u := load_user_tags (w_db w) (w_uc w) utd s ps2 in
    if str_eqb loc upsdb then (w, ps2u) else
    let '(w', ps3, _) := save w s loc needed ps2u in (w', ps3)
  else
  let lk := rebuild_lookup (w_db w) (w_uc w) utd s in
  let '(w', ps3, _) := save w s loc (uniq (akeys lk ++ needed)) (mkPS lk (ps_modtimes ps2)) in
  (w', ps3).

(* findCachedFlavors(dir): the flavors that have a cache file in the directory, for this stack *)
Definition cached_flavors (w : world) (loc s : str) : list str :=
  flat_map (fun e : pkey * pickle =>
    let '(l, s', f) := fst e in if str_eqb l loc && str_eqb s' s then [f] else []) (w_pickles w).

(* ensureInSync: reload everything in the cache directory when a loaded file moved *)
Definition ensure_in_sync (w : world) (s loc : str) (ps : pstack) : pstack :=
  if forallb (in_sync w s ps loc) (akeys (ps_lookup ps)) then ps
  else reload w loc s (cached_flavors w loc s) ps.

(* ---------------------------------------------------------------- in-memory write-through *)

Definition ps_family (ps : pstack) (f n : str) : option family :=
  match alookup f (ps_lookup ps) with Some fd => alookup n fd | None => None end.

Definition ps_set_family (ps : pstack) (f n : str) (fm : family) : pstack :=
  let fd := match alookup f (ps_lookup ps) with Some fd => fd | None => [] end in
  mkPS (aset f (aset n fm fd) (ps_lookup ps)) (ps_modtimes ps).

Definition ps_del_family (ps : pstack) (f n : str) : pstack :=
  match alookup f (ps_lookup ps) with
  | Some fd => mkPS (aset f (aremove n fd) (ps_lookup ps)) (ps_modtimes ps)
  | None => ps
  end.

(* the update of one ProductStack for one record-level action; the boolean says whether the
   stack reports a change; Err = the call raises (ProductNotFound) *)
(* the chain files of the tag directory that name the version apply to it (again): findTags after the declaration *)
Definition fam_read_back (uts : list str) (v : str) (fm : family) : family :=
  mkFam (f_versions fm) (f_tags fm) (fold_left (fun m t => aset t v m) uts (f_utags fm)).

(* uts s n v f: the user tags that the tag directory of the acting user gives that version *)
Definition wt_act (pin_rm : bool) (uts : str -> str -> str -> str -> list str) (x : aact) (ps : pstack)
  : res (pstack * bool) :=
  match x with
  | ASetDecl s n v f r =>
      (* addProduct: addVersion on the (possibly new) family, then the tags the product carries *)
      let fm := match ps_family ps f n with Some fm => fm | None => fam_empty end in
      Ok (ps_set_family ps f n (fam_read_back (uts s n v f) v (fam_add_version v r fm)), true)
  | ASetTag _ n t f v =>
      (* lookup[flavor][product].assignTag(tag, version); KeyError and ProductNotFound both end in a raise *)
      match ps_family ps f n with
      | None => Err NotFound
      | Some fm => match fam_assign_tag t v fm with
                   | Ok fm' => Ok (ps_set_family ps f n fm', true)
                   | Err e => Err e
                   end
      end
  | ADelTag _ n t f =>
      match ps_family ps f n with
      | None => Ok (ps, false)
      | Some fm => let '(fm', ch) := fam_unassign_tag t fm in
                   if ch then Ok (ps_set_family ps f n fm', true) else Ok (ps, false)
      end
  | ADelDecl _ n v f =>
      (* removeProduct: removeVersion, and the family goes with its last version *)
      match ps_family ps f n with
      | None => Ok (ps, false)
      | Some fm => let '(fm', ch) := fam_remove_version pin_rm v fm in
                   if ch then
                     (if is_nil (f_versions fm') then Ok (ps_del_family ps f n, true)
                      else Ok (ps_set_family ps f n fm', true))
                   else Ok (ps, false)
      end
  end.

Fixpoint wt_acts (pin_rm : bool) (uts : str -> str -> str -> str -> list str) (xs : list aact) (ps : pstack)
  : res (pstack * bool) :=
  match xs with
  | [] => Ok (ps, false)
  | x :: r =>
      match wt_act pin_rm uts x ps with
      | Err e => Err e
      | Ok (ps1, c1) => match wt_acts pin_rm uts r ps1 with
                        | Err e => Err e
                        | Ok (ps2, c2) => Ok (ps2, c1 || c2)
                        end
      end
  end.

(* ---------------------------------------------------------------- one process *)

Definition mem := amap pstack.     (* Eups.versions: stack -> ProductStack *)

Record variant := mkVar {
  v_rm : bool; v_init : bool; v_uloc : bool; v_ustale : bool; v_noread : bool; v_shared : bool
}.
Definition repaired : variant := mkVar false false false false false false.

(* the user tags the write-through of a declaration reads back *)
Definition read_back (pin_noread : bool) (w : world) (u : str) : str -> str -> str -> str -> list str :=
  fun s n v f => if pin_noread then [] else utags_on (w_uc w) u s n v f.

(* neededFlavors of Eups.__init__ *)
Definition needed (pin_init : bool) (fl : str) : list str := if pin_init then [fl] else fallbacks fl.

Definition act_root (x : aact) : str :=
  match x with ASetDecl s _ _ _ _ | ADelDecl s _ _ _ | ASetTag s _ _ _ _ | ADelTag s _ _ _ => s end.

(* one group per call of Database.declare (with the tag it carries) / undeclare / assignTag / unassignTag *)
Fixpoint groups (xs : list aact) : list (list aact) :=
  match xs with
  | [] => []
  | ASetDecl s n v f r :: rest =>
      match rest with
      | ASetTag s' n' t' f' v' :: rest' =>
          (* Database.declare(product) with the tag the product carries: same stack, product, flavor, version *)
          if str_eqb s s' && str_eqb n n' && str_eqb f f' && str_eqb v v'
          then [ASetDecl s n v f r; ASetTag s' n' t' f' v'] :: groups rest'
          else [ASetDecl s n v f r] :: groups rest
      | _ => [ASetDecl s n v f r] :: groups rest
      end
  | x :: rest => [x] :: groups rest
  end.

(* Eups.unassignTag saves only when the stack reported a change; the others always *)
Definition save_always (g : list aact) : bool :=
  match g with ADelTag _ _ _ _ :: _ => false | _ => true end.

Definition group_stack (g : list aact) : str :=
  match g with x :: _ => act_root x | [] => [] end.

Inductive gres := GOk | GCrashed | GRaised.

(* save(self.flavor) of the write-through blocks: CacheOutOfSync is answered by refreshFromDatabase *)
Definition save_flavor (w : world) (s loc u fl : str) (ps : pstack) : world * pstack :=
  if in_sync w s ps loc fl then persist w s loc fl ps
  else (w, mkPS (rebuild_lookup (w_db w) (w_uc w) (Some u) s) (ps_modtimes ps)).

(* database update ; [death] ; ensureInSync ; in-memory update ; save *)
Definition run_group (vr : variant) (loc u fl : str) (w : world) (m : mem) (g : list aact) (die_after_db : bool)
  : world * mem * gres :=
  let w1 := do_acts (do_uacts w u g) g in
  if die_after_db then (w1, m, GCrashed) else
  let s := group_stack g in
  match alookup s m with
  | None => (w1, m, GOk)
  | Some ps =>
      let ps1 := ensure_in_sync w1 s loc ps in
      match wt_acts (v_rm vr) (read_back (v_noread vr) w1 u) g ps1 with
      | Err _ => (w1, aset s ps1 m, GRaised)
      | Ok (ps2, changed) =>
          if save_always g || changed then
            let '(w2, ps3) := save_flavor w1 s loc u fl ps2 in (w2, aset s ps3 m, GOk)
          else (w1, aset s ps2 m, GOk)
      end
  end.

(* crash = (index of the group, false: die before its database call / true: right after it) *)
Fixpoint run_groups (vr : variant) (loc u fl : str) (w : world) (m : mem) (gs : list (list aact))
  (crash : option (nat * bool)) : world * mem * gres :=
  match gs with
  | [] => (w, m, GOk)
  | g :: rest =>
      match crash with
      | Some (0, false) => (w, m, GCrashed)
      | _ =>
        let die := match crash with Some (0, true) => true | _ => false end in
        let '(w1, m1, r) := run_group vr loc u fl w m g die in
        match r with
        | GOk => run_groups vr loc u fl w1 m1 rest
                   (match crash with Some (S k, b) => Some (k, b) | _ => None end)
        | _ => (w1, m1, r)
        end
      end
  end.

Inductive pop :=
| POp (x : op)                 (* a command of Model/Db.v, issued by this process's Eups *)
| PDel (loc s fl : str)        (* somebody removes a cache file while the process lives *)
| PUAssign (o : opts) (t n v : str)              (* Eups.assignTag(t, n, v, stack) with a user tag t *)
| PUUnassign (o : opts) (t n : str) (v : option str)    (* Eups.unassignTag(t, n, v, stack) with a user tag t *)
| PUPlant (o : opts) (t n v : str).            (* the same assignment as PUAssign made with Database.assignTag(user:t, ...,
                                                  writeableDB=None): the chain file goes into the user's tag directory
                                                  whatever Eups.assignTag does (a repaired one, another eups version that
                                                  shares the user's data directory), then the same write-through and save *)

Definition delete_cache (w : world) (loc s fl : str) : world :=
  mkW (w_db w) (w_clock w) (w_stamps w) (gremove pkey_eqb (loc, s, fl) (w_pickles w)) (w_uc w).

Inductive outcome := OOk | OErr (e : errkind) | ORaised | OCrashed.

(* the decisions are those of Model/Db.v on the files; the op must be issued under the
   process's own flavor (an Eups has one) *)
Definition run_op (vr : variant) (loc u fl : str) (w : world) (m : mem) (x : op) (crash : option (nat * bool))
  : world * mem * outcome :=
  if negb (str_eqb (o_flavor (op_opts x)) fl) then (w, m, OErr Undefined) else
  match decide false (view (w_db w)) x with
  | Err e => (w, m, OErr e)
  | Ok acts =>
      let '(w1, m1, r) := run_groups vr loc u fl w m (groups acts) crash in
      (w1, m1, match r with GOk => OOk | GCrashed => OCrashed | GRaised => ORaised end)
  end.

(* ---------------------------------------------------------------- the two user-tag commands *)

(* what the loaded stacks say (the lookups of the answers below, needed here for the decisions of
   Eups.unassignTag, which reads the tags of the product from the cache) *)
Definition mem_decl (m : mem) (s n v f : str) : option vrec :=
  match alookup s m with
  | Some ps => match alookup f (ps_lookup ps) with Some fd => fd_decl fd n v | None => None end
  | None => None
  end.

Definition mem_utag (m : mem) (s n t f : str) : option str :=
  match alookup s m with
  | Some ps => match alookup f (ps_lookup ps) with Some fd => fd_utag fd n t | None => None end
  | None => None
  end.

(* getTaggedProduct in the cache: the version of the user tag, when the family has it *)
Definition mem_vis_utag (m : mem) (s n t f : str) : option str :=
  match mem_utag m s n t f with
  | Some v => if is_some (mem_decl m s n v f) then Some v else None
  | None => None
  end.

Fixpoint first_mutagged (m : mem) (roots : list str) (n t f : str) : option (str * str) :=
  match roots with
  | [] => None
  | s :: r => match mem_vis_utag m s n t f with Some v => Some (s, v) | None => first_mutagged m r n t f end
  end.

(* the user tag t of user u on product n of stack s that a reader sees: the version must be declared *)
Definition vis_utag (w : world) (u s n t f : str) : option str :=
  match uc_tag (w_uc w) u s n t f with
  | Some v => if is_some (db_decl (w_db w) s n v f) then Some v else None
  | None => None
  end.

Fixpoint first_utagged (w : world) (u : str) (roots : list str) (n t f : str) : option (str * str) :=
  match roots with
  | [] => None
  | s :: r => match vis_utag w u s n t f with Some v => Some (s, v) | None => first_utagged w u r n t f end
  end.

(* what one call of Database.assignTag / unassignTag for a user tag is to do, or nothing (a message only) *)
Inductive uact :=
| USet (s n t f v : str)
| UDel (s n t f : str).

(* Eups.assignTag: the product is looked for as for a global tag (Model/Db.v assign_acts) *)
Definition uassign_plan (w : world) (o : opts) (t n v : str) : res (option uact) :=
  let a := view (w_db w) in
  match find_exact a (roots_of a (o_stack o)) n v (o_flavor o) with
  | Some (s', _) => Ok (Some (USet s' n t (o_flavor o) v))
  | None => Err NotFound
  end.

(* Eups.unassignTag: as Model/Db.v unassign_acts; whether the product carries the user tag is read from
   the loaded stacks (product.tags, findProduct(name, tag)): under the coherence theorem that is what the
   tag directory says, on the pinned tree it is not *)
Definition uunassign_plan (w : world) (m : mem) (o : opts) (t n : str) (vo : option str) : res (option uact) :=
  let a := view (w_db w) in
  let f := o_flavor o in
  match vo with
  | Some v =>
      match find_exact a (roots_of a (o_stack o)) n v f with
      | None => Err NotFound
      | Some (s', _) =>
          if opt_str_eqb (mem_utag m s' n t f) v
          then (if o_noaction o then Ok None else Ok (Some (UDel s' n t f)))
          else Ok None
      end
  | None =>
      match o_stack o with
      | None =>
          match first_mutagged m (apath a) n t f with
          | Some (s', _) => if o_noaction o then Ok None else Ok (Some (UDel s' n t f))
          | None =>
              match find_tagged a (apath a) n current f with
              | Some _ => Ok None
              | None => Err NotFound
              end
          end
      | Some s => if o_noaction o then Ok None else Ok (Some (UDel s n t f))
      end
  end.

Definition uact_stack (x : uact) : str := match x with USet s _ _ _ _ | UDel s _ _ _ => s end.

(* the database call.  Pinned Eups.assignTag passes the stack's own database as the place to write:
   the chain file of the user tag lands among the global ones *)
Definition do_udb (pin_uloc : bool) (w : world) (u : str) (x : uact) : world :=
  match x with
  | USet s n t f v => if pin_uloc then do_act w (ASetTag s n t f v) else do_uset w u s n t f v
  | UDel s n t f => do_udel w u s n t f
  end.

(* the update of the ProductStack: ProductStack.assignTag raises when no loaded family has the version *)
Definition wt_uact (x : uact) (ps : pstack) : res (pstack * bool) :=
  match x with
  | USet _ n t f v =>
      match ps_family ps f n with
      | None => Err NotFound
      | Some fm => match fam_assign_utag t v fm with
                   | Ok fm' => Ok (ps_set_family ps f n fm', true)
                   | Err e => Err e
                   end
      end
  | UDel _ n t f =>
      match ps_family ps f n with
      | None => Ok (ps, false)
      | Some fm => let '(fm', ch) := fam_unassign_utag t fm in
                   if ch then Ok (ps_set_family ps f n fm', true) else Ok (ps, false)
      end
  end.

(* database call ; [death] ; ensureInSync ; in-memory update ; save (assignTag always, unassignTag when
   the stack reported a change) *)
Definition run_uact (pin_uloc : bool) (loc u fl : str) (w : world) (m : mem) (x : uact) (crash : option (nat * bool))
  : world * mem * outcome :=
  match crash with
  | Some (0, false) => (w, m, OCrashed)
  | _ =>
    let w1 := do_udb pin_uloc w u x in
    match crash with
    | Some (0, true) => (w1, m, OCrashed)
    | _ =>
      let s := uact_stack x in
      match alookup s m with
      | None => (w1, m, OOk)
      | Some ps =>
          let ps1 := ensure_in_sync w1 s loc ps in
          match wt_uact x ps1 with
          | Err _ => (w1, aset s ps1 m, ORaised)
          | Ok (ps2, changed) =>
              if (match x with USet _ _ _ _ _ => true | UDel _ _ _ _ => false end) || changed then
                let '(w2, ps3) := save_flavor w1 s loc u fl ps2 in (w2, aset s ps3 m, OOk)
              else (w1, aset s ps2 m, OOk)
          end
      end
    end
  end.

Definition run_uop (pin_uloc : bool) (loc u fl : str) (w : world) (m : mem) (o : opts) (plan : res (option uact))
  (crash : option (nat * bool)) : world * mem * outcome :=
  if negb (str_eqb (o_flavor o) fl) then (w, m, OErr Undefined) else
  match plan with
  | Err e => (w, m, OErr e)
  | Ok None => (w, m, OOk)
  | Ok (Some x) => run_uact pin_uloc loc u fl w m x crash
  end.

Definition run_pop (vr : variant) (loc u fl : str) (w : world) (m : mem) (x : pop) (crash : option (nat * bool))
  : world * mem * outcome :=
  match x with
  | POp o => run_op vr loc u fl w m o crash
  | PDel l s f => (delete_cache w l s f, m, OOk)
  | PUAssign o t n v => run_uop (v_uloc vr) loc u fl w m o (uassign_plan w o t n v) crash
  | PUUnassign o t n vo => run_uop (v_uloc vr) loc u fl w m o (uunassign_plan w m o t n vo) crash
  | PUPlant o t n v => run_uop false loc u fl w m o (uassign_plan w o t n v) crash
  end.

(* crash = (index of the operation, index of the group, before / after its database call) *)
Fixpoint run_pops (vr : variant) (loc u fl : str) (w : world) (m : mem) (xs : list pop)
  (crash : option (nat * nat * bool)) : world * mem * list outcome :=
  match xs with
  | [] => (w, m, [])
  | x :: rest =>
      let c := match crash with Some (0, g, b) => Some (g, b) | _ => None end in
      let '(w1, m1, oc) := run_pop vr loc u fl w m x c in
      match oc with
      | OCrashed => (w1, m1, [oc])
      | _ =>
        let '(w2, m2, ocs) := run_pops vr loc u fl w1 m1 rest
                                (match crash with Some (S i, g, b) => Some (i, g, b) | _ => None end) in
        (w2, m2, oc :: ocs)
      end
  end.

(* Eups.__init__: fromCache for every stack of the path, in order *)
Fixpoint load_stacks (pin_ustale : bool) (w : world) (loc : str) (utd : option str) (nf : list str) (path : list str)
  : world * mem :=
  match path with
  | [] => (w, [])
  | s :: r =>
      let '(w1, ps) := from_cache pin_ustale w s loc utd nf in
      let '(w2, m) := load_stacks pin_ustale w1 loc utd nf r in
      (w2, (s, ps) :: m)
  end.

(* Eups._setProductStack_fromCache: the tag directory handed to fromCache is the user's, except that
   (repaired) a cache that is persisted into ups_db itself gets nobody's user tags *)
Definition tag_dir (pin_shared : bool) (loc u : str) : option str :=
  if str_eqb loc upsdb && negb pin_shared then None else Some u.

(* an Eups of user u that persists its caches into directory loc (u itself, or ups_db as an administrator) *)
Definition load (vr : variant) (w : world) (loc u fl : str) : world * mem :=
  load_stacks (v_ustale vr) w loc (tag_dir (v_shared vr) loc u) (needed (v_init vr) fl) (map fst (w_db w)).

Record proc := mkProc {
  p_user : str;       (* the user: the name of his data directory *)
  p_admin : bool;     (* Eups(asAdmin=True): the caches are persisted into ups_db *)
  p_flavor : str;
  p_ops : list pop;
  p_crash : option (nat * nat * bool)
}.

(* the cache directory the process persists to *)
Definition p_loc (p : proc) : str := if p_admin p then upsdb else p_user p.

Definition run_proc_full (vr : variant) (w : world) (p : proc) : world * mem * list outcome :=
  let '(w1, m) := load vr w (p_loc p) (p_user p) (p_flavor p) in
  run_pops vr (p_loc p) (p_user p) (p_flavor p) w1 m (p_ops p) (p_crash p).

Definition run_proc (vr : variant) (w : world) (p : proc) : world := fst (fst (run_proc_full vr w p)).

End Clock.

(* ---------------------------------------------------------------- queries *)

Inductive query :=
| QDeclared (s n v f : str)        (* is version v of n declared for f in stack s *)
| QDir (s n v f : str)             (* its directory and table file *)
| QHasTag (s n v t f : str)        (* does that version carry tag t *)
| QTagged (s n t f : str)          (* the version tag t designates *)
| QFind (n v f : str)              (* Eups.findProduct(n, v, flavor=f): the first stack of the path that has it *)
| QFindTagged (n t f : str).       (* Eups.findTaggedProduct(n, t, flavor=f) *)

Inductive answer :=
| ABool (b : bool)
| ARec (r : option vrec)
| AVer (v : option str)
| AStackRec (x : option (str * vrec))
| AStackVer (x : option (str * str)).

Definition q_flavor (q : query) : str :=
  match q with
  | QDeclared _ _ _ f | QDir _ _ _ f | QHasTag _ _ _ _ f | QTagged _ _ _ f | QFind _ _ f | QFindTagged _ _ f => f
  end.

Section Eval.
Variable dl : str -> str -> str -> str -> option vrec.   (* stack, product, version, flavor *)
Variable tl : str -> str -> str -> str -> option str.    (* stack, product, tag, flavor *)

(* a tag whose version is not there is not found (getTaggedProduct raises, the caller goes on) *)
Definition vis_tag (s n t f : str) : option str :=
  match tl s n t f with
  | Some v => if is_some (dl s n v f) then Some v else None
  | None => None
  end.

Fixpoint first_decl (roots : list str) (n v f : str) : option (str * vrec) :=
  match roots with
  | [] => None
  | s :: r => match dl s n v f with Some x => Some (s, x) | None => first_decl r n v f end
  end.

Fixpoint first_tagged (roots : list str) (n t f : str) : option (str * str) :=
  match roots with
  | [] => None
  | s :: r => match vis_tag s n t f with Some v => Some (s, v) | None => first_tagged r n t f end
  end.

Definition q_eval (path : list str) (q : query) : answer :=
  match q with
  | QDeclared s n v f => ABool (is_some (dl s n v f))
  | QDir s n v f => ARec (dl s n v f)
  | QHasTag s n v t f => ABool (is_some (dl s n v f) && opt_str_eqb (tl s n t f) v)
  | QTagged s n t f => AVer (vis_tag s n t f)
  | QFind n v f => AStackRec (first_decl path n v f)
  | QFindTagged n t f => AStackVer (first_tagged path n t f)
  end.
End Eval.

Definition mem_tag (m : mem) (s n t f : str) : option str :=
  match alookup s m with
  | Some ps => match alookup f (ps_lookup ps) with Some fd => fd_tag fd n t | None => None end
  | None => None
  end.

(* the answer of an Eups whose product stacks are m (noCache=False) *)
Definition q_cache (m : mem) (q : query) : answer := q_eval (mem_decl m) (mem_tag m) (map fst m) q.

(* [q_cache] is the pinned Eups.findProduct / _findTaggedProduct / _findLatestProduct / _findProductsByExpr:
   a flavor for which the stack was not loaded has no product in the cache and the answer is that nothing is
   declared.  Repaired (Eups._readDatabase): the cache of a stack is consulted for the flavors it was loaded
   for, the database files for any other flavor, as for a stack without a cache. *)
Definition srv_decl (w : world) (m : mem) (s n v f : str) : option vrec :=
  match alookup s m with
  | Some ps => match alookup f (ps_lookup ps) with
               | Some fd => fd_decl fd n v
               | None => db_decl (w_db w) s n v f
               end
  | None => None
  end.

Definition srv_tag (w : world) (m : mem) (s n t f : str) : option str :=
  match alookup s m with
  | Some ps => match alookup f (ps_lookup ps) with
               | Some fd => fd_tag fd n t
               | None => db_tag (w_db w) s n t f
               end
  | None => None
  end.

(* the answer of the repaired Eups whose product stacks are m, in world w (noCache=False) *)
Definition q_served (w : world) (m : mem) (q : query) : answer :=
  q_eval (srv_decl w m) (srv_tag w m) (map fst m) q.

(* the answer read from the version and chain files (noCache=True) *)
Definition q_db (w : world) (q : query) : answer :=
  q_eval (db_decl (w_db w)) (db_tag (w_db w)) (map fst (w_db w)) q.

(* ---------------------------------------------------------------- queries about user tags *)

Inductive uquery :=
| UQHasTag (s n v t f : str)       (* does that version carry user tag t *)
| UQTagged (s n t f : str)         (* the version user tag t designates in stack s *)
| UQFindTagged (n t f : str).      (* Eups.findTaggedProduct(n, t, flavor=f) for a user tag t, over the path *)

Definition uq_flavor (q : uquery) : str :=
  match q with UQHasTag _ _ _ _ f | UQTagged _ _ _ f | UQFindTagged _ _ f => f end.

Section UEval.
Variable dl : str -> str -> str -> str -> option vrec.   (* stack, product, version, flavor *)
Variable ul : str -> str -> str -> str -> option str.    (* stack, product, user tag, flavor *)

Definition uq_eval (path : list str) (q : uquery) : answer :=
  match q with
  | UQHasTag s n v t f => ABool (is_some (dl s n v f) && opt_str_eqb (ul s n t f) v)
  | UQTagged s n t f => AVer (vis_tag dl ul s n t f)
  | UQFindTagged n t f => AStackVer (first_tagged dl ul path n t f)
  end.
End UEval.

(* the answer of an Eups whose product stacks are m (noCache=False) *)
Definition uq_cache (m : mem) (q : uquery) : answer := uq_eval (mem_decl m) (mem_utag m) (map fst m) q.

(* the answer read from the version files and the chain files of the tag directory of user u (noCache=True) *)
Definition uq_db (w : world) (u : str) (q : uquery) : answer :=
  uq_eval (db_decl (w_db w)) (fun s n t f => uc_tag (w_uc w) u s n t f) (map fst (w_db w)) q.

(* what Database.getChainFile(user tag) finds with noCache=True: a chain file of that name among the
   stack's own comes first, then the tag directory.  In the worlds of the repaired code no chain file of
   a stack is named like a user tag and this is [uq_db]; on the pinned tree Eups.assignTag puts them there *)
Definition ufile_tag (w : world) (u s n t f : str) : option str :=
  match db_cfile (w_db w) s (n, t) with
  | Some c => alookup f c
  | None => uc_tag (w_uc w) u s n t f
  end.

Definition uq_files (w : world) (u : str) (q : uquery) : answer :=
  uq_eval (db_decl (w_db w)) (ufile_tag w u) (map fst (w_db w)) q.

(* the repaired answers about user tags: for a flavor the stack was not loaded for, what the files say --
   product.tags lists the chain files of the tag directory (fb = uc_tag), findTaggedProduct reads
   Database.getChainFile (fb = ufile_tag) *)
Definition srv_utag (fb : str -> str -> str -> str -> option str) (m : mem) (s n t f : str) : option str :=
  match alookup s m with
  | Some ps => match alookup f (ps_lookup ps) with
               | Some fd => fd_utag fd n t
               | None => fb s n t f
               end
  | None => None
  end.

Definition uq_served (w : world) (m : mem) (u : str) (q : uquery) : answer :=
  uq_eval (srv_decl w m)
          (srv_utag (match q with
                     | UQHasTag _ _ _ _ _ => fun s n t f => uc_tag (w_uc w) u s n t f
                     | _ => ufile_tag w u
                     end) m)
          (map fst m) q.

(* ---------------------------------------------------------------- the vocabulary of the theorems *)

(* distinct effects get distinct, increasing stamps *)
Definition clock_strict (tick : nat -> nat) : Prop := forall c, c < tick c.

(* the worlds that histories produce: any number of processes of any users and flavors, one after
   the other, each with any operations (user tags included), dying or not at any of the modelled
   points, and cache files deleted at any moment; EUPS_PATH names each stack once; no user's
   data directory is a stack's ups_db; an administrator's instance only loads (the command line
   offers asAdmin to eups admin buildCache and clearCache only) *)
Inductive reachable (tick : nat -> nat) (vr : variant) : world -> Prop :=
| R_init path : NoDup path -> reachable tick vr (init_world path)
| R_proc w p : p_user p <> upsdb -> (p_admin p = true -> p_ops p = []) ->
    reachable tick vr w -> reachable tick vr (run_proc tick vr w p)
| R_del w loc s fl : reachable tick vr w -> reachable tick vr (delete_cache w loc s fl).

(* does fromCache believe the cache files of directory loc for stack s (the outcome of _tryCache) *)
Definition believed (w : world) (loc s : str) (nf : list str) : bool := snd (try_cache false w loc s nf ps_empty).

(* ---------------------------------------------------------------- for the driver *)

Definition tickS : nat -> nat := S.

Definition run_proc_S := run_proc_full tickS.
