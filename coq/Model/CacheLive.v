(* Several live Eups instances of one user in one process (C07), on top of Model/Cache.v.

   Code followed: ProductStack.ensureInSync / cacheIsInSync / _cacheFileIsInSync / reload, as every
   cached query (Eups.findProduct, findTaggedProduct, findProducts: ensureInSync of the stack before
   the look-up) and every write-through block uses them; Product.getTable handing the parsed table back
   through ProductStack.loadTableFor (which marks the flavor as updated and changes nothing else that
   the model holds: neither the declarations nor the tags nor any file).

   A session is one process of user u and flavor fl in which several Eups instances live at the same
   time.  Each has its own loaded stacks ([mem]); they share the database files and the cache files of
   the cache directory of u.  The steps of a session, in any order:
     LNew        one more instance is built (the fromCache load of every stack);
     LOp i x     instance i runs a command (Model/Cache.v [run_pop]);
     LTable i    instance i parses a table file on demand (found through the cache);
     LAsk i      instance i is asked through the cache.
   Before it does anything with a stack an instance calls ensureInSync on it.  The steps of one process
   follow each other, nothing happens to the files between the ensureInSync calls of one step, and a
   reload is idempotent, so the model lets an instance bring all its stacks in sync at the start of each
   of its steps ([sync_mem]); inside [run_pop] the ensureInSync of the write-through block then finds
   everything in sync.

   [ensure_in_sync] of Model/Cache.v is the pinned ensureInSync: when a held cache file moved it reloads
   every flavor that has a cache file in the directory (reload(flavors=None) lists the directory), among
   them flavors this instance never checked against the database.  [ensure_in_sync_held] is the repaired
   one (proposed_fixes/C07-ensure-in-sync-held-flavors): the flavors the stack holds are read again, no
   other.  The switch [pin_all] selects.

   Executable definitions only. *)
From Eupsv Require Import Base.Base Model.Db Model.Cache.

(* ensureInSync, repaired: the flavors held are read again when the file of one of them moved *)
Definition ensure_in_sync_held (w : world) (s loc : str) (ps : pstack) : pstack :=
  if forallb (in_sync w s ps loc) (akeys (ps_lookup ps)) then ps
  else reload w loc s (akeys (ps_lookup ps)) ps.

Definition ensure_sync (pin_all : bool) (w : world) (s loc : str) (ps : pstack) : pstack :=
  if pin_all then ensure_in_sync w s loc ps else ensure_in_sync_held w s loc ps.

(* every stack of an instance brought in sync with the cache files of directory loc *)
Definition sync_mem (pin_all : bool) (w : world) (loc : str) (m : mem) : mem :=
  map (fun e : str * pstack => (fst e, ensure_sync pin_all w (fst e) loc (snd e))) m.

Inductive lstep :=
| LNew                     (* Eups(): one more instance *)
| LOp (i : nat) (x : pop)  (* instance i runs a command *)
| LTable (i : nat)         (* instance i: findProduct through the cache, then product.getTable() *)
| LAsk (i : nat).          (* instance i answers through the cache *)

Fixpoint set_nth {A} (i : nat) (x : A) (l : list A) : list A :=
  match l, i with
  | [], _ => []
  | _ :: r, 0 => x :: r
  | y :: r, S k => y :: set_nth k x r
  end.

Section Clock.
Variable tick : nat -> nat.

(* one step of a session of user u (cache directory u) and flavor fl; ms: the live instances *)
Definition run_lstep (vr : variant) (pin_all : bool) (u fl : str) (w : world) (ms : list mem) (x : lstep)
  : world * list mem * outcome :=
  match x with
  | LNew => let '(w1, m) := load tick vr w u u fl in (w1, ms ++ [m], OOk)
  | LOp i p =>
      match nth_error ms i with
      | None => (w, ms, OErr Undefined)
      | Some m =>
          let '(w1, m1, oc) := run_pop tick vr u u fl w (sync_mem pin_all w u m) p None in
          (w1, set_nth i m1 ms, oc)
      end
  | LTable i | LAsk i =>
      match nth_error ms i with
      | None => (w, ms, OErr Undefined)
      | Some m => (w, set_nth i (sync_mem pin_all w u m) ms, OOk)
      end
  end.

Fixpoint run_lsteps (vr : variant) (pin_all : bool) (u fl : str) (w : world) (ms : list mem) (xs : list lstep)
  : world * list mem * list outcome :=
  match xs with
  | [] => (w, ms, [])
  | x :: r =>
      let '(w1, ms1, oc) := run_lstep vr pin_all u fl w ms x in
      let '(w2, ms2, ocs) := run_lsteps vr pin_all u fl w1 ms1 r in
      (w2, ms2, oc :: ocs)
  end.

(* a whole session: it starts without an instance *)
Definition run_session (vr : variant) (pin_all : bool) (u fl : str) (w : world) (xs : list lstep) : world * list mem :=
  fst (run_lsteps vr pin_all u fl w [] xs).

End Clock.

(* the answer instance i of a session gives through the cache, in world w *)
Definition live_answer (w : world) (ms : list mem) (i : nat) (q : query) : answer :=
  match nth_error ms i with Some m => q_served w m q | None => ABool false end.

(* ---------------------------------------------------------------- for the driver *)

Definition run_lstep_S := run_lstep tickS.
