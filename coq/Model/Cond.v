(* C11 - model of python/eups/VersionParser.py: the tokeniser of __init__ and the
   recursive-descent evaluator eval/_expr/_term/_prim, with the control flow of the code
   (look-ahead by _peek, _next that does not pop at EOF, push-back of RESOLVED values).
   The flag [fx] selects the repaired _expr (fx = true: the right operand of an operator is
   always evaluated, so its tokens are consumed) or the pinned one (fx = false: the operand
   is skipped by not calling _term at all).  Executable definitions only. *)
From Eupsv Require Import Base.Base Model.Rx.

(* ---------------------------------------------------------------- values *)

Inductive value :=
| VStr (s : str)
| VInt (z : Z)
| VBool (b : bool)
| VList (l : list str).

(* the symbols Table.actions defines: flavor always, type only when the list is non-empty *)
Record cenv := mkCenv { ce_flavor : str; ce_types : list str }.

(* ---------------------------------------------------------------- tokeniser *)

Definition is_quote (c : ascii) : bool := ascii_eqb c c_dq || ascii_eqb c c_sq.

(* the pattern  quote, one or more non-quotes, quote  replaced by its middle *)
Definition unq_match (s : str) : option (str * nat) :=
  match s with
  | q :: r =>
      if is_quote q then
        match span (fun c => negb (is_quote c)) r with
        | (b, q' :: _) => match b with [] => None | _ => Some (b, S (length b)) end
        | (_, []) => None
        end
      else None
  | [] => None
  end.
Definition unquote (s : str) : str := resub unq_match s.

(* [\w.+] *)
Definition is_wordc (c : ascii) : bool :=
  is_word c || ascii_eqb c "."%char || ascii_eqb c "+"%char.

(* first alternative of the split pattern: dollar, optional question mark, left brace,
   one or more characters other than the right brace, right brace *)
Definition dollar_match (s : str) : option (str * nat) :=
  match s with
  | d :: r0 =>
      if ascii_eqb d c_dollar then
        let '(q, r1) := match r0 with
                        | x :: r' => if ascii_eqb x "?"%char then ([x], r') else ([], r0)
                        | [] => ([], r0)
                        end in
        match r1 with
        | b :: r2 =>
            if ascii_eqb b c_lb then
              match span (fun c => negb (ascii_eqb c c_rb)) r2 with
              | (body, e :: _) =>
                  match body with
                  | [] => None
                  | _ => let m := d :: q ++ b :: body ++ [e] in Some (m, length m - 1)
                  end
              | (_, []) => None
              end
            else None
        | [] => None
        end
      else None
  | [] => None
  end.

Inductive pend := PNone | PWord (acc : str) | PText (acc : str).

Definition flush (p : pend) : list str :=
  match p with PNone => [] | PWord a => [a] | PText a => [a] end.

Definition is_cmp1 (c : ascii) : bool :=
  ascii_eqb c "="%char || ascii_eqb c "!"%char || ascii_eqb c "<"%char || ascii_eqb c ">"%char.
Definition is_single (c : ascii) : bool :=
  ascii_eqb c c_lp || ascii_eqb c c_rp || ascii_eqb c "<"%char || ascii_eqb c ">"%char.

(* re.split with the capturing group, empty and all-blank pieces dropped: the matches in
   the order of the alternatives; text between two matches is a piece of its own *)
Fixpoint tok_go (p : pend) (skip : nat) (s : str) : list str :=
  match s with
  | [] => flush p
  | c :: r =>
      match skip with
      | S k => tok_go p k r
      | O =>
          match dollar_match s with
          | Some (m, n) => flush p ++ m :: tok_go PNone n r
          | None =>
              if is_wordc c then
                match p with
                | PWord a => tok_go (PWord (a ++ [c])) 0 r
                | _ => flush p ++ tok_go (PWord [c]) 0 r
                end
              else if is_pyspace c then flush p ++ tok_go PNone 0 r
              else if is_cmp1 c && (match r with e :: _ => ascii_eqb e c_eq | [] => false end)
                   then flush p ++ [c; c_eq] :: tok_go PNone 1 r
              else if is_single c then flush p ++ [c] :: tok_go PNone 0 r
              else match p with
                   | PText a => tok_go (PText (a ++ [c])) 0 r
                   | _ => flush p ++ tok_go (PText [c]) 0 r
                   end
          end
      end
  end.

Definition tokenize (s : str) : list str := tok_go PNone 0 (unquote s).

(* ---------------------------------------------------------------- look-ahead *)

(* python int(str) on ASCII: optional sign, digits, single underscores between digits *)
Fixpoint digits_go (acc : Z) (lastd : bool) (s : str) : option Z :=
  match s with
  | [] => if lastd then Some acc else None
  | c :: r =>
      if is_digit c then digits_go (acc * 10 + Z.of_nat (nat_of_ascii c - 48))%Z true r
      else if ascii_eqb c "_"%char then (if lastd then digits_go acc false r else None)
      else None
  end.
Definition py_int (s : str) : option Z :=
  match s with
  | c :: r =>
      if ascii_eqb c "+"%char then digits_go 0 false r
      else if ascii_eqb c "-"%char then option_map Z.opp (digits_go 0 false r)
      else digits_go 0 false s
  | [] => None
  end.

Definition s_eof : str := lit "EOF".
Definition veq_s (v : value) (s : str) : bool :=
  match v with VStr x => str_eqb x s | _ => false end.
Definition is_eof (v : value) : bool := veq_s v s_eof.

(* _lookup.  A token that starts with dollar-brace refers to os.environ, which is not
   modelled: it is answered as an undefined variable.  A pushed-back value that is not a
   string makes key.lower() raise AttributeError. *)
Definition lookup (e : cenv) (t : value) : res value :=
  match t with
  | VStr k =>
      if starts_with [c_dollar; c_lb] k then Err Undefined
      else
        let kl := lower_str k in
        if str_eqb kl (lit "flavor") then Ok (VStr (ce_flavor e))
        else if str_eqb kl (lit "type") then
          match ce_types e with [] => Ok (VStr k) | _ => Ok (VList (ce_types e)) end
        else Ok (VStr k)
  | _ => Err Crash
  end.

Definition coerce (v : value) : value :=
  match v with
  | VStr s =>
      match py_int s with
      | Some z => VInt z
      | None => if str_eqb s (lit "True") then VBool true
                else if str_eqb s (lit "False") then VBool false
                else VStr s
      end
  | _ => v
  end.

Definition peek (e : cenv) (toks : list value) : res value :=
  match toks with
  | [] => Ok (VStr s_eof)
  | t :: _ => bind (lookup e t) (fun v => Ok (coerce v))
  end.

Definition next (e : cenv) (toks : list value) : res (value * list value) :=
  bind (peek e toks) (fun v => if is_eof v then Ok (v, toks) else Ok (v, tl toks)).

Definition push (v : value) (toks : list value) : list value :=
  if is_eof v then toks else v :: toks.

(* ---------------------------------------------------------------- python operators *)

Definition truthy (v : value) : bool :=
  match v with
  | VStr s => nonempty s
  | VInt z => negb (Z.eqb z 0)
  | VBool b => b
  | VList l => match l with [] => false | _ => true end
  end.

Definition py_or (a b : value) : value := if truthy a then a else b.
Definition py_and (a b : value) : value := if truthy a then b else a.

Fixpoint strs_eqb (a b : list str) : bool :=
  match a, b with
  | [], [] => true
  | x :: a', y :: b' => str_eqb x y && strs_eqb a' b'
  | _, _ => false
  end.

Definition z_of_bool (b : bool) : Z := if b then 1%Z else 0%Z.

(* == between the value kinds that occur (bool is an int in python) *)
Definition py_eq (a b : value) : bool :=
  match a, b with
  | VStr x, VStr y => str_eqb x y
  | VInt x, VInt y => Z.eqb x y
  | VBool x, VBool y => Bool.eqb x y
  | VInt x, VBool y => Z.eqb x (z_of_bool y)
  | VBool x, VInt y => Z.eqb (z_of_bool x) y
  | VList x, VList y => strs_eqb x y
  | _, _ => false
  end.

(* v in l, for a list of strings *)
Definition py_in (v : value) (l : list str) : bool :=
  match v with VStr s => mem_str s l | _ => false end.

(* ---------------------------------------------------------------- the evaluator *)

Definition s_or : str := lit "||".
Definition s_and : str := lit "&&".
Definition is_or (v : value) : bool := veq_s v s_or || veq_s v (lit "or").
Definition is_and (v : value) : bool := veq_s v s_and || veq_s v (lit "and").
Definition is_unmodelled_cmp (v : value) : bool :=
  veq_s v (lit "=~") || veq_s v (lit "!~") || veq_s v (lit "<") || veq_s v (lit "<=")
  || veq_s v (lit ">") || veq_s v (lit ">=").

Definition rv := res (value * list value).

Fixpoint ev_expr (fx : bool) (f : nat) (e : cenv) (toks : list value) : rv :=
  match f with
  | O => Err OutOfFuel
  | S f' =>
      bind (ev_term fx f' e toks) (fun '(lhs, t1) => ev_loop fx f' e lhs t1)
  end
with ev_loop (fx : bool) (f : nat) (e : cenv) (lhs : value) (toks : list value) : rv :=
  match f with
  | O => Err OutOfFuel
  | S f' =>
      bind (next e toks) (fun '(op, t1) =>
        if is_or op then
          if fx then
            bind (ev_term fx f' e t1) (fun '(rhs, t2) => ev_loop fx f' e (py_or lhs rhs) t2)
          else if truthy lhs then ev_loop fx f' e lhs t1
          else bind (ev_term fx f' e t1) (fun '(rhs, t2) => ev_loop fx f' e rhs t2)
        else if is_and op then
          if fx then
            bind (ev_term fx f' e t1) (fun '(rhs, t2) => ev_loop fx f' e (py_and lhs rhs) t2)
          else if truthy lhs then
            bind (ev_term fx f' e t1) (fun '(rhs, t2) => ev_loop fx f' e rhs t2)
          else ev_loop fx f' e lhs t1
        else Ok (lhs, push op t1))
  end
with ev_term (fx : bool) (f : nat) (e : cenv) (toks : list value) : rv :=
  match f with
  | O => Err OutOfFuel
  | S f' =>
      bind (ev_prim fx f' e toks) (fun '(lhs, t1) =>
        bind (next e t1) (fun '(op, t2) =>
          if is_eof op then Ok (lhs, t2)
          else if veq_s op (lit "==") then
            bind (ev_prim fx f' e t2) (fun '(rhs, t3) =>
              match lhs with
              | VList l => Ok (VBool (py_in rhs l), t3)
              | _ => Ok (VBool (py_eq lhs rhs), t3)
              end)
          else if veq_s op (lit "!=") then
            bind (ev_prim fx f' e t2) (fun '(rhs, t3) =>
              match lhs with
              | VList l => Ok (VBool (negb (py_in rhs l)), t3)
              | _ => Ok (VBool (negb (py_eq lhs rhs)), t3)
              end)
          else if is_unmodelled_cmp op then Err Undefined
          else Ok (lhs, push op t2)))
  end
with ev_prim (fx : bool) (f : nat) (e : cenv) (toks : list value) : rv :=
  match f with
  | O => Err OutOfFuel
  | S f' =>
      bind (peek e toks) (fun nx =>
        if veq_s nx (lit "(") then
          bind (next e toks) (fun '(_, t1) =>
            bind (ev_expr fx f' e t1) (fun '(v, t2) =>
              bind (next e t2) (fun '(cl, t3) =>
                if veq_s cl (lit ")") then Ok (v, t3) else Err Refused)))
        else if veq_s nx (lit "!") || veq_s nx (lit "not") then
          bind (next e toks) (fun '(_, t1) =>
            bind (ev_expr fx f' e t1) (fun '(v, t2) => Ok (VBool (negb (truthy v)), t2)))
        else next e toks)
  end.

Definition eval_fuel (toks : list value) : nat := 4 * length toks + 4.

(* VersionParser(text) ... eval(): the python value; the string EOF is answered False *)
Definition eval_tokens (fx : bool) (e : cenv) (toks : list str) : res value :=
  let ts := map VStr toks in
  bind (ev_expr fx (eval_fuel ts) e ts) (fun '(v, _) =>
    if is_eof v then Ok (VBool false) else Ok v).

Definition eval_value (fx : bool) (e : cenv) (text : str) : res value :=
  eval_tokens fx e (tokenize text).

(* if parser.eval(): *)
Definition eval_cond (fx : bool) (e : cenv) (text : str) : res bool :=
  bind (eval_value fx e text) (fun v => Ok (truthy v)).
