(* C08 - crash safety of record updates.  A file system of whole records, the record-level
   effects the database operations perform, and their refinement into system calls under
   two write protocols: in place (the pinned tree: open with truncation, write, close) and
   atomic (the repaired tree: write a temporary file, rename it over the target).
   Executable definitions only. *)
From Eupsv Require Import Base.Base.

Definition path := str.
Definition content := list str.              (* the lines of a record *)

Inductive node := File (c : content) | Dir.
Definition fs := amap node.

(* record-level effects *)
Inductive effect :=
| EWrite (p : path) (c : content)            (* VersionFile.write / ChainFile.write of a non-empty record *)
| ERemove (p : path)                         (* os.remove of an emptied record *)
| EMkdir (p : path)                          (* product directory under ups_db *)
| ERmdir (p : path).                         (* os.rmdir, silently failing when not empty *)

Definition c_slash : ascii := "/"%char.

(* no entry lies strictly below directory p *)
Definition dir_empty (p : path) (f : fs) : bool :=
  forallb (fun k => negb (starts_with (p ++ [c_slash]) k)) (akeys f).

Definition apply_effect (f : fs) (e : effect) : fs :=
  match e with
  | EWrite p c => aset p (File c) f
  | ERemove p => aremove p f
  | EMkdir p => if amem p f then f else aset p Dir f
  | ERmdir p => if dir_empty p f then aremove p f else f
  end.

Definition apply_effects (f : fs) (l : list effect) : fs := fold_left apply_effect l f.

(* system calls *)
Inductive syscall :=
| SOpenTrunc (p : path)                      (* open(p, "w"): create or truncate *)
| SAppend (p : path) (l : str)               (* one more line reaches the file *)
| SClose (p : path)
| SRename (t p : path)
| SUnlink (p : path)
| SMkdir (p : path)
| SRmdir (p : path).

Definition run_sys (f : fs) (s : syscall) : fs :=
  match s with
  | SOpenTrunc p => aset p (File []) f
  | SAppend p l => match alookup p f with
                   | Some (File c) => aset p (File (c ++ [l])) f
                   | _ => f
                   end
  | SClose _ => f
  | SRename t p => match alookup t f with
                   | Some n => aset p n (aremove t f)
                   | None => f
                   end
  | SUnlink p => aremove p f
  | SMkdir p => if amem p f then f else aset p Dir f
  | SRmdir p => if dir_empty p f then aremove p f else f
  end.

Definition run_all (f : fs) (l : list syscall) : fs := fold_left run_sys l f.

(* the temporary name used by the repaired writers: <file>.tmp<pid>; one writer, so one suffix *)
Definition tmp_suffix : str := lit ".tmp".
Definition tmp_of (p : path) : path := p ++ tmp_suffix.
Definition is_tmp (p : path) : bool := ends_with tmp_suffix p.

Definition lower_inplace (e : effect) : list syscall :=
  match e with
  | EWrite p c => SOpenTrunc p :: map (SAppend p) c ++ [SClose p]
  | ERemove p => [SUnlink p]
  | EMkdir p => [SMkdir p]
  | ERmdir p => [SRmdir p]
  end.

Definition lower_atomic (e : effect) : list syscall :=
  match e with
  | EWrite p c => SOpenTrunc (tmp_of p) :: map (SAppend (tmp_of p)) c ++ [SClose (tmp_of p); SRename (tmp_of p) p]
  | ERemove p => [SUnlink p]
  | EMkdir p => [SMkdir p]
  | ERmdir p => [SRmdir p]
  end.

Definition lower_all (lower : effect -> list syscall) (l : list effect) : list syscall :=
  flat_map lower l.

(* the state a crash after k system calls leaves behind *)
Definition crash_state (lower : effect -> list syscall) (f : fs) (l : list effect) (k : nat) : fs :=
  run_all f (firstn k (lower_all lower l)).

Definition effect_target (e : effect) : path :=
  match e with EWrite p _ | ERemove p | EMkdir p | ERmdir p => p end.
