(* C08 - the product cache under the two circumstances Model/CrashXdev.v does not speak of.

   1. A command ended by an exception.  A signal python delivers as an exception (SIGINT:
      KeyboardInterrupt) raised while utils.AtomicFile is at work unwinds through its with
      statement: the temporary file is closed by the inner with; whether it is then installed is
      the exit style of the helper.  SkipOnRaise is the code as it is (a generator context
      manager: the statements after the yield - fsync, rename - are skipped when the body
      raised); CommitOnRaise is a helper whose exit closes and installs unconditionally.

   2. The rebuild of the cache a command performs when it starts (ProductStack.fromCache ->
      refreshFromDatabase -> save): the declarations of the database are added one by one to the
      stack in memory; every addition notes its flavor as updated (ProductStack.addProduct ->
      _flavorsUpdated), then the loaded flavors are noted too (fromCache); with autosave off (the
      code as it is) only the final save persists, one complete file per noted flavor - EVERY
      flavor the database holds a declaration of, in the order the walk of the database met them,
      then the loaded flavors it holds none of, and not only the loaded ones; with autosave on
      every addition persists the file of its flavor - complete-looking, newer than the database,
      partial - and un-notes it, so that the final save writes the loaded flavors.  A later reader believes the
      cache when a file newer than the database exists for every flavor it loads and the product
      names of the files are those of the database (ProductStack._tryCache); otherwise it reads
      the database.
   Executable definitions only. *)
From Eupsv Require Import Base.Base Model.Crash Model.CrashXdev.

(* ---------------------------------------------------------------- 1. death by exception *)

Inductive exit_style := SkipOnRaise | CommitOnRaise.

(* tempfile.NamedTemporaryFile, then pickle.dump: the body of the with statement *)
Definition helper_body (p : path) (c : content) : list syscall :=
  SOpenTrunc (tmp_of p) :: map (SAppend (tmp_of p)) c.

(* the end of the with statement when the body did not raise *)
Definition helper_commit (p : path) : list syscall := [SClose (tmp_of p); SRename (tmp_of p) p].

(* what unwinding does once the temporary file exists *)
Definition helper_unwind (st : exit_style) (p : path) : list syscall :=
  SClose (tmp_of p) :: match st with CommitOnRaise => [SRename (tmp_of p) p] | SkipOnRaise => [] end.

(* the exception is raised INSTEAD of call number k (from 0) of body ++ commit; from k = length of
   that list on the helper has completed *)
Definition interrupted (st : exit_style) (f : fs) (p : path) (c : content) (k : nat) : fs :=
  let body := helper_body p c in
  if Nat.ltb k (length body) then
    match k with
    | 0 => f                                               (* the temporary file was never made *)
    | _ => run_all f (firstn k body ++ helper_unwind st p)  (* raised by a write of the body *)
    end
  else if Nat.eqb k (length body) then run_all f body                              (* the close raises *)
  else if Nat.eqb k (S (length body)) then run_all f (body ++ [SClose (tmp_of p)])  (* the rename raises *)
  else run_all f (body ++ helper_commit p).

(* ---------------------------------------------------------------- 2. the rebuild at start-up *)

Definition prow := (str * str * str)%type.          (* flavor, product, version: one declaration *)
Definition r_flavor (r : prow) : str := fst (fst r).
Definition r_product (r : prow) : str := snd (fst r).
Definition r_version (r : prow) : str := snd r.

(* a cache file: is it newer than every file of the database, and the (product, version) rows it holds *)
Definition cfile := (bool * list (str * str))%type.
Definition caches := amap cfile.                     (* flavor -> file *)

Definition rows_of (fl : str) (db : list prow) : list (str * str) :=
  map (fun r => (r_product r, r_version r)) (filter (fun r => str_eqb (r_flavor r) fl) db).

(* autosave on: adding declaration r persists the file of its flavor with what is in memory so far *)
Fixpoint partial_saves (seen rest : list prow) : list (str * cfile) :=
  match rest with
  | [] => []
  | r :: rest' => (r_flavor r, (true, rows_of (r_flavor r) (seen ++ [r]))) :: partial_saves (seen ++ [r]) rest'
  end.

Definition final_saves (fls : list str) (db : list prow) : list (str * cfile) :=
  map (fun fl => (fl, (true, rows_of fl db))) fls.

Definition mem_str (x : str) (l : list str) : bool := existsb (str_eqb x) l.

(* ProductStack.updated: a flavor is appended when it is not there yet *)
Fixpoint first_seen (seen l : list str) : list str :=
  match l with
  | [] => []
  | x :: r => if mem_str x seen then first_seen seen r else x :: first_seen (x :: seen) r
  end.

(* the flavors the final save of the rebuild writes with autosave off: those of the declarations in the
   order refreshFromDatabase added them (db is in that order), then the loaded ones not met among them *)
Definition saved_flavors (fls : list str) (db : list prow) : list str :=
  first_seen [] (map r_flavor db ++ fls).

Definition persists (autosave : bool) (fls : list str) (db : list prow) : list (str * cfile) :=
  if autosave then partial_saves [] db ++ final_saves fls db
  else final_saves (saved_flavors fls db) db.

(* each persist is one rename (section 1 and CrashXdev): a crash leaves the first k of them *)
Definition crash_caches (autosave : bool) (fls : list str) (db : list prow) (cs : caches) (k : nat) : caches :=
  fold_left (fun m x => aset (fst x) (snd x) m) (firstn k (persists autosave fls db)) cs.

Definition cache_rows (cs : caches) (fl : str) : option (list (str * str)) :=
  match alookup fl cs with Some (true, rows) => Some rows | _ => None end.

Definition same_names (a b : list str) : bool :=
  forallb (fun x => mem_str x b) a && forallb (fun x => mem_str x a) b.

(* what a later read-only command of flavors fls lists for flavor fl *)
Definition reader_answer (fls : list str) (db : list prow) (cs : caches) (fl : str) : list (str * str) :=
  if forallb (fun g => match cache_rows cs g with Some _ => true | None => false end) fls
     && same_names (flat_map (fun g => match cache_rows cs g with Some r => map fst r | None => [] end) fls)
                   (map r_product db)
  then match cache_rows cs fl with Some r => r | None => rows_of fl db end
  else rows_of fl db.
