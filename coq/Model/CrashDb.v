(* C08, second layer: the database model of C06 (Model/Db.v) placed on the file store of the
   generic crash layer (Model/Crash.v).

   Path space.  A stack id s, a product n, a version v, a tag t name
       s/ups_db/n                 the product directory
       s/ups_db/n/v.version       the version file  (key (n, v) of stack s)
       s/ups_db/n/t.chain         the chain file    (key (n, t) of stack s)
   (the root directory the stacks live in is a common prefix and is left out).

   Record contents stay abstract: a version file is the sequence of its field values, three
   lines per flavor block (flavor, product directory, table file), a chain file two lines per
   entry (flavor, version).  What matters for crash safety is that a record is a sequence of
   lines written one after the other, that the complete sequence determines the flavor map
   ([parse_v (print_v c) = Some c]) and that a sequence cut short does not parse; the literal
   text of the two file formats and its round trip are the subject of C16.

   [image] maps the file effects Db.compile produces onto record-level effects of the crash
   layer.  [read_db] is the fresh reader: it lists the store, recognises the names above (a
   left-over temporary file is none of them), parses every record of the stacks on the path and
   raises when one does not parse.  Executable definitions only. *)
From Eupsv Require Import Base.Base Model.Db Model.Crash.

Definition ups_db : str := lit "ups_db".
Definition version_suffix : str := lit ".version".
Definition chain_suffix : str := lit ".chain".

Definition dpath (s n : str) : path := join c_slash [s; ups_db; n].
Definition vpath (s : str) (k : key) : path := join c_slash [s; ups_db; fst k; snd k ++ version_suffix].
Definition cpath (s : str) (k : key) : path := join c_slash [s; ups_db; fst k; snd k ++ chain_suffix].

(* ---------------------------------------------------------------- record contents *)

Fixpoint print_v (c : vcontent) : content :=
  match c with
  | [] => []
  | (f, (dir, table)) :: r => f :: dir :: table :: print_v r
  end.

Fixpoint print_c (c : ccontent) : content :=
  match c with
  | [] => []
  | (f, v) :: r => f :: v :: print_c r
  end.

Fixpoint parse_v (c : content) : option vcontent :=
  match c with
  | [] => Some []
  | f :: dir :: table :: r =>
      match parse_v r with Some x => Some ((f, (dir, table)) :: x) | None => None end
  | _ => None
  end.

Fixpoint parse_c (c : content) : option ccontent :=
  match c with
  | [] => Some []
  | f :: v :: r => match parse_c r with Some x => Some ((f, v) :: x) | None => None end
  | _ => None
  end.

(* ---------------------------------------------------------------- file effects as store effects *)

Definition image (e : fseffect) : effect :=
  match e with
  | Mkdir s n => EMkdir (dpath s n)
  | Rmdir s n => ERmdir (dpath s n)
  | WriteV s k c => EWrite (vpath s k) (print_v c)
  | RemoveV s k => ERemove (vpath s k)
  | WriteC s k c => EWrite (cpath s k) (print_c c)
  | RemoveC s k => ERemove (cpath s k)
  end.

Definition images (es : list fseffect) : list effect := map image es.

(* names that can be path components; a product directory must not look like a temporary file *)
Definition seg_ok (x : str) : bool := negb (mem_ascii c_slash x).
Definition segs_ok (s : str) (k : key) : bool := seg_ok s && seg_ok (fst k) && seg_ok (snd k).
Definition key_ok (s : str) (k : key) : bool := segs_ok s k && negb (is_tmp (fst k)).

Definition eff_ok (e : fseffect) : bool :=
  match e with
  | Mkdir s n | Rmdir s n => seg_ok s && seg_ok n && negb (is_tmp n)
  | WriteV s k _ | RemoveV s k | WriteC s k _ | RemoveC s k => key_ok s k
  end.

Definition op_version (o : op) : option str :=
  match o with Declare _ _ v _ _ _ | AssignTag _ _ _ v => Some v | _ => None end.
Definition op_tag (o : op) : option str :=
  match o with Declare _ _ _ _ _ t => t | AssignTag _ t _ _ => Some t | _ => None end.
Definition opt_ok (x : option str) : bool := match x with Some y => seg_ok y | None => true end.

(* the names a command can put into a new record: product, version, tag *)
Definition op_ok (o : op) : bool :=
  seg_ok (op_name o) && negb (is_tmp (op_name o)) && opt_ok (op_version o) && opt_ok (op_tag o).

(* the file effects of a whole history, and the store they build from nothing *)
Definition op_effects (d : db) (o : op) : list fseffect :=
  match effects d o with Ok es => es | Err _ => [] end.

Fixpoint run_effects (d : db) (ops : list op) : list fseffect :=
  match ops with
  | [] => []
  | o :: r => op_effects d o ++ run_effects (step_total false d o) r
  end.

Definition store_of (path : list str) (ops : list op) : fs :=
  apply_effects [] (images (run_effects (empty_db path) ops)).

(* ---------------------------------------------------------------- the reader *)

Inductive entry :=
| EntDir (s n : str)
| EntV (s : str) (k : key)
| EntC (s : str) (k : key).

Definition strip_suffix (suf x : str) : option str :=
  if ends_with suf x then Some (firstn (length x - length suf) x) else None.

(* what a name in the store is, if anything: versionFileRe / tagFileRe under <stack>/ups_db/<product> *)
Definition classify (p : path) : option entry :=
  match split_on c_slash p with
  | [s; u; n] => if str_eqb u ups_db then Some (EntDir s n) else None
  | [s; u; n; file] =>
      if str_eqb u ups_db then
        match strip_suffix version_suffix file with
        | Some v => Some (EntV s (n, v))
        | None => match strip_suffix chain_suffix file with
                  | Some t => Some (EntC s (n, t))
                  | None => None
                  end
        end
      else None
  | _ => None
  end.

Definition fs_vfile (f : fs) (s : str) (k : key) : option vcontent :=
  match alookup (vpath s k) f with Some (File c) => parse_v c | _ => None end.
Definition fs_cfile (f : fs) (s : str) (k : key) : option ccontent :=
  match alookup (cpath s k) f with Some (File c) => parse_c c | _ => None end.
Definition fs_has_dir (f : fs) (s n : str) : bool :=
  match alookup (dpath s n) f with Some Dir => true | _ => false end.

(* candidates come from the listing, the value from opening the file by its name *)
Definition read_stack (f : fs) (s : str) : stack :=
  mkStack
    (flat_map (fun q => match classify q with
                        | Some (EntV s' k) =>
                            if str_eqb s' s then match fs_vfile f s k with Some c => [(k, c)] | None => [] end else []
                        | _ => []
                        end) (akeys f))
    (flat_map (fun q => match classify q with
                        | Some (EntC s' k) =>
                            if str_eqb s' s then match fs_cfile f s k with Some c => [(k, c)] | None => [] end else []
                        | _ => []
                        end) (akeys f))
    (flat_map (fun q => match classify q with
                        | Some (EntDir s' n) => if str_eqb s' s && fs_has_dir f s n then [n] else []
                        | _ => []
                        end) (akeys f)).

Definition read_raw (path : list str) (f : fs) : db := map (fun s => (s, read_stack f s)) path.

(* a record of a stack on the path that does not parse makes the reader raise *)
Definition record_ok (path : list str) (f : fs) (q : Crash.path) : bool :=
  match classify q with
  | Some (EntV s _) =>
      if mem_str s path then match alookup q f with Some (File c) => is_some (parse_v c) | _ => true end else true
  | Some (EntC s _) =>
      if mem_str s path then match alookup q f with Some (File c) => is_some (parse_c c) | _ => true end else true
  | _ => true
  end.

Definition read_db (path : list str) (f : fs) : res db :=
  if forallb (record_ok path f) (akeys f) then Ok (read_raw path f) else Err Crash.

(* the store a crash after k system calls of the repaired protocol leaves, and the in-place one *)
Definition crash_fs (f : fs) (es : list fseffect) (k : nat) : fs := crash_state lower_atomic f (images es) k.
Definition crash_fs_inplace (f : fs) (es : list fseffect) (k : nat) : fs := crash_state lower_inplace f (images es) k.
