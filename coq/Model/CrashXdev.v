(* C08 - the write-temporary-then-install helper (utils.AtomicFile, used by ProductStack.persist for
   the product cache every mutating command rewrites last) when the temporary file and the target
   may lie on different file systems.

   The helper writes the whole content to a temporary file, closes it, then installs it under the
   target name.  Where the temporary file lives decides what the installation is:
     SameFs   (the temporary is created beside the target: same mount)  one rename(2);
     OtherFs  (the temporary is created where TMPDIR says, on another mount)  rename fails with
              EXDEV, and an installer that falls back to copying (shutil.move) opens the target
              with truncation, copies the data, closes it and unlinks the temporary.
   The cache is one more whole-content record of the store: its lines are abstract (pickle), the
   loader (pickle.load in ProductStack.reload) raises on an empty or cut-short file.
   Executable definitions only. *)
From Eupsv Require Import Base.Base Model.Crash.

Inductive tmp_place := SameFs | OtherFs.

(* the system calls that put the finished temporary file t under the name p *)
Definition install (pl : tmp_place) (t p : path) (c : content) : list syscall :=
  match pl with
  | SameFs => [SRename t p]
  | OtherFs => SOpenTrunc p :: map (SAppend p) c ++ [SClose p; SUnlink t]
  end.

Definition lower_atomic_at (pl : tmp_place) (e : effect) : list syscall :=
  match e with
  | EWrite p c => SOpenTrunc (tmp_of p) :: map (SAppend (tmp_of p)) c ++ SClose (tmp_of p) :: install pl (tmp_of p) p c
  | ERemove p => [SUnlink p]
  | EMkdir p => [SMkdir p]
  | ERmdir p => [SRmdir p]
  end.

(* the system calls of an effect that act on a name that is not a temporary one, by kind: what a
   trace of the real helper shows on the target *)
Inductive sys_kind := KOpen | KWrite | KClose | KRename | KUnlink | KMkdir | KRmdir.

Definition sys_target (s : syscall) : path * sys_kind :=
  match s with
  | SOpenTrunc p => (p, KOpen)
  | SAppend p _ => (p, KWrite)
  | SClose p => (p, KClose)
  | SRename _ p => (p, KRename)
  | SUnlink p => (p, KUnlink)
  | SMkdir p => (p, KMkdir)
  | SRmdir p => (p, KRmdir)
  end.

Definition target_kinds (pl : tmp_place) (e : effect) : list sys_kind :=
  map snd (filter (fun x => negb (is_tmp (fst x))) (map sys_target (lower_atomic_at pl e))).

(* the loader of the cache (pickle.load in ProductStack.reload): an absent file means rebuild from the records,
   an empty one - what a truncating open leaves - makes it raise (EOFError); content is otherwise abstract *)
Definition load_cache (n : option node) : res content :=
  match n with
  | Some (File []) => Err Crash
  | Some (File c) => Ok c
  | _ => Err NotFound
  end.
