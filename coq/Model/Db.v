(* Model of the eups product database (C06; reused by C07 C08 C14 C15).

   Code followed: Eups.declare / undeclare / assignTag / unassignTag / remove (Eups.py),
   Database.declare / undeclare / assignTag / unassignTag / findTags (db/Database.py),
   VersionFile.addFlavor / removeFlavor / write, ChainFile.setVersion / removeVersion / write.

   Three layers, kept apart on purpose:

   1. records on disk:  [db] = stacks in EUPS_PATH order, each with its version files
      (one block per flavor), chain files (flavor -> version) and product directories;
      primitive [fseffect]s and [apply].
   2. what a reader sees:  [view : db -> adb] (declarations and tag assignments, i.e. what
      Database.findProducts and getTagAssignments return) and [listing] (directory listing).
      Every *decision* the commands take is taken on this view ([decide]): the real code
      reads through findProduct / findProducts / findTaggedProduct, never the raw files.
      [decide] yields record-level actions [aact] (one per Database.* call).
   3. [compile] turns one action into the ordered primitive effects that Database.* performs
      on the files as they are at that moment (read whole file, modify, write whole file;
      an empty file is removed; undeclare removes the tags before the version block and
      tries to rmdir the product directory last).

   [effects db op] = compile (decide (view db) op);  [step] = apply the effects.
   The abstract specification is [astep]: the same decisions, each action applied to the
   view by a one-line map update ([aapply]).

   The flag [pinned] selects how Eups.declare moves a tag: [true] = the pinned tree (every
   old occurrence is unassigned, then the tag is assigned -- defect D20 -- and the occurrences
   come from findProducts de-duplicated by utils.uniq on (name, version, flavor), defect D14),
   [false] = the repaired code (assign first, one rewrite of the chain file; then unassign in
   the other stacks, looked up per stack).

   Executable definitions only. *)
From Eupsv Require Import Base.Base.

(* ---------------------------------------------------------------- generic assoc lists *)

Fixpoint glookup {K V} (eqb : K -> K -> bool) (k : K) (m : list (K * V)) : option V :=
  match m with
  | [] => None
  | (k', v) :: m' => if eqb k k' then Some v else glookup eqb k m'
  end.

(* python dict assignment: an existing key keeps its position, a new key goes last *)
Fixpoint gset {K V} (eqb : K -> K -> bool) (k : K) (v : V) (m : list (K * V)) : list (K * V) :=
  match m with
  | [] => [(k, v)]
  | (k', v') :: m' => if eqb k k' then (k, v) :: m' else (k', v') :: gset eqb k v m'
  end.

Fixpoint gremove {K V} (eqb : K -> K -> bool) (k : K) (m : list (K * V)) : list (K * V) :=
  match m with
  | [] => []
  | (k', v') :: m' => if eqb k k' then gremove eqb k m' else (k', v') :: gremove eqb k m'
  end.

Definition gfilterk {K V} (p : K -> bool) (m : list (K * V)) : list (K * V) :=
  filter (fun kv => p (fst kv)) m.

Definition is_some {A} (o : option A) : bool := match o with Some _ => true | None => false end.
Definition is_nil {A} (l : list A) : bool := match l with [] => true | _ => false end.

Definition opt_str_eqb (a : option str) (b : str) : bool :=
  match a with Some x => str_eqb x b | None => false end.

(* ---------------------------------------------------------------- records on disk *)

(* (product, version) names a version file, (product, tag) a chain file *)
Definition key := (str * str)%type.
Definition key_eqb (a b : key) : bool := str_eqb (fst a) (fst b) && str_eqb (snd a) (snd b).

(* what a flavor block of a version file says: product directory and table file *)
Definition vrec := (str * str)%type.
Definition vrec_eqb (a b : vrec) : bool := str_eqb (fst a) (fst b) && str_eqb (snd a) (snd b).

Definition vcontent := amap vrec.   (* flavor -> block, in file order *)
Definition ccontent := amap str.    (* flavor -> tagged version, in file order *)

Record stack := mkStack {
  vfiles : list (key * vcontent);   (* ups_db/<product>/<version>.version *)
  cfiles : list (key * ccontent);   (* ups_db/<product>/<tag>.chain *)
  dirs   : list str                 (* ups_db/<product>/ *)
}.

Definition db := amap stack.        (* stack id -> stack, in EUPS_PATH order *)

Definition empty_stack : stack := mkStack [] [] [].
Definition empty_db (path : list str) : db := map (fun s => (s, empty_stack)) path.

Inductive fseffect :=
| Mkdir   (s n : str)                          (* os.makedirs(ups_db/n) *)
| Rmdir   (s n : str)                          (* os.rmdir(ups_db/n); failure on a non-empty directory is swallowed *)
| WriteV  (s : str) (k : key) (c : vcontent)   (* VersionFile.write with at least one flavor *)
| RemoveV (s : str) (k : key)                  (* VersionFile.write with no flavor left: os.remove *)
| WriteC  (s : str) (k : key) (c : ccontent)   (* ChainFile.write with at least one flavor *)
| RemoveC (s : str) (k : key).                 (* ChainFile.write with no flavor left: os.remove *)

Definition eff_stack (e : fseffect) : str :=
  match e with
  | Mkdir s _ | Rmdir s _ | WriteV s _ _ | RemoveV s _ | WriteC s _ _ | RemoveC s _ => s
  end.

Definition has_files (n : str) (st : stack) : bool :=
  existsb (fun kv : key * vcontent => str_eqb (fst (fst kv)) n) (vfiles st) ||
  existsb (fun kv : key * ccontent => str_eqb (fst (fst kv)) n) (cfiles st).

Definition apply_stack (e : fseffect) (st : stack) : stack :=
  match e with
  | Mkdir _ n => if mem_str n (dirs st) then st else mkStack (vfiles st) (cfiles st) (dirs st ++ [n])
  | Rmdir _ n => if has_files n st then st else mkStack (vfiles st) (cfiles st) (remove_str n (dirs st))
  | WriteV _ k c => mkStack (gset key_eqb k c (vfiles st)) (cfiles st) (dirs st)
  | RemoveV _ k => mkStack (gremove key_eqb k (vfiles st)) (cfiles st) (dirs st)
  | WriteC _ k c => mkStack (vfiles st) (gset key_eqb k c (cfiles st)) (dirs st)
  | RemoveC _ k => mkStack (vfiles st) (gremove key_eqb k (cfiles st)) (dirs st)
  end.

Definition apply1 (e : fseffect) (d : db) : db :=
  map (fun p : str * stack =>
         if str_eqb (fst p) (eff_stack e) then (fst p, apply_stack e (snd p)) else p) d.

Definition apply (es : list fseffect) (d : db) : db := fold_left (fun d e => apply1 e d) es d.

(* reading single records *)
Definition db_vfile (d : db) (s : str) (k : key) : option vcontent :=
  match alookup s d with Some st => glookup key_eqb k (vfiles st) | None => None end.
Definition db_cfile (d : db) (s : str) (k : key) : option ccontent :=
  match alookup s d with Some st => glookup key_eqb k (cfiles st) | None => None end.
Definition db_decl (d : db) (s n v f : str) : option vrec :=
  match db_vfile d s (n, v) with Some c => alookup f c | None => None end.
Definition db_tag (d : db) (s n t f : str) : option str :=
  match db_cfile d s (n, t) with Some c => alookup f c | None => None end.
Definition db_has_dir (d : db) (s n : str) : bool :=
  match alookup s d with Some st => mem_str n (dirs st) | None => false end.

(* ---------------------------------------------------------------- the reader's view *)

(* (stack, product, version-or-tag, flavor) *)
Definition dkey := (str * str * str * str)%type.
Definition dkey_eqb (a b : dkey) : bool :=
  let '(s, n, v, f) := a in
  let '(s', n', v', f') := b in
  str_eqb s s' && str_eqb n n' && str_eqb v v' && str_eqb f f'.

Record adb := mkAdb {
  apath  : list str;              (* EUPS_PATH *)
  adecls : list (dkey * vrec);    (* (stack, product, version, flavor) -> directory, table *)
  atags  : list (dkey * str)      (* (stack, product, tag, flavor) -> version *)
}.

(* candidates come from the file names and blocks, the value from the record lookup, so
   that a lookup in the view always equals the record lookup *)
Definition view_decls (d : db) : list (dkey * vrec) :=
  flat_map (fun p : str * stack =>
    flat_map (fun kv : key * vcontent =>
      flat_map (fun fr : str * vrec =>
        match db_decl d (fst p) (fst (fst kv)) (snd (fst kv)) (fst fr) with
        | Some r => [((fst p, fst (fst kv), snd (fst kv), fst fr), r)]
        | None => []
        end) (snd kv)) (vfiles (snd p))) d.

Definition view_tags (d : db) : list (dkey * str) :=
  flat_map (fun p : str * stack =>
    flat_map (fun kv : key * ccontent =>
      flat_map (fun fv : str * str =>
        match db_tag d (fst p) (fst (fst kv)) (snd (fst kv)) (fst fv) with
        | Some v => [((fst p, fst (fst kv), snd (fst kv), fst fv), v)]
        | None => []
        end) (snd kv)) (cfiles (snd p))) d.

Definition view (d : db) : adb := mkAdb (map fst d) (view_decls d) (view_tags d).

(* directory listing of every ups_db: product directories, version files, chain files *)
Definition listing (d : db) : list (str * (list str * list key * list key)) :=
  map (fun p : str * stack => (fst p, (dirs (snd p), map fst (vfiles (snd p)), map fst (cfiles (snd p))))) d.

(* ---------------------------------------------------------------- queries on the view *)

Definition a_decl (a : adb) (s n v f : str) : option vrec := glookup dkey_eqb (s, n, v, f) (adecls a).
Definition a_tag (a : adb) (s n t f : str) : option str := glookup dkey_eqb (s, n, t, f) (atags a).

Definition generic : str := lit "generic".
Definition current : str := lit "current".

(* utils.Flavor().getFallbackFlavors(flavor, True) with the shipped hooks.config.Eups.fallbackFlavors *)
Definition fallbacks (f : str) : list str := [f; generic].

Definition roots_of (a : adb) (so : option str) : list str :=
  match so with Some s => [s] | None => apath a end.

(* Eups.findProduct(name, version, roots, flavor) for an explicit version: first stack that has it *)
Fixpoint find_exact (a : adb) (roots : list str) (n v f : str) : option (str * vrec) :=
  match roots with
  | [] => None
  | s :: r => match a_decl a s n v f with
              | Some x => Some (s, x)
              | None => find_exact a r n v f
              end
  end.

(* Eups.findProduct(name, Tag, roots, flavor): first stack where the tag is assigned for the
   flavor to a version that is declared there *)
Fixpoint find_tagged (a : adb) (roots : list str) (n t f : str) : option (str * str) :=
  match roots with
  | [] => None
  | s :: r => match a_tag a s n t f with
              | Some v => if is_some (a_decl a s n v f) then Some (s, v) else find_tagged a r n t f
              | None => find_tagged a r n t f
              end
  end.

(* (version, flavor) of the declarations of product n in the given stacks and flavors: what
   Eups.findProducts(n, eupsPathDirs=roots) holds before utils.uniq (order immaterial for its
   two uses: emptiness and exactly-one) *)
Definition decl_versions (a : adb) (roots fls : list str) (n : str) : list (str * str) :=
  flat_map (fun e : dkey * vrec =>
    let '(s, n', v, f) := fst e in
    if str_eqb n' n && mem_str s roots && mem_str f fls && is_some (a_decl a s n' v f)
    then [(v, f)] else []) (adecls a).

Definition findable (a : adb) (n : str) (fls : list str) : bool :=
  negb (is_nil (decl_versions a (apath a) fls n)).

Inductive count3 := Zero | One (x : str * str) | Many.

Definition vf_eqb (x y : str * str) : bool := str_eqb (fst x) (fst y) && str_eqb (snd x) (snd y).

(* len(utils.uniq(l)): 0, 1 (and the element), more *)
Definition classify (l : list (str * str)) : count3 :=
  match l with
  | [] => Zero
  | x :: r => if forallb (vf_eqb x) r then One x else Many
  end.

(* the stack's cache has a ProductFamily for n under flavor fl *)
Definition has_family (a : adb) (r n fl : str) : bool :=
  existsb (fun e : dkey * vrec =>
    let '(s, n', v, f) := fst e in
    str_eqb s r && str_eqb n' n && str_eqb f fl && is_some (a_decl a s n' v f)) (adecls a).

Definition tagged_here (a : adb) (r n t fl : str) : list (str * str * str) :=
  match a_tag a r n t fl with
  | Some v => if is_some (a_decl a r n v fl) then [(r, v, fl)] else []
  | None => []
  end.

(* Eups.findProducts(n, None, [t], roots) before utils.uniq, as (stack, version, flavor): for
   every stack and every flavor of the fallback list under which the product has a family,
   first findTaggedProduct(n, t) -- searched on the whole path for the invoking flavor,
   whatever stack and flavor the loop is at -- then the version of this stack and flavor
   that carries the tag *)
Definition find_tagged_raw (a : adb) (roots : list str) (n t f : str) : list (str * str * str) :=
  flat_map (fun r =>
    flat_map (fun fl =>
      if has_family a r n fl then
        (match find_tagged a (apath a) n t f with Some (s0, v0) => [(s0, v0, f)] | None => [] end)
        ++ tagged_here a r n t fl
      else []) (fallbacks f)) roots.

Definition same_vf (x y : str * str * str) : bool :=
  str_eqb (snd (fst x)) (snd (fst y)) && str_eqb (snd x) (snd y).

(* utils.uniq with Product.__eq__ = (name, version, flavor): the stack is not compared *)
Fixpoint uniq_vf (l : list (str * str * str)) : list (str * str * str) :=
  match l with
  | [] => []
  | x :: r => x :: filter (fun y => negb (same_vf x y)) (uniq_vf r)
  end.

Definition find_tagged_all (a : adb) (roots : list str) (n t f : str) : list (str * str * str) :=
  uniq_vf (find_tagged_raw a roots n t f).

(* ---------------------------------------------------------------- record-level actions *)

Inductive aact :=
| ASetDecl (s n v f : str) (r : vrec)   (* Database.declare (without its tags) *)
| ADelDecl (s n v f : str)              (* Database.undeclare *)
| ASetTag  (s n t f v : str)            (* Database.assignTag for one flavor *)
| ADelTag  (s n t f : str).             (* Database.unassignTag for one flavor *)

(* the one-line transitions of the abstract specification *)
Definition tag_points (a : adb) (s n f v : str) (k : dkey) : bool :=
  let '(s', n', t', f') := k in
  str_eqb s' s && str_eqb n' n && str_eqb f' f && opt_str_eqb (a_tag a s' n' t' f') v.

Definition aapply (x : aact) (a : adb) : adb :=
  match x with
  | ASetDecl s n v f r =>
      if mem_str s (apath a) then mkAdb (apath a) (gset dkey_eqb (s, n, v, f) r (adecls a)) (atags a) else a
  | ASetTag s n t f v =>
      if mem_str s (apath a) then mkAdb (apath a) (adecls a) (gset dkey_eqb (s, n, t, f) v (atags a)) else a
  | ADelTag s n t f => mkAdb (apath a) (adecls a) (gremove dkey_eqb (s, n, t, f) (atags a))
  | ADelDecl s n v f =>
      if is_some (a_decl a s n v f)
      then mkAdb (apath a) (gremove dkey_eqb (s, n, v, f) (adecls a))
                 (gfilterk (fun k => negb (tag_points a s n f v k)) (atags a))
      else a
  end.

Definition aapply_all (xs : list aact) (a : adb) : adb := fold_left (fun a x => aapply x a) xs a.

(* ---------------------------------------------------------------- operations *)

Record opts := mkOpts {
  o_flavor   : str;          (* flavor of the invoking Eups instance *)
  o_stack    : option str;   (* eupsPathDir argument (-Z); None = search / default *)
  o_force    : bool;
  o_noaction : bool
}.

Inductive op :=
| Declare      (o : opts) (n v : str) (dir table t : option str)   (* Eups.declare(n, v, dir, stack, table, tag) *)
| AssignTag    (o : opts) (t n v : str)                            (* Eups.assignTag(t, n, v, stack) *)
| UnassignTag  (o : opts) (t n : str) (v : option str)             (* Eups.unassignTag(t, n, v, stack) *)
| Undeclare    (o : opts) (n : str) (v : option str)               (* Eups.undeclare(n, v, stack) *)
| UndeclareTag (o : opts) (n : str) (v : option str) (t : str) (both : bool)
                                                                   (* Eups.undeclare(n, v, stack, tag=t, undeclareVersionAndTag=both) *)
| Remove       (o : opts) (n v : str).                             (* Eups.remove(n, v): the database part *)

Definition op_opts (x : op) : opts :=
  match x with
  | Declare o _ _ _ _ _ | AssignTag o _ _ _ | UnassignTag o _ _ _ | Undeclare o _ _
  | UndeclareTag o _ _ _ _ | Remove o _ _ => o
  end.

Definition op_name (x : op) : str :=
  match x with
  | Declare _ n _ _ _ _ | AssignTag _ _ n _ | UnassignTag _ _ n _ | Undeclare _ n _
  | UndeclareTag _ n _ _ _ | Remove _ n _ => n
  end.

(* productDir/ups/product.table, the default table file *)
Definition default_table (dir n : str) : str := dir ++ lit "/ups/" ++ n ++ lit ".table".

Fixpoint first_some {A} (l : list (option A)) : option A :=
  match l with
  | [] => None
  | Some x :: _ => Some x
  | None :: r => first_some r
  end.

(* old occurrences of tag t of product n that Eups.declare unassigned before assigning (the order
   of the tree before the repair of D20, see declare_finish_old) *)
Definition occurrences (pinned : bool) (a : adb) (n t f : str) : list str :=
  if pinned then map (fun x : str * str * str => fst (fst x)) (find_tagged_all a (apath a) n t f)
  else filter (fun r => is_some (find_tagged a [r] n t f)) (apath a).

(* what Eups.declare settles on before it touches anything: directory, table file, target
   stack, tag to assign (given, or current for the first findable version), and whether the
   declaration itself is (re)written *)
Record dplan := mkPlan {
  dp_dir : str; dp_table : str; dp_target : str; dp_tag : option str; dp_write : bool
}.

Definition declare_plan (a : adb) (o : opts) (n v : str) (dir table t : option str) : res dplan :=
  let f := o_flavor o in
  (* with a tag and without directory or table: complete them from the existing declaration *)
  let info :=
    match t with
    | None => None
    | Some _ =>
        match dir, table with
        | Some _, Some _ => None
        | _, _ => first_some (map (fun fl => find_exact a (roots_of a (o_stack o)) n v fl) (fallbacks f))
        end
    end in
  let dir1 :=
    match dir with
    | Some d => Some d
    | None => match info with Some (_, r) => Some (fst r) | None => None end
    end in
  match dir1 with
  | None => Err Refused                     (* Please specify a productDir *)
  | Some d =>
    let table1 :=
      match table with
      | Some x => Some x
      | None => match info with
                | Some (_, r) => if str_eqb d (fst r) then Some (snd r) else None
                | None => None
                end
      end in
    let tb := match table1 with Some x => x | None => default_table d n end in
    let target := match o_stack o with Some s => Some s | None => hd_error (apath a) end in
    match target with
    | None => Err Refused                   (* no writable stack *)
    | Some tg =>
      if negb (mem_str tg (apath a)) then Err Refused else
      (* first version of the product that can be found: declare it current *)
      let t1 := match t with
                | Some x => Some x
                | None => if findable a n (fallbacks f) then None else Some current
                end in
      (* redeclaration check *)
      match a_decl a tg n v f with
      | Some r' =>
          if o_force o then Ok (mkPlan d tb tg t1 true)
          else if vrec_eqb (d, tb) r' then Ok (mkPlan d tb tg t1 false)
          else match t1 with
               | Some _ => Ok (mkPlan d tb tg t1 false)     (* I will only declare the tag *)
               | None => Err Refused                        (* specify force to proceed *)
               end
      | None => Ok (mkPlan d tb tg t1 true)
      end
    end
  end.

(* the first part of a declaration: Database.declare writes the record, and the tag the product
   carries into the chain file of the target stack *)
Definition declare_acts1 (f n v : str) (p : dplan) : list aact :=
  if dp_write p
  then ASetDecl (dp_target p) n v f (dp_dir p, dp_table p) ::
       match dp_tag p with Some x => [ASetTag (dp_target p) n x f v] | None => [] end
  else [].

(* the tag move of the tree up to and including the repair of D14: unassign every old
   occurrence, the one in the target stack among them, then assign.  Two rewrites (or a
   removal and a creation) of the target stack's chain file: defect D20 *)
Definition declare_finish_old (pinned : bool) (a : adb) (f n v : str) (p : dplan) : res (list aact) :=
  let tg := dp_target p in
  let acts1 := declare_acts1 f n v p in
  match dp_tag p with
  | None => Ok acts1
  | Some x =>
      let a1 := aapply_all acts1 a in
      let acts2 := map (fun r => ADelTag r n x f) (occurrences pinned a1 n x f) in
      let a2 := aapply_all acts2 a1 in
      (* eupsDirs = [eupsPathDirForRead, eupsPathDir]; both are the target here *)
      match find_exact a2 [tg; tg] n v f with
      | Some (s', _) => Ok (acts1 ++ acts2 ++ [ASetTag s' n x f v])
      | None => Err NotFound
      end
  end.

(* the other stacks in which Eups.declare finds the tag after it has assigned it in stack s0:
   for root in self.path: if root != taggedRoot and self.findTaggedProduct(n, t, root) is not None *)
Definition other_occurrences (a : adb) (s0 n t f : str) : list str :=
  filter (fun r => negb (str_eqb r s0) && is_some (find_tagged a [r] n t f)) (apath a).

(* the repaired tag move: Eups.assignTag first (Database.assignTag replaces the flavor's entry of
   the chain file in one rewrite) and returns the stack it wrote to; then the tag is unassigned in
   every other stack of the path that has it, looked up after the assignment *)
Definition declare_finish_new (a : adb) (f n v : str) (p : dplan) : res (list aact) :=
  let tg := dp_target p in
  let acts1 := declare_acts1 f n v p in
  match dp_tag p with
  | None => Ok acts1
  | Some x =>
      let a1 := aapply_all acts1 a in
      (* eupsDirs = [eupsPathDirForRead, eupsPathDir]; both are the target here *)
      match find_exact a1 [tg; tg] n v f with
      | Some (s', _) =>
          let a2 := aapply (ASetTag s' n x f v) a1 in
          Ok (acts1 ++ ASetTag s' n x f v :: map (fun r => ADelTag r n x f) (other_occurrences a2 s' n x f))
      | None => Err NotFound
      end
  end.

(* [pinned] = the pinned tree (old order, occurrences merged across stacks: D14 and D20);
   otherwise the code as repaired *)
Definition declare_finish (pinned : bool) (a : adb) (f n v : str) (p : dplan) : res (list aact) :=
  if pinned then declare_finish_old true a f n v p else declare_finish_new a f n v p.

Definition declare_acts (pinned : bool) (a : adb) (o : opts) (n v : str) (dir table t : option str)
  : res (list aact) :=
  match declare_plan a o n v dir table t with
  | Err e => Err e
  | Ok p => if o_noaction o then Ok [] else declare_finish pinned a (o_flavor o) n v p
  end.

Definition assign_acts (a : adb) (o : opts) (t n v : str) : res (list aact) :=
  match find_exact a (roots_of a (o_stack o)) n v (o_flavor o) with
  | Some (s', _) => Ok [ASetTag s' n t (o_flavor o) v]     (* Eups.assignTag does not look at noaction *)
  | None => Err NotFound
  end.

Definition unassign_acts (a : adb) (o : opts) (t n : str) (vo : option str) : res (list aact) :=
  let f := o_flavor o in
  match vo with
  | Some v =>
      match find_exact a (roots_of a (o_stack o)) n v f with
      | None => Err NotFound
      | Some (s', _) =>
          if opt_str_eqb (a_tag a s' n t f) v
          then (if o_noaction o then Ok [] else Ok [ADelTag s' n t f])
          else Ok []                        (* Product is not tagged: message only *)
      end
  | None =>
      match o_stack o with
      | None =>
          match find_tagged a (apath a) n t f with
          | Some (s', _) => if o_noaction o then Ok [] else Ok [ADelTag s' n t f]
          | None =>
              (* findProduct(n, None): the preferred tags after selectVRO reduce to current *)
              match find_tagged a (apath a) n current f with
              | Some _ => Ok []             (* Tag is not assigned: message only *)
              | None => Err NotFound
              end
          end
      | Some s => if o_noaction o then Ok [] else Ok [ADelTag s n t f]
      end
  end.

(* version and stack that Eups.undeclare settles on *)
Definition undeclare_target (a : adb) (o : opts) (n : str) (vo : option str) : res (str * str) :=
  let f := o_flavor o in
  let roots := roots_of a (o_stack o) in
  let rv := match vo with
            | Some v => Ok v
            | None => match classify (decl_versions a roots (fallbacks f) n) with
                      | Zero => Err NotFound
                      | Many => Err Refused      (* please choose one and try again *)
                      | One x => Ok (fst x)
                      end
            end in
  match rv with
  | Err e => Err e
  | Ok v => match find_exact a roots n v f with
            | Some (s', _) => Ok (s', v)
            | None => Err NotFound
            end
  end.

Definition undeclare_acts (a : adb) (o : opts) (n : str) (vo : option str) : res (list aact) :=
  match undeclare_target a o n vo with
  | Err e => Err e
  | Ok (s', v) => if o_noaction o then Ok [] else Ok [ADelDecl s' n v (o_flavor o)]
  end.

Definition undeclare_tag_acts (a : adb) (o : opts) (n : str) (vo : option str) (t : str) (both : bool)
  : res (list aact) :=
  let f := o_flavor o in
  if negb both then unassign_acts a o t n vo else
  let vo1 := match vo with
             | Some v => Some v
             | None => match find_tagged_all a (roots_of a (o_stack o)) n t f with
                       | [x] => Some (snd (fst x))
                       | _ => None
                       end
             end in
  match undeclare_target a o n vo1 with
  | Err e => Err e
  | Ok (s', v) =>
      if o_noaction o then Ok [] else
      Ok ((if opt_str_eqb (a_tag a s' n t f) v then [ADelTag s' n t f] else []) ++ [ADelDecl s' n v f])
  end.

Definition remove_acts (a : adb) (o : opts) (n v : str) : res (list aact) :=
  match find_exact a (apath a) n v (o_flavor o) with
  | None => Err NotFound
  | Some _ => undeclare_acts a (mkOpts (o_flavor o) None (o_force o) (o_noaction o)) n (Some v)
  end.

Definition decide (pinned : bool) (a : adb) (x : op) : res (list aact) :=
  match x with
  | Declare o n v dir table t => declare_acts pinned a o n v dir table t
  | AssignTag o t n v => assign_acts a o t n v
  | UnassignTag o t n vo => unassign_acts a o t n vo
  | Undeclare o n vo => undeclare_acts a o n vo
  | UndeclareTag o n vo t both => undeclare_tag_acts a o n vo t both
  | Remove o n v => remove_acts a o n v
  end.

(* ---------------------------------------------------------------- actions as file effects *)

Definition write_or_remove_v (s : str) (k : key) (c : vcontent) : fseffect :=
  if is_nil c then RemoveV s k else WriteV s k c.
Definition write_or_remove_c (s : str) (k : key) (c : ccontent) : fseffect :=
  if is_nil c then RemoveC s k else WriteC s k c.

(* Database.unassignTag(t, n, f) *)
Definition untag_effects (d : db) (s n t f : str) : list fseffect :=
  match db_cfile d s (n, t) with
  | None => []
  | Some c => if amem f c then [write_or_remove_c s (n, t) (aremove f c)] else []
  end.

(* Database.findTags(n, v, f): the chain files of the product whose entry for f is v
   (os.listdir order in the code; chain-file order here; a directory lists a file once) *)
Definition tags_on (d : db) (s n v f : str) : list str :=
  match alookup s d with
  | None => []
  | Some st =>
      uniq (flat_map (fun kv : key * ccontent =>
        if str_eqb (fst (fst kv)) n && opt_str_eqb (db_tag d s n (snd (fst kv)) f) v
        then [snd (fst kv)] else []) (cfiles st))
  end.

Definition compile (d : db) (x : aact) : list fseffect :=
  match x with
  | ASetDecl s n v f r =>
      let old := match db_vfile d s (n, v) with Some c => c | None => [] end in
      (if db_has_dir d s n then [] else [Mkdir s n]) ++ [WriteV s (n, v) (aset f r old)]
  | ASetTag s n t f v =>
      let old := match db_cfile d s (n, t) with Some c => c | None => [] end in
      [WriteC s (n, t) (aset f v old)]
  | ADelTag s n t f => untag_effects d s n t f
  | ADelDecl s n v f =>
      match db_vfile d s (n, v) with
      | None => []
      | Some c =>
          if amem f c then
            flat_map (fun t => untag_effects d s n t f) (tags_on d s n v f)
            ++ (let c' := aremove f c in
                if is_nil c' then [RemoveV s (n, v); Rmdir s n] else [WriteV s (n, v) c'])
          else []
      end
  end.

Fixpoint compile_all (d : db) (xs : list aact) : list fseffect :=
  match xs with
  | [] => []
  | x :: r => let es := compile d x in es ++ compile_all (apply es d) r
  end.

(* ---------------------------------------------------------------- the commands *)

Definition effects_gen (pinned : bool) (d : db) (x : op) : res (list fseffect) :=
  match decide pinned (view d) x with
  | Ok acts => Ok (compile_all d acts)
  | Err e => Err e
  end.

Definition step_gen (pinned : bool) (d : db) (x : op) : res db :=
  match effects_gen pinned d x with
  | Ok es => Ok (apply es d)
  | Err e => Err e
  end.

(* the repaired code: tag move by assign-first, old occurrences collected per stack *)
Definition effects := effects_gen false.
Definition step := step_gen false.
(* the pinned tree *)
Definition effects_pinned := effects_gen true.
Definition step_pinned := step_gen true.

(* a command that raises leaves the database as it was; the history goes on *)
Definition step_total (pinned : bool) (d : db) (x : op) : db :=
  match step_gen pinned d x with Ok d' => d' | Err _ => d end.

Definition run (pinned : bool) (d : db) (xs : list op) : db := fold_left (step_total pinned) xs d.

(* ---------------------------------------------------------------- the abstract specification *)

Definition astep_gen (pinned : bool) (a : adb) (x : op) : res adb :=
  match decide pinned a x with
  | Ok acts => Ok (aapply_all acts a)
  | Err e => Err e
  end.

Definition astep := astep_gen false.

Definition astep_total (pinned : bool) (a : adb) (x : op) : adb :=
  match astep_gen pinned a x with Ok a' => a' | Err _ => a end.

Definition arun (pinned : bool) (a : adb) (xs : list op) : adb := fold_left (astep_total pinned) xs a.
