(* Extension of the database model (C06): what Eups.declare does with the table file and the
   target stack, layered on Model/Db.v without touching it.

   New with respect to Db.v:

   - table files have TEXT.  The redeclaration check of Eups.declare compares the new table file
     with the recorded one by content (filecmp), not by name: a redeclaration under another path
     with the same text is -no difference-, a table file -none- against a recorded real file is a
     difference, a recorded -none- (or unreadable file) against a real file is a difference.
   - the table file may be given as a stream (interned): the text is copied, every line followed
     by a blank (print(line, end=' ')), to <stack>/ups_db/<flavor>/<product>/<version>/ups/
     <product>.table, and the record names that copy.  External files (-L) are copied below the
     same directory.
     A table path below the extra directory of the declaration is the interned one
     again.  The copies are compared by content when the version is redeclared without force.  They are
     written whether or not the record is (the copy loop of Eups.declare runs after the
     declaration proper) and Eups.undeclare leaves them where they are.
   - the target stack: -Z if given (refused when that stack is read-only); otherwise the stack the
     product directory lies in (home stack), falling back to the first writable stack when that
     one is read-only; otherwise the first writable stack of the path.
   - read-only stacks: tag removal addressed to a read-only stack by -Z is refused.

   Scope: a declaration read from a read-only home stack while the record goes elsewhere (the
   writeableDB redirection of Eups.assignTag) is not modelled, nor is the user data directory that
   the code appends to the path and falls back on when no stack can be written: [Err Undefined].

   Canonical names: stack s is the directory /s, its database /s/ups_db.

   Executable definitions only. *)
From Eupsv Require Import Base.Base Model.Db.

Record env := mkEnv {
  e_ro   : list str;      (* stacks whose directory and ups_db are not writable *)
  e_text : amap str       (* text of the files outside the databases: table files, -L sources *)
}.

(* the files of the databases: records (Db.db) and the copies below ups_db/<flavor>/... *)
Record xdb := mkX {
  xd     : db;
  xfiles : amap str       (* full path below some /s/ups_db -> text *)
}.

Inductive tspec :=
| TDefault                (* tablefile=None: productDir/ups/product.table *)
| TPath (p : str)         (* an absolute path *)
| TNone                   (* tablefile=none *)
| TStream (text : str).   (* an open file: interned *)

Inductive xop :=
| XDeclare (o : opts) (n v : str) (dir : option str) (tb : tspec) (t : option str) (ext : list (str * str))
                          (* ext = externalFileList: (source path, path below the extra directory) *)
| XOld (x : op).          (* every other command, as in Db.v *)

Definition slash : str := lit "/".
Definition none_s : str := lit "none".
Definition stack_dir (s : str) : str := slash ++ s.
Definition ups_db (s : str) : str := slash ++ s ++ lit "/ups_db".
(* utils.extraDirPath below the database of stack s *)
Definition extra_dir (s f n v : str) : str := ups_db s ++ slash ++ f ++ slash ++ n ++ slash ++ v.
Definition interned_table (s f n v : str) : str := extra_dir s f n v ++ lit "/ups/" ++ n ++ lit ".table".

(* utils.isSubpath on normalised absolute paths *)
Definition is_subpath (p root : str) : bool := str_eqb p root || starts_with (root ++ slash) p.

(* utils.isRealFilename on the names that occur here *)
Definition is_real (p : str) : bool := negb (str_eqb p none_s).

(* for line in tfd: print(line, end=' ', file=tmpFd): every line, with its newline if it has one,
   is followed by a blank *)
Fixpoint intern_go (x : str) (pending : bool) : str :=
  match x with
  | [] => if pending then [" "%char] else []
  | c :: r => if ascii_eqb c "010"%char then c :: " "%char :: intern_go r false else c :: intern_go r true
  end.
Definition intern_text (x : str) : str := intern_go x false.

Definition text_at (e : env) (xf : amap str) (p : str) : option str :=
  match alookup p xf with Some t => Some t | None => alookup p (e_text e) end.

Definition opt_text_eqb (a b : option str) : bool :=
  match a, b with Some x, Some y => str_eqb x y | _, _ => false end.

Fixpoint first_writable (ro path : list str) : option str :=
  match path with
  | [] => None
  | s :: r => if mem_str s ro then first_writable ro r else Some s
  end.

Fixpoint home_stack (path : list str) (dir : str) : option str :=
  match path with
  | [] => None
  | s :: r => if is_subpath dir (stack_dir s) then Some s else home_stack r dir
  end.

(* (stack the existing declaration is read from, stack written to) *)
Definition xtarget (e : env) (path : list str) (o : opts) (dir : str) : res (str * str) :=
  match o_stack o with
  | Some s => if mem_str s (e_ro e) then Err Refused          (* Unable to find writable stack *)
              else if mem_str s path then Ok (s, s) else Err Refused
  | None =>
      match home_stack path dir with
      | Some h => if mem_str h (e_ro e)
                  then match first_writable (e_ro e) path with
                       | Some w => Ok (h, w)                  (* h is not writeable; using w *)
                       | None => Err Undefined                (* the user data directory: not modelled *)
                       end
                  else Ok (h, h)
      | None => match first_writable (e_ro e) path with
                | Some w => Ok (w, w)
                | None => Err Undefined
                end
      end
  end.

(* the files of one extra directory *)
Definition under (dirp : str) (xf : amap str) : amap str :=
  filter (fun kv : str * str => starts_with (dirp ++ slash) (fst kv)) xf.

(* what the table argument comes to once the target is known:
   (name recorded, file compared with the old table if any, files to copy as (path below the extra directory, text)) *)
Definition resolve_table (e : env) (xf : amap str) (tg f n : str) (v : str) (d : str) (tb : tspec)
  : res (str * option str * list (str * str)) :=
  let tname := lit "ups/" ++ n ++ lit ".table" in
  match tb with
  | TNone => Ok (none_s, None, [])
  | TStream text => Ok (interned_table tg f n v, None, [(tname, intern_text text)])
  | TDefault =>
      let p := default_table d n in
      if is_some (text_at e xf p) then Ok (p, Some p, []) else Err Refused    (* tablefile does not exist *)
  | TPath p =>
      if is_subpath p (extra_dir tg f n v) then
        (* the interned table of this very declaration again: the files of ups_db/.../ups are kept.
           (The tree before the repair took any path below ups_db for it and recorded a table that
           does not exist when the path was the copy kept with another declaration.) *)
        let pre := extra_dir tg f n v ++ lit "/ups/" in
        Ok (interned_table tg f n v, None,
            map (fun kv : str * str => (lit "ups/" ++ skipn (length pre) (fst kv), snd kv))
                (under (extra_dir tg f n v ++ lit "/ups") xf))
      else if is_some (text_at e xf p) then Ok (p, Some p, []) else Err Refused
  end.

Fixpoint resolve_ext (e : env) (xf : amap str) (ext : list (str * str)) : res (list (str * str)) :=
  match ext with
  | [] => Ok []
  | (src, out) :: r =>
      match text_at e xf src, resolve_ext e xf r with
      | Some t, Ok l => Ok ((out, t) :: l)
      | None, _ => Err Undefined
      | _, Err k => Err k
      end
  end.

(* the differences Eups.declare finds between the request and the declaration (od, otb) that exists *)
Definition table_differs (e : env) (xf : amap str) (tname : str) (full : option str) (otb : str) : bool :=
  match full with
  | Some p => negb (str_eqb p otb) && negb (opt_text_eqb (text_at e xf p) (text_at e xf otb))
  | None => negb (is_real tname) && is_real otb
  end.

Definition ext_differs (xf : amap str) (xdir : str) (copies : list (str * str)) : bool :=
  let have := under xdir xf in
  negb (is_nil have) &&
  (existsb (fun c : str * str =>
      match alookup (xdir ++ slash ++ fst c) xf with
      | None => true                                        (* Adding ... *)
      | Some t => negb (str_eqb t (snd c))                  (* CRC32 changed *)
      end) copies ||
   existsb (fun kv : str * str =>                           (* ... is not being replaced *)
      negb (mem_str (fst kv) (map (fun c : str * str => xdir ++ slash ++ fst c) copies))) have).

Record xplan := mkXPlan {
  xp_plan   : dplan;
  xp_copies : list (str * str)      (* full path, text *)
}.

Definition tspec_given (tb : tspec) : bool := match tb with TDefault => false | _ => true end.

Definition xdeclare_plan (e : env) (a : adb) (xf : amap str) (o : opts) (n v : str) (dir : option str)
    (tb : tspec) (t : option str) (ext : list (str * str)) : res xplan :=
  let f := o_flavor o in
  (* with a tag and without directory or table: complete them from the existing declaration *)
  let info :=
    match t with
    | None => None
    | Some _ =>
        if is_some dir && tspec_given tb then None
        else first_some (map (fun fl => find_exact a (roots_of a (o_stack o)) n v fl) (fallbacks f))
    end in
  let dir1 :=
    match dir with
    | Some d => Some d
    | None => match info with Some (_, r) => Some (fst r) | None => None end
    end in
  match dir1 with
  | None => Err Refused                     (* Please specify a productDir *)
  | Some d =>
    let tb1 :=
      match tb with
      | TDefault => match info with
                    | Some (_, r) => if str_eqb d (fst r)
                                     then (if is_real (snd r) then TPath (snd r) else TNone)
                                     else TDefault
                    | None => TDefault
                    end
      | _ => tb
      end in
    match xtarget e (apath a) o d with
    | Err k => Err k
    | Ok (rd, tg) =>
      match resolve_table e xf tg f n v d tb1, resolve_ext e xf ext with
      | Err k, _ => Err k
      | _, Err k => Err k
      | Ok (tname, full, tcopies), Ok ecopies =>
        let copies := ecopies ++ tcopies in
        let xdir := extra_dir tg f n v in
        let t1 := match t with
                  | Some x => Some x
                  | None => if findable a n (fallbacks f) then None else Some current
                  end in
        let fullcopies := map (fun c : str * str => (xdir ++ slash ++ fst c, snd c)) copies in
        match a_decl a rd n v f with
        | Some r' =>
            if negb (str_eqb rd tg) then Err Undefined else
            if o_force o then Ok (mkXPlan (mkPlan d tname tg t1 true) fullcopies)
            else if negb (str_eqb d (fst r')) || table_differs e xf tname full (snd r') || ext_differs xf xdir copies
            then match t1 with
                 | Some _ => Ok (mkXPlan (mkPlan d tname tg t1 false) fullcopies)   (* I will only declare the tag *)
                 | None => Err Refused                                              (* specify force to proceed *)
                 end
            else Ok (mkXPlan (mkPlan d tname tg t1 false) fullcopies)               (* no difference *)
        | None => Ok (mkXPlan (mkPlan d tname tg t1 true) fullcopies)
        end
      end
    end
  end.

(* tag removal by -Z in a read-only stack: You do not have permission to unassign a global tag *)
Definition ro_refuses (e : env) (x : op) : bool :=
  match x with
  | UnassignTag o _ _ None | UndeclareTag o _ None _ false =>
      match o_stack o with Some s => mem_str s (e_ro e) | None => false end
  | _ => false
  end.

(* record-level actions and copies of one command *)
Definition xdecide (e : env) (a : adb) (xf : amap str) (x : xop) : res (list aact * list (str * str)) :=
  match x with
  | XDeclare o n v dir tb t ext =>
      match xdeclare_plan e a xf o n v dir tb t ext with
      | Err k => Err k
      | Ok p =>
          if o_noaction o then Ok ([], []) else
          match declare_finish false a (o_flavor o) n v (xp_plan p) with
          | Ok acts => Ok (acts, xp_copies p)
          | Err k => Err k
          end
      end
  | XOld y =>
      if ro_refuses e y then Err Refused else
      match decide false a y with
      | Ok acts => Ok (acts, [])
      | Err k => Err k
      end
  end.

Definition write_files (cs : list (str * str)) (xf : amap str) : amap str :=
  fold_left (fun m c => aset (fst c) (snd c) m) cs xf.

Definition xstep (e : env) (x : xdb) (o : xop) : res xdb :=
  match xdecide e (view (xd x)) (xfiles x) o with
  | Ok (acts, cs) => Ok (mkX (apply (compile_all (xd x) acts) (xd x)) (write_files cs (xfiles x)))
  | Err k => Err k
  end.

Definition xstep_total (e : env) (x : xdb) (o : xop) : xdb :=
  match xstep e x o with Ok x' => x' | Err _ => x end.

Definition xrun (e : env) (x : xdb) (os : list xop) : xdb := fold_left (xstep_total e) os x.

Definition xempty (path : list str) : xdb := mkX (empty_db path) [].

(* the abstract specification: the same decisions on the two finite maps, the copies a third map *)
Record xadb := mkXA { xa : adb; xafiles : amap str }.

Definition xastep (e : env) (x : xadb) (o : xop) : res xadb :=
  match xdecide e (xa x) (xafiles x) o with
  | Ok (acts, cs) => Ok (mkXA (aapply_all acts (xa x)) (write_files cs (xafiles x)))
  | Err k => Err k
  end.

(* ---------------------------------------------------------------- tags that are not recognised
   Every command that names a tag resolves the name first (Tags.getTag) and raises TagNotRecognized
   for a name that is not registered with this installation: Eups.assignTag and Eups.unassignTag
   on their first line, Eups.declare once its arguments are settled and BEFORE Database.declare
   writes the version file (noaction or not), Eups.undeclare --tag through Eups.unassignTag; with
   undeclareVersionAndTag the version is looked up first as for a plain undeclare (ProductNotFound,
   or several versions to choose from), and the tag is resolved before the version is removed.
   [known] is the list of registered global tags.  [kstep] is [xstep] behind that check. *)
Definition xop_tag (x : xop) : option str :=
  match x with
  | XDeclare _ _ _ _ _ t _ => t
  | XOld (Declare _ _ _ _ _ t) => t
  | XOld (AssignTag _ t _ _) => Some t
  | XOld (UnassignTag _ t _ _) => Some t
  | XOld (UndeclareTag _ _ _ t _) => Some t
  | XOld _ => None
  end.

Definition unknown_tag (known : list str) (x : xop) : bool :=
  match xop_tag x with Some t => negb (mem_str t known) | None => false end.

Definition unknown_tag_error (a : adb) (x : xop) : errkind :=
  match x with
  | XOld (UndeclareTag o n vo _ true) =>
      match undeclare_target a o n vo with Err k => k | Ok _ => Refused end
  | _ => Refused
  end.

Definition kstep (known : list str) (e : env) (x : xdb) (o : xop) : res xdb :=
  if unknown_tag known o then Err (unknown_tag_error (view (xd x)) o) else xstep e x o.

Definition kstep_total (known : list str) (e : env) (x : xdb) (o : xop) : xdb :=
  match kstep known e x o with Ok x' => x' | Err _ => x end.

Definition krun (known : list str) (e : env) (x : xdb) (os : list xop) : xdb :=
  fold_left (kstep_total known e) os x.

(* the history without the commands that name a tag that is not recognised *)
Definition recognised (known : list str) (os : list xop) : list xop :=
  filter (fun o => negb (unknown_tag known o)) os.
