(* C13 - the dependency walk with the version resolver inside.

     Table.dependencies            python/eups/table.py  518-670   -> [dwalk]
     Action.processArgs            python/eups/table.py  795-960   -> [line_vro] here, the words in Model/DepWalkText.v
     Eups.getDependentProducts     python/eups/Eups.py  3076-3268  -> [dep_products2], [dep_products]

   Model/Graph.v takes the product every table line denotes as an INPUT (the field eres of an edge).  Here
   the walk calls the resolver of Model/Resolve.v (C03) for every line it meets, as the code does:

     for a in self.actions(flavor, setupType):                 one [dline] per setupRequired / setupOptional
         requestedVRO, name, _, vers, versExpr, extra = a.processArgs(Eups)
         Eups.pushStack(vro, requestedVRO)                      [line_vro]: the recognised -t tags of the line in front
                                                                of the VRO in force, keep in front of them (-k)
         if name in requiredVersions: findProduct(name, requiredVersions[name])      [lookup_pinned_at]
         else: for flavor in fallbackFlavors(includeMe): findProductFromVRO(name, vers, versExpr, flavor)
                                                                [lookup_at]: the first flavor that answers
         not found (ProductNotFound): the stub Product(name, vers), listed, never walked
         found: listed; unless -j or already in recursiveDict, marked there and its table walked one level deeper
                - BEFORE popStack: the lines of that table are read with the VRO of this line in force, so the
                -t tags (and keep) of every line on the way down accumulate in front of the VRO of the command
         productDictionary[topProduct].append(...)
         Eups.popStack(vro)

   What findProductFromVRO reads besides the database and the VRO is Eups.alreadySetupProducts: empty for a
   process that lists (nothing is set up by a listing), hence prev = None and depth 0 in every call.

   Nodes, entries, the walk state (recursiveDict as a list of nodes, productDictionary) and everything after
   the walk (topologicalSort, depths, de-duplication) are those of Model/Graph.v.  A product is therefore
   identified by name and version; the world gives ONE table per declared (name, version) - [dworld_ok]
   in Proofs/DepWalkEdges.v says what that asks of a database with several stacks and flavors.

   Which lines a table has depends on the setup types and on the flavor it is read for (Model/DepWalkText.v):
   the first walk reads the tables for Eups.setupType when followExact (Eups.exact_version) holds, the second,
   ordering walk always without the exact type; [dep_products2] takes the two table sets.  The Eups a command
   builds is in exact mode as soon as its VRO holds type:exact - the shipped VRO starts with it
   (Model/DepWalkText.v follow_of).  findProductFromVRO appends exact to Eups.setupType whenever its loop passes
   a type:exact entry; the type list of a walk is unchanged by that when followExact is false (exact is filtered
   out at every level) or exact is already in the list - the cases a command can be in.

   Pinned names (requiredVersions): findProduct(name, version) is an explicit look-up - under every flavor of
   the list in the repaired code (proposed_fixes/C13-pinned-lookup-fallback-flavor), under the running flavor
   only in the pinned tree ([pf] is that list); a pin of None makes it findPreferredProduct, modelled as the
   walk over the line VRO with no version named (equal unless the VRO holds a warn entry or an unrecognised
   word, where the code raises TagNotRecognized: [vro_pref_ok], answered Err Undefined); a pinned relational
   expression (the one product listed for a name is the stub of an unresolved relational line) would go through
   _findPreferredProductByExpr with the preferred tags: Err Undefined as well.  Err Refused is the RuntimeError
   of checkCycles, as in Model/Graph.v.
   Not modelled: unsetupRequired lines, --external listings, a table file that is missing (TableFileNotFound),
   a declared implicit product (hooks.config.Eups.defaultProduct), Eups.findProducts choosing the root product.
   Executable definitions only. *)
From Eupsv Require Import Base.Base Model.Resolve Model.ResolveSpec Model.Graph.

(* both Model/Resolve.v and Model/Graph.v have an entry: a word of the VRO / a line of a listing *)
Notation ventry := Resolve.entry.

(* ---------------------------------------------------------------- one dependency line, after processArgs *)

Record dline := mkDline {
  dl_name : str;
  dl_version : option str;      (* vers *)
  dl_expr : option str;         (* versExpr: the bracketed expression *)
  dl_tags : list str;           (* -t / --tag words, in order *)
  dl_keep : bool;               (* -k *)
  dl_optional : bool;           (* setupOptional *)
  dl_just : bool }.             (* -j: noRecursion *)

(* declared (name, version) -> the dependency lines of its table for the flavor and setup types at hand *)
Definition dtables := list ((str * str) * list dline).

Fixpoint dtable_of (T : dtables) (n v : str) : option (list dline) :=
  match T with
  | [] => None
  | ((n', v'), ls) :: r => if str_eqb n n' && str_eqb v v' then Some ls else dtable_of r n v
  end.

Definition dnode_table (T : dtables) (p : node) : option (list dline) :=
  if nreal p then match nver p with Some v => dtable_of T (nname p) v | None => None end else None.

(* processArgs: requestedVRO = the recognised -t tags, then the current list; keep in front when -k was given
   or the current list has it *)
Definition line_vro (c : config) (vro : list ventry) (l : dline) : list ventry :=
  let v := map parse_entry (filter (recognized c) (dl_tags l)) ++ vro in
  if dl_keep l || mem_entry EKeep vro then EKeep :: v else v.

Definition dreq (l : dline) : request := mkRequest (dl_name l) (dl_version l) (dl_expr l).

(* ---------------------------------------------------------------- the look-ups *)

Section Lookup.
  Variable vcmp : str -> str -> comparison.
  Variable vmatch : str -> str -> bool.
  Variable c : config.
  Variable db : dbv.
  Variable flavors : list str.          (* the running flavor, then its fall-back flavors *)
  Variable vro : list ventry.            (* Eups.getPreferredTags() when the listing starts *)

  (* the loop over the flavors around findProductFromVRO (depth 0, nothing set up before) *)
  Definition vro_lookup (fl : list str) (lv : list ventry) (rq : request) : option found :=
    first_some (fun f => option_map fst (find_from_vro vcmp vmatch c db None f 0 lv rq)) fl.

  (* a line whose VRO (after processArgs) is [lv] *)
  Definition lookup_at (lv : list ventry) (l : dline) : option found := vro_lookup flavors lv (dreq l).

  (* a line met while [vro] is in force *)
  Definition lookup_line (l : dline) : option found := lookup_at (line_vro c vro l) l.

  (* Eups.findProduct(name, requiredVersions[name]) under the flavors [pf], the VRO of the line being [lv] *)
  Definition lookup_pinned_at (pf : list str) (lv : list ventry) (l : dline) (pv : option str) : option found :=
    match pv with
    | None => vro_lookup pf lv (mkRequest (dl_name l) None None)
    | Some v => first_some (fun f => find_version db (dl_name l) v f) pf
    end.

  Definition lookup_pinned (pf : list str) (l : dline) (pv : option str) : option found :=
    lookup_pinned_at pf (line_vro c vro l) l pv.
End Lookup.

(* findPreferredProduct asks Tags.getTag for every entry that is not a number or a type: entry *)
Definition vro_pref_ok (c : config) (vro : list ventry) : bool :=
  forallb (fun e => match e with
                    | EWarn _ => false
                    | ETag t => recognized c t || all_digits t
                    | _ => true
                    end) vro.

(* ---------------------------------------------------------------- Table.dependencies *)

Definition tgt_of (l : dline) (o : option found) : node :=
  match o with
  | Some fd => (dl_name l, Some (fd_version fd), true)
  | None => (dl_name l, dl_version l, false)
  end.

Section Walk.
  (* the VRO in force is handed down: Table.dependencies pushes the VRO of a line before it resolves the line
     AND walks the table of the product found, and pops it afterwards - so the lines of that table are read
     with the -t tags (and keep) of every line on the way down in front of the VRO of the command *)
  Variable lvro : list ventry -> dline -> list ventry.                         (* processArgs: requestedVRO *)
  Variable lk : list ventry -> dline -> option found.                          (* a line under the VRO given *)
  Variable lkp : list ventry -> dline -> option str -> option found.           (* a line whose name is pinned *)
  Variable T : dtables.
  Variable pins : list (str * option str).

  Definition dresolve (lv : list ventry) (l : dline) : node :=
    match pin_of pins (dl_name l) with
    | None => tgt_of l (lk lv l)
    | Some pv => tgt_of l (lkp lv l pv)
    end.

  Section Lines.
    Variable rec : list ventry -> node -> nat -> list dline -> wstate -> res (list entry * wstate).

    Fixpoint dwalk_lines (vro : list ventry) (tp : node) (depth : nat) (ls : list dline) (st : wstate)
      : res (list entry * wstate) :=
      match ls with
      | [] => Ok ([], st)
      | l :: r =>
          let lv := lvro vro l in
          let t := dresolve lv l in
          let sub :=
            if nreal t && negb (dl_just l) && negb (mem_node t (vis st)) then
              match dnode_table T t with
              | Some ls' => rec lv t (S depth) ls' (pd_ensure t (mark t st))
              | None => Ok ([], mark t st)
              end
            else Ok ([], st) in
          match sub with
          | Err x => Err x
          | Ok (l1, st2) =>
              match dwalk_lines vro tp depth r (pd_add tp t st2) with
              | Err x => Err x
              | Ok (l2, st3) => Ok ((t, dl_optional l, depth) :: l1 ++ l2, st3)
              end
          end
      end.
  End Lines.

  Fixpoint dwalk (fuel : nat) (vro : list ventry) (tp : node) (depth : nat) (ls : list dline) (st : wstate)
    : res (list entry * wstate) :=
    match fuel with
    | 0 => Err OutOfFuel
    | S f => dwalk_lines (dwalk f) vro tp depth ls st
    end.

  (* prodtbl.dependencies(recursive=True, recursionDepth=1, requiredVersions=pins) *)
  Definition dwalk_top (fuel : nat) (vro : list ventry) (top : node) : res (list entry * wstate) :=
    match dnode_table T top with
    | None => Ok ([], mkW [] [])
    | Some ls => dwalk fuel vro top 1 ls (mkW [] [(top, [])])
    end.
End Walk.

(* ---------------------------------------------------------------- the edges the walk follows, as a world of Model/Graph.v *)

Definition edge_of (lk : dline -> option found) (l : dline) : edge :=
  mkEdge (dl_name l) (dl_version l) (option_map fd_version (lk l)) (dl_optional l).

Definition edges_world (lk : dline -> option found) (T : dtables) : world :=
  map (fun it => (fst it, map (edge_of lk) (snd it))) T.

(* ---------------------------------------------------------------- getDependentProducts *)

Definition expr_pin (p : str * option str) : bool :=
  match snd p with Some v => is_expr v | None => false end.
Definition none_pin (p : str * option str) : bool :=
  match snd p with None => true | Some _ => false end.

Section Products.
  Variable lvro : list ventry -> dline -> list ventry.
  Variable lk : list ventry -> dline -> option found.
  Variable lkp : list ventry -> dline -> option str -> option found.
  Variable pref_ok : bool.              (* vro_pref_ok of the VRO of the command *)
  Variable vro : list ventry.           (* Eups.getPreferredTags() when the listing starts *)

  (* the second, inexact walk: the listed names tied to the versions listed for them (D16 repaired) *)
  Definition dep_second (fuel : nat) (TB : dtables) (top : node) (dp : list entry) : res wstate :=
    let pins := pins_fixed top dp in
    if existsb expr_pin pins then Err Undefined
    else if existsb none_pin pins && negb pref_ok then Err Undefined
    else match dwalk_top lvro lk lkp TB pins fuel vro top with
         | Err x => Err x
         | Ok (_, st) => Ok st
         end.

  (* [TA]: the tables as the first walk reads them (followExact as given); [TB]: without the exact type *)
  Definition dep_products2 (fuel : nat) (TA TB : dtables) (top : node) (topological check : bool)
    : res (list entry) :=
    match dwalk_top lvro lk lkp TA [] fuel vro top with
    | Err x => Err x
    | Ok (l, _) =>
        let dp := drop_top top l in
        if negb (topological || check) then Ok dp
        else
          match dep_second fuel TB top dp with
          | Err x => Err x
          | Ok st =>
              match topo_layers_with node_cmp check (pd st) with
              | Err x => Err x
              | Ok L => Ok (topo_finish true L dp)
              end
          end
    end.

  (* the graph handed to topologicalSort *)
  Definition dep_topo_graph (fuel : nat) (TA TB : dtables) (top : node) : res graph :=
    match dwalk_top lvro lk lkp TA [] fuel vro top with
    | Err x => Err x
    | Ok (l, _) =>
        match dep_second fuel TB top (drop_top top l) with
        | Err x => Err x
        | Ok st => Ok (prepare (pd st))
        end
    end.
End Products.

(* ---------------------------------------------------------------- a listing command *)

Record dworld := mkDworld {
  dw_db : dbv;
  dw_exact : dtables;          (* the tables read with the setup types of the command *)
  dw_inexact : dtables }.      (* ... and with exact removed from them *)

Section Command.
  Variable vcmp : str -> str -> comparison.
  Variable vmatch : str -> str -> bool.
  Variable c : config.
  Variable flavors : list str.
  Variable pf : list str.       (* the flavors a pinned look-up tries *)

  Definition lk_at (W : dworld) : list ventry -> dline -> option found :=
    lookup_at vcmp vmatch c (dw_db W) flavors.
  Definition lkp_at (W : dworld) : list ventry -> dline -> option str -> option found :=
    lookup_pinned_at vcmp vmatch c (dw_db W) pf.

  (* getDependentProducts(top, topological, checkCycles) on an Eups whose preferred tags are [vro] and whose
     exact_version is [follow] *)
  Definition dep_products (W : dworld) (vro : list ventry) (follow : bool) (fuel : nat) (top : node)
             (topological check : bool) : res (list entry) :=
    dep_products2 (line_vro c) (lk_at W) (lkp_at W) (vro_pref_ok c vro) vro fuel
                  (if follow then dw_exact W else dw_inexact W) (dw_inexact W) top topological check.

  Definition dep_graph (W : dworld) (vro : list ventry) (follow : bool) (fuel : nat) (top : node) : res graph :=
    dep_topo_graph (line_vro c) (lk_at W) (lkp_at W) (vro_pref_ok c vro) vro fuel
                   (if follow then dw_exact W else dw_inexact W) (dw_inexact W) top.

  (* eups list --dependencies [--topological] [--checkCycles] [-e] [-t tag ...] name [version]:
     Eups(exact_version), selectVRO(tags, None, version, None), then the listing of the product found *)
  Definition list_command (W : dworld) (o : opts) (fuel : nat) (top : node) (topological check : bool)
    : res (list entry) :=
    match select_vro c o with
    | Err e => Err e
    | Ok vro => dep_products W vro (o_exact o) fuel top topological check
    end.
End Command.

(* ---------------------------------------------------------------- decidable forms of the hypotheses of Props/C13.v *)

(* (sound: Proofs/DepWalkCheck.v; the correspondence check evaluates them on every world it compares) *)
Definition is_some {A} (o : option A) : bool := match o with Some _ => true | None => false end.


Definition dworld_ok_b (db : dbv) (flavors : list str) (T : dtables) : bool :=
  wf_db db &&
  forallb (fun s => forallb (fun d => match d with (n, v, f) =>
                                        if mem_str f flavors then is_some (dtable_of T n v) else true
                                      end) (st_decl s)) db &&
  forallb (fun it => match it with ((n, v), _) =>
                       nonempty v && existsb (fun s => existsb (fun f => Resolve.declared s n v f) flavors) db
                     end) T.

Definition db_names (db : dbv) : list str :=
  flat_map (fun s => map (fun d => match d with (n, _, _) => n end) (st_decl s)) db.

Definition vcmp_ok_b (vcmp : str -> str -> comparison) (db : dbv) : bool :=
  forallb (fun n => total_orderb vcmp (names_of db n)) (db_names db).

Definition no_just_b (T : dtables) : bool := forallb (fun it => forallb (fun l => negb (dl_just l)) (snd it)) T.

Definition plain_line_b (c : config) (l : dline) : bool :=
  negb (dl_keep l) && match filter (recognized c) (dl_tags l) with [] => true | _ => false end.

Definition plain_tables_b (c : config) (vro : list ventry) (T : dtables) : bool :=
  negb (mem_entry EKeep vro) && forallb (fun it => forallb (plain_line_b c) (snd it)) T.


(* Eups.uses: the topological listing of every declared product (the index Uses.invert / Uses.users of
   Model/Graph.v work on) *)
Fixpoint dep_listings (f : node -> res (list entry)) (ps : list (str * str))
  : res (list ((str * str) * list entry)) :=
  match ps with
  | [] => Ok []
  | (n, v) :: r =>
      match f (n, Some v, true) with
      | Err x => Err x
      | Ok l => match dep_listings f r with
                | Err x => Err x
                | Ok ls => Ok (((n, v), l) :: ls)
                end
      end
  end.

Definition dep_uses_index (vcmp : str -> str -> comparison) (vmatch : str -> str -> bool) (c : config)
           (flavors pf : list str) (W : dworld) (vro : list ventry) (fuel : nat)
  : res (list ((str * str) * list entry)) :=
  dep_listings (fun top => dep_products vcmp vmatch c flavors pf W vro true fuel top true false)
               (map fst (dw_exact W)).

(* the instance that is extracted with the dotted-numeric comparator of Model/Resolve.v *)
Definition list_command_simple := list_command vcmp_simple vmatch_simple.
