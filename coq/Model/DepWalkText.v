(* C13 - the dependency walk of Model/DepWalk.v run from table TEXTS, with the comparator of C10.

   Between the text of a table file and the lines Table.dependencies walks lie
     - Product.getTable / Table._read / Table.actions: Model/Blocks.v (table_actions), with the implicit
       product line and Table.expandEupsVariables of Model/SetupText.v (implicit_actions, expand_args);
     - Action.processArgs (table.py 795-960): the option loop (Model/SetupText.v dep_args gives the words
       that are not options and the flags -j -n --external -r; [line_opts] below reads the same arguments for
       -t / --tag, -k and --vro), then
           vers = the words after the product name joined by one blank
           re.search in vers of: optionally (a run of non-blank characters - group 1 - and one or more blanks),
           then a left bracket, one or more characters other than a right bracket - group 2 -, a right bracket.
           When it matches, vers and versExpr are the two groups ([vers_search]: leftmost match; each of the
           three runs can only take its longest extent, so the match at a position is unique).
   Outside the model, answered Err Refused (never a guessed line): what Model/SetupText.v refuses
   (-r, -n, the product eups, a missing product name or option value, unsetupRequired ...), --vro on a
   line, a -t word with a colon (a qualified tag name).
   Table.dependencies reads every table for Eups.flavor, the RUNNING flavor, in the pinned tree; Eups.setup
   reads the table of a product for the flavor it was found under.  [fx] = true is the code with the repair
   proposed_fixes/C13-dependencies-read-table-for-product-flavor (as setup does), false the pinned tree.
   Executable definitions only. *)
From Eupsv Require Import Base.Base Model.PathAlg Model.Setup Model.Rx Model.Cond Model.Args Model.Legacy
  Model.Blocks Model.TableSpec Model.SetupText Model.VersionCompare Model.VersionKey Model.Resolve Model.ResolveSpec
  Model.SetupFull Model.ResolveReal Model.Graph Model.DepWalk.

(* ---------------------------------------------------------------- processArgs: version and expression *)

Definition c_lbr : ascii := "["%char.
Definition c_rbr : ascii := "]"%char.

(* the bracketed part at the head of s: the text between the brackets *)
Definition bracket_at (s : str) : option str :=
  match s with
  | c :: r =>
      if ascii_eqb c c_lbr then
        match Rx.span (fun x => negb (ascii_eqb x c_rbr)) r with
        | (x, _ :: _) => if nonempty x then Some x else None
        | (_, []) => None
        end
      else None
  | [] => None
  end.

(* the whole pattern at the head of s: (group 1, group 2) *)
Definition vers_match_at (s : str) : option (option str * str) :=
  let '(w, r) := Rx.span (fun x => negb (is_pyspace x)) s in
  let '(sp, r') := Rx.span is_pyspace r in
  match (if nonempty sp then bracket_at r' else None) with
  | Some x => Some (Some w, x)
  | None => match bracket_at s with
            | Some x => Some (None, x)
            | None => None
            end
  end.

Fixpoint vers_search (s : str) : option (option str * str) :=
  match vers_match_at s with
  | Some m => Some m
  | None => match s with [] => None | _ :: r => vers_search r end
  end.

(* (vers, versExpr) from the words after the product name *)
Definition vers_of_words (ws : list str) : option str * option str :=
  match ws with
  | [] => (None, None)
  | _ => let vers := join_str [c_sp] ws in
         if nonempty vers then
           match vers_search vers with
           | Some (g1, x) => (g1, Some x)
           | None => (Some vers, None)
           end
         else (Some vers, None)
  end.

(* ---------------------------------------------------------------- processArgs: -t, -k, --vro *)

Record lopts := mkLopts { lo_tags : list str; lo_keep : bool; lo_vro : bool }.

(* the same cascade as the loop of Model/SetupText.v dep_loop; an option value that is missing was refused there *)
Fixpoint line_opts (fuel : nat) (args : list str) (o : lopts) : lopts :=
  match fuel with
  | O => o
  | S fuel' =>
  match args with
  | [] => o
  | x :: r =>
      let skip_value (o' : lopts) := match r with [] => o' | _ :: r' => line_opts fuel' r' o' end in
      if dash x then
        if is1 x "-f" || is1 x "--flavor" then skip_value o
        else if is1 x "-j" || is1 x "--just" then line_opts fuel' r o
        else if is1 x "-k" || is1 x "--keep" then line_opts fuel' r (mkLopts (lo_tags o) true (lo_vro o))
        else if is1 x "-n" || is1 x "--noaction" then line_opts fuel' r o
        else if substring_of x "--external" then line_opts fuel' r o
        else if is1 x "-r" then skip_value o
        else if is1 x "-T" then skip_value o
        else if is1 x "-t" || is1 x "--tag" then
          match r with
          | [] => o
          | t :: r' => line_opts fuel' r' (mkLopts (lo_tags o ++ [t]) (lo_keep o) (lo_vro o))
          end
        else if substring_of x "--vro" then skip_value (mkLopts (lo_tags o) (lo_keep o) true)
        else line_opts fuel' r o
      else line_opts fuel' r o
  end end.

Definition line_options (args : list str) : lopts := line_opts (S (length args)) args (mkLopts [] false false).

(* one setupRequired / setupOptional action; None: a line Table.dependencies passes over (--external) *)
Definition dline_of (optional : bool) (args : list str) : res (option dline) :=
  bind (dep_args args) (fun d =>
    if d_dir d then Err Refused else
    match d_words d with
    | [] => Err Refused
    | name :: ws =>
        if d_noaction d || is1 name "eups" then Err Refused
        else if d_external d then Ok None
        else
          let o := line_options args in
          if lo_vro o then Err Refused
          else if existsb (mem_ascii ":"%char) (lo_tags o) then Err Refused
          else let '(v, x) := vers_of_words ws in
               Ok (Some (mkDline name v x (lo_tags o) (lo_keep o) optional (d_just d)))
    end).

Fixpoint dlines_of_actions (acts : list Args.action) : res (list dline) :=
  match acts with
  | [] => Ok []
  | a :: r =>
      if str_eqb (a_cmd a) k_setupRequired then
        bind (dline_of (flag s_optional (a_extra a)) (a_args a)) (fun ol =>
        bind (dlines_of_actions r) (fun ls => Ok (match ol with Some l => l :: ls | None => ls end)))
      else if str_eqb (a_cmd a) k_unsetupRequired then Err Refused
      else dlines_of_actions r
  end.

(* ---------------------------------------------------------------- one table *)

Record dtext := mkDtext {
  dx_name : str; dx_version : str;
  dx_flavor : str;            (* the flavor the product is declared under *)
  dx_dir : str; dx_root : str;
  dx_text : str }.

Definition dpinfo (p : dtext) : pinfo :=
  mkPinfo (dx_name p) (dx_version p) (dx_flavor p) (dx_dir p) (dx_root p) (dx_dir p ++ lit "/ups")
          (dx_root p ++ lit "/ups_db/" ++ dx_flavor p ++ c_slash :: dx_name p ++ c_slash :: dx_version p).

Definition expand_action (pi : pinfo) (a : Args.action) : res Args.action :=
  bind (expand_args pi (a_args a)) (fun args => Ok (mkAction (a_cmd a) args (a_extra a))).

(* the dependency lines of product.getTable() for the flavor [flavor] and the setup types of [tc] *)
Definition lines_of_text (tc : tconfig) (flavor : str) (p : dtext) : res (list dline) :=
  let pi := dpinfo p in
  if negb (pinfo_ok pi) then Err Refused else
  bind (table_actions true true (dx_name p) (dx_text p) (mkCenv flavor (tc_types tc))) (fun acts =>
  bind (map_res (expand_action pi) (acts ++ implicit_actions tc)) dlines_of_actions).

Definition read_flavor (fx : bool) (running : str) (p : dtext) : str :=
  if fx then dx_flavor p else running.

Definition dtables_of_text (tc : tconfig) (fx : bool) (running : str) (ps : list dtext) : res dtables :=
  map_res (fun p => bind (lines_of_text tc (read_flavor fx running p) p)
                         (fun ls => Ok ((dx_name p, dx_version p), ls))) ps.

Definition s_exact : str := lit "exact".
Definition without_exact (types : list str) : list str := filter (fun t => negb (str_eqb t s_exact)) types.

(* Eups.selectVRO ends with a look-up of the product with the empty name, made to run the type: entries of the VRO:
   with the shipped VRO (it starts with type:exact) every Eups the command line builds is in exact mode -
   exact_version set, exact appended to setupType - whether or not --exact was given.  [types] = the -T types. *)
Definition follow_of (o : opts) (vro : list ventry) : bool := o_exact o || mem_entry (EType s_exact) vro.
Definition types_of (follow : bool) (types : list str) : list str :=
  if follow && negb (mem_str s_exact types) then types ++ [s_exact] else types.

Definition dworld_of_text (db : dbv) (types implicit : list str) (fx : bool) (running : str) (ps : list dtext)
  : res dworld :=
  bind (dtables_of_text (mkTconfig types implicit) fx running ps) (fun TA =>
  bind (dtables_of_text (mkTconfig (without_exact types) implicit) fx running ps) (fun TB =>
  Ok (mkDworld db TA TB))).

(* ---------------------------------------------------------------- the comparator of C10 *)

(* no comparison the resolver can make for a line of these tables raises *)
Definition tables_domain (db : dbv) (T : dtables) : bool :=
  forallb (fun it => forallb (fun l => real_domain db (dreq l)) (snd it)) T.

Definition running_of (flavors : list str) : str := match flavors with f :: _ => f | [] => [] end.

(* a construct outside the model is answered Err Undefined here: Err Refused is what a reported cycle gives *)
Definition outside {A} (r : res A) : res A :=
  match r with Err Refused => Err Undefined | _ => r end.

(* the set-up of a listing command: the VRO, whether the first walk follows the exact blocks, the two table sets *)
Definition command_world (c : config) (flavors : list str) (fx : bool) (db : dbv) (types implicit : list str)
           (ps : list dtext) (o : opts) : res (list ventry * bool * dworld) :=
  match select_vro c o with
  | Err e => Err e
  | Ok vro =>
      let follow := follow_of o vro in
      bind (outside (dworld_of_text db (types_of follow types) implicit fx (running_of flavors) ps)) (fun W =>
      if negb (tables_domain db (dw_exact W) && tables_domain db (dw_inexact W)) then Err Undefined
      else Ok (vro, follow, W))
  end.

(* a listing command on a stack given by its database view and the texts of its table files;
   [fxp] = true: pinned names are looked up under every flavor of the list (repaired), false: the running one *)
Definition list_text (c : config) (flavors : list str) (fx fxp : bool) (db : dbv) (types implicit : list str)
           (ps : list dtext) (o : opts) (fuel : nat) (top : node) (topological check : bool)
  : res (list entry) :=
  bind (command_world c flavors fx db types implicit ps o) (fun cw =>
    let '(vro, follow, W) := cw in
    dep_products vcmp_real vmatch_real c flavors (if fxp then flavors else [running_of flavors])
                 W vro follow fuel top topological check).

Definition graph_text (c : config) (flavors : list str) (fx fxp : bool) (db : dbv) (types implicit : list str)
           (ps : list dtext) (o : opts) (fuel : nat) (top : node) : res graph :=
  bind (command_world c flavors fx db types implicit ps o) (fun cw =>
    let '(vro, follow, W) := cw in
    dep_graph vcmp_real vmatch_real c flavors (if fxp then flavors else [running_of flavors]) W vro follow fuel top).

(* what every line of every table (as the first walk reads them, or the second) denotes under the VRO of the command: the product
   with its stack and flavor *)
Definition edges_text (c : config) (flavors : list str) (fx : bool) (db : dbv) (types implicit : list str)
           (ps : list dtext) (o : opts) (second : bool)
  : res (list ((str * str) * list (dline * option found))) :=
  bind (command_world c flavors fx db types implicit ps o) (fun cw =>
    let '(vro, follow, W) := cw in
    let T := if follow && negb second then dw_exact W else dw_inexact W in
    Ok (map (fun it => (fst it, map (fun l => (l, lookup_line vcmp_real vmatch_real c db flavors vro l)) (snd it))) T)).

(* one look-up of the walk: the loop over the flavors around findProductFromVRO, the VRO given word by word *)
Definition lookup_text (c : config) (flavors : list str) (db : dbv) (vro : list str) (rq : request)
  : res (option found) :=
  if real_domain db rq then Ok (vro_lookup vcmp_real vmatch_real c db flavors (map parse_entry vro) rq)
  else Err Undefined.

(* the hypotheses of the theorems of Props/C13.v about the composed model, decided for the world of a command:
   dworld_ok for both table sets; the version names of every product conventional and pairwise distinct as keys
   (then vcmp_real is a total order on them: C03 real_comparator_total_order); a version entry in the VRO; no -j
   line; no line that changes the VRO *)
Definition hyps_text (c : config) (flavors : list str) (fx : bool) (db : dbv) (types implicit : list str)
           (ps : list dtext) (o : opts) : res (list bool) :=
  bind (command_world c flavors fx db types implicit ps o) (fun cw =>
    let '(vro, follow, W) := cw in
    Ok [ dworld_ok_b db flavors (dw_exact W) && dworld_ok_b db flavors (dw_inexact W);
         forallb (fun n => real_names_ok (names_of db n)) (db_names db);
         existsb is_version_like vro;
         no_just_b (dw_exact W) && no_just_b (dw_inexact W);
         plain_tables_b c vro (dw_exact W) && plain_tables_b c vro (dw_inexact W) ]).
