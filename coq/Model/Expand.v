(* Model of table.expandTableFile (table.py 1261-1555) with the set-up closure it asks for through
   app.getDependencies / Eups.getDependentProducts(setup=True, shouldRaise=True) (Eups.py 3059-3120),
   on classified lines (level B): a setup line comes with the arguments its subSetup loop extracts,
   every other line is opaque text.

   Inputs: the lines of the table; the world and the environment of Model/Setup.v (what is declared,
   what the SETUP_ variables record); the productList; for the product named by a line, the flat
   pre-order list (name, optional, depth) that Table.dependencies(recursive) returns for it - the
   version resolver is not modelled, it enters only through these lists, so every theorem holds for
   every graph and every resolver.
   Level A (the text of the table to classified lines, the output lines back to text) is Model/ExpandText.v.
   Fixed at their defaults: expandVersions, addExactBlock, recurse.  Outside the model: --external
   lines, a pre-existing exact block, setup commands that share a line with other text (Model/ExpandText.v
   returns an explicit verdict for them), LOCAL: set-ups.
   Lines naming the product eups (LEups): returned unchanged by subSetup, they open a setup block without
   joining it and are written after everything else.  The indentation level of the output (an integer that
   may go below zero) is part of the model: it decides whether a blank last line of a setup block is written.

   Three repairs of the pinned tree are modelled, each behind a boolean so that the pinned behaviour stays
   available for the refuted-pinned examples:
     jfix  a line carrying -j does not ask for the closure below its product (D17);
     sfix  below an optional product that is not set up, a product that is not set up is no error;
     cfix  when the closure below a line's product cannot be collected and the error is passed over (the line
           is optional, or --force), the product - it is set up - stays in the exact block together with what
           is set up below it, instead of being dropped (proposed_fixes/C17-closure-error-keeps-product).
   Executable definitions only. *)
From Eupsv Require Import Base.Base Model.PathAlg Model.Setup.

(* ---------- classified lines *)

Record sline := {
  sl_optional : bool;             (* setupOptional *)
  sl_name : str;                  (* the first bare word *)
  sl_flags : list str;            (* the flags subSetup keeps: -j, -k, -f X written as one string, ... *)
  sl_version : option str;        (* the bare word after the name, unless a bracket follows *)
  sl_rest : list str;             (* further bare words outside brackets *)
  sl_logical : option str;        (* the words inside [ ], joined by blanks *)
  sl_orig : str                   (* the text of the command as written *)
}.

Inductive tline :=
| LBlank                          (* white space only *)
| LComment (t : str)              (* comment only *)
| LSetup (s : sline)
| LOther (t : str)                (* any other line, trailing comment and outer blanks removed *)
| LEups (t : str).                (* a setup command whose first argument is eups, as written (stripped) *)

(* python truth of an optional string *)
Definition truthy (o : option str) : option str :=
  match o with
  | Some (c :: r) => Some (c :: r)
  | _ => None
  end.

(* Eups.isLegalRelativeVersion on one word: the regular expression <=?|>=?|== is found in it *)
Fixpoint has_relop (x : str) : bool :=
  match x with
  | [] => false
  | c :: r =>
      ascii_eqb c "<"%char || ascii_eqb c ">"%char ||
      (ascii_eqb c "="%char && match r with d :: _ => ascii_eqb d "="%char | [] => false end) ||
      has_relop r
  end.

(* findSetupVersion(name)[0] *)
Definition setup_version (e : amap str) (name : str) : option str :=
  match alookup (setup_var name) e with
  | Some value => recorded_version value
  | None => None
  end.

(* ---------- subSetup: the rewriting of one setup line *)

Inductive rline :=
| RKeep (s : sline)                                                      (* returned unchanged *)
| RNew (optional : bool) (name : str) (flags : list str) (version : str) (logical : option str).

Definition ge_expr (v : str) : str := lit ">= " ++ v.

Definition rewrite (w : world) (e : amap str) (plist : amap str) (s : sline) : rline :=
  let '(version1, logical1) :=
    match truthy (sl_version s) with
    | Some v => if has_relop v then (None, Some (join_str [c_space] (v :: sl_rest s)))
                else (Some v, sl_logical s)
    | None => (None, sl_logical s)
    end in
  let version2 := match alookup (sl_name s) plist with Some v => Some v | None => version1 end in
  match truthy version2 with
  | Some v => RNew (sl_optional s) (sl_name s) (sl_flags s) v (truthy logical1)
  | None =>
      match find_setup_product w e (sl_name s) with
      | None => RKeep s                                                  (* it must not have been setup *)
      | Some p =>
          match p_version p with
          | [] => RKeep s
          | v => RNew (sl_optional s) (sl_name s) (sl_flags s) v
                      (match truthy logical1 with
                       | Some l => Some l
                       | None => if starts_with (lit "LOCAL:") v then None else Some (ge_expr v)
                       end)
          end
      end
  end.

Definition rl_name (r : rline) : str := match r with RKeep s => sl_name s | RNew _ n _ _ _ => n end.
Definition rl_optional (r : rline) : bool := match r with RKeep s => sl_optional s | RNew o _ _ _ _ => o end.
Definition rl_flags (r : rline) : list str := match r with RKeep s => sl_flags s | RNew _ _ f _ _ => f end.
Definition rl_just (r : rline) : bool := mem_str (lit "-j") (rl_flags r).

(* ---------- blocks of contiguous setup / other lines; blank and comment lines stay in the current block *)

Inductive bline := BBlank | BComment (t : str) | BSetup (r : rline) | BOther (t : str) | BEups (t : str).

Definition rewrite_line (w : world) (e : amap str) (plist : amap str) (l : tline) : bline :=
  match l with
  | LBlank => BBlank
  | LComment t => BComment t
  | LSetup s => BSetup (rewrite w e plist s)
  | LOther t => BOther t
  | LEups t => BEups t
  end.

(* A line naming eups opens a setup block like any setup line (it matched the pattern) but is put aside
   (finalBlock) instead of being appended to the block.  Here it stays in the list, so that the blocks still
   partition the lines; [body_lines] removes it where the block is written. *)
Fixpoint blocks (cur_setup : bool) (cur : list bline) (ls : list bline) : list (bool * list bline) :=
  match ls with
  | [] => [(cur_setup, rev cur)]
  | l :: ls' =>
      match l with
      | BSetup _ | BEups _ => if cur_setup then blocks true (l :: cur) ls'
                               else (false, rev cur) :: blocks true [l] ls'
      | BOther _ => if cur_setup then (true, rev cur) :: blocks false [l] ls'
                    else blocks false (l :: cur) ls'
      | _ => blocks cur_setup (l :: cur) ls'
      end
  end.

(* ---------- the set-up closure *)

Record dep := { d_name : str; d_optional : bool; d_depth : nat }.
Definition rawdeps := list (str * str * list dep).

Fixpoint lookup_raw (rd : rawdeps) (name version : str) : list dep :=
  match rd with
  | [] => []
  | (n, v, l) :: rd' => if str_eqb n name && str_eqb v version then l else lookup_raw rd' name version
  end.

Definition nvo := (str * str * bool)%type.       (* name, version, optional *)

(* Eups.getDependentProducts(setup=True, shouldRaise=True) over the pre-order list; [skip] is the depth of
   the optional product that is not set up and whose dependencies are being passed over (sfix only).
   Whether a product is set up, and at which version, is read from the environment e alone
   (Eups.findSetupProduct: the SETUP_ variable, then the declared product of that version) - not from what
   the Eups instance remembers having set up (Eups.alreadySetupProducts), which keeps the products of an
   optional dependency whose setup failed part-way and was rolled back.  The same holds for the version of
   the product a line names (setup_version = findSetupVersion) and for rewrite. *)
Fixpoint setup_closure (sfix : bool) (w : world) (e : amap str) (skip : option nat) (ds : list dep)
  : res (list nvo) :=
  match ds with
  | [] => Ok []
  | d :: ds' =>
      let skip1 := match skip with
                   | Some k => if d_depth d <=? k then None else skip
                   | None => None
                   end in
      match find_setup_product w e (d_name d) with
      | None =>
          if d_optional d then
            setup_closure sfix w e (match skip1 with
                                    | None => if sfix then Some (d_depth d) else None
                                    | s => s
                                    end) ds'
          else match skip1 with
               | None => Err NotFound                      (* ... is a dependency for ..., but is not setup *)
               | Some _ => setup_closure sfix w e skip1 ds'
               end
      | Some p =>
          bind (setup_closure sfix w e skip1 ds') (fun r => Ok ((p_name p, p_version p, d_optional d) :: r))
      end
  end.

(* the same with shouldRaise=False: a required product that is not set up is passed over (with a warning), the
   walk goes on with the next entry *)
Fixpoint setup_closure_lenient (sfix : bool) (w : world) (e : amap str) (skip : option nat) (ds : list dep)
  : list nvo :=
  match ds with
  | [] => []
  | d :: ds' =>
      let skip1 := match skip with
                   | Some k => if d_depth d <=? k then None else skip
                   | None => None
                   end in
      match find_setup_product w e (d_name d) with
      | None =>
          if d_optional d then
            setup_closure_lenient sfix w e (match skip1 with
                                            | None => if sfix then Some (d_depth d) else None
                                            | s => s
                                            end) ds'
          else setup_closure_lenient sfix w e skip1 ds'
      | Some p => (p_name p, p_version p, d_optional d) :: setup_closure_lenient sfix w e skip1 ds'
      end
  end.

Inductive lres := LSkip | LNotFound | LAdd (l : list nvo).

(* the body of the loop over the products named by the table's own lines *)
Definition line_closure (jfix sfix cfix : bool) (w : world) (e : amap str) (top : str) (plist : amap str)
                        (force : bool) (rd : rawdeps) (name : str) (optional just : bool) : res lres :=
  if str_eqb name top then Ok LSkip else                 (* don't include product foo in foo.table *)
  let ver := match alookup name plist with
             | Some v => Some v
             | None => truthy (setup_version e name)
             end in
  match ver with
  | None => if negb optional && negb force then Err NotFound else Ok LNotFound
  | Some v =>
      if jfix && just then Ok (LAdd [(name, v, optional)]) else
      let below := match find_pv w name v with              (* app.getDependencies: never declared: [] *)
                   | None => Ok []
                   | Some _ => setup_closure sfix w e None (lookup_raw rd name v)
                   end in
      match below with
      | Ok l => Ok (LAdd ((name, v, optional) :: l))
      | Err x =>
          if negb optional && negb force then Err x
          else if cfix then Ok (LAdd ((name, v, optional) :: setup_closure_lenient sfix w e None (lookup_raw rd name v)))
          else Ok LSkip
      end
  end.

Definition key := (str * str)%type.
Definition key_eqb (a b : key) : bool := str_eqb (fst a) (fst b) && str_eqb (snd a) (snd b).
Fixpoint mem_key (k : key) (l : list key) : bool :=
  match l with
  | [] => false
  | x :: l' => if key_eqb k x then true else mem_key k l'
  end.

(* desiredProducts / optionalProducts *)
Fixpoint add_nvol (l : list nvo) (des opt : list key) : list key * list key :=
  match l with
  | [] => (des, opt)
  | (n, v, o) :: l' =>
      if mem_key (n, v) des then add_nvol l' des opt
      else add_nvol l' (des ++ [(n, v)]) (if o then (n, v) :: opt else opt)
  end.

Record acc := { a_des : list key; a_opt : list key; a_nf : list str }.

Fixpoint collect (jfix sfix cfix : bool) (w : world) (e : amap str) (top : str) (plist : amap str) (force : bool)
                 (rd : rawdeps) (prods : list rline) (a : acc) : res acc :=
  match prods with
  | [] => Ok a
  | r :: prods' =>
      match line_closure jfix sfix cfix w e top plist force rd (rl_name r) (rl_optional r) (rl_just r) with
      | Err x => Err x
      | Ok LSkip => collect jfix sfix cfix w e top plist force rd prods' a
      | Ok LNotFound =>
          collect jfix sfix cfix w e top plist force rd prods'
                  {| a_des := a_des a; a_opt := a_opt a; a_nf := rl_name r :: a_nf a |}
      | Ok (LAdd l) =>
          let '(des, opt) := add_nvol l (a_des a) (a_opt a) in
          collect jfix sfix cfix w e top plist force rd prods' {| a_des := des; a_opt := opt; a_nf := a_nf a |}
      end
  end.

Fixpoint setup_rlines (ls : list bline) : list rline :=
  match ls with
  | [] => []
  | BSetup r :: ls' => r :: setup_rlines ls'
  | _ :: ls' => setup_rlines ls'
  end.

(* ---------- the output *)

Inductive oline :=
| OBlank
| OComment (t : str)
| OOther (t : str)
| OSetup (r : rline)
| OIfExact                        (* if (type == exact) { *)
| OIfNotExact                     (* if (type != exact) { *)
| OElse                           (* } else { *)
| OClose                          (* } *)
| OPin (optional : bool) (name version : str)
| OEups (t : str).                (* a line naming eups, written after everything else *)

Definition out_bline (b : bline) : oline :=
  match b with
  | BBlank => OBlank
  | BComment t => OComment t
  | BSetup r => OSetup r
  | BOther t => OOther t
  | BEups t => OEups t
  end.

Definition is_beups (b : bline) : bool := match b with BEups _ => true | _ => false end.
Definition body_lines (b : list bline) : list bline := filter (fun x => negb (is_beups x)) b.
Fixpoint eups_lines (b : list bline) : list str :=
  match b with
  | [] => []
  | BEups t :: b' => t :: eups_lines b'
  | _ :: b' => eups_lines b'
  end.

(* the cosmetic rule: a blank last line of a setup block is not written - when the indentation level is
   positive *)
Fixpoint drop_last_blank (b : list bline) : list bline :=
  match b with
  | [] => []
  | [BBlank] => []
  | x :: b' => x :: drop_last_blank b'
  end.
Definition setup_body (lvl : Z) (b : list bline) : list bline :=
  if (0 <? lvl + 1)%Z then drop_last_blank (body_lines b) else body_lines b.

Definition pin_lines (a : acc) : list oline :=
  map (fun k => OPin (mem_key k (a_opt a) || mem_str (fst k) (a_nf a)) (fst k) (snd k)) (a_des a).

(* The indentation level.  Only the FIRST line of a block of other lines is looked at: if it ends with a left
   brace it is written at the current level and the level goes up; if it is a lone right brace the level goes
   down first.  Comment lines are kept as read, so a comment that ends with a left brace counts.  Returns the
   level of the first line and the level of the remaining lines (which is the level afterwards). *)
Definition c_lbrace : ascii := ascii_of_nat 123.
Definition c_rbrace : ascii := ascii_of_nat 125.
Definition ends_lbrace (t : str) : bool :=
  match rev t with c :: _ => ascii_eqb c c_lbrace | [] => false end.
Definition is_rbrace (t : str) : bool := str_eqb t [c_rbrace].
Definition block_levels (lvl : Z) (b : list bline) : Z * Z :=
  match b with
  | BOther t :: _ => if ends_lbrace t then (lvl, lvl + 1)%Z
                     else if is_rbrace t then (lvl - 1, lvl - 1)%Z else (lvl, lvl)
  | BComment t :: _ => if ends_lbrace t then (lvl, lvl + 1)%Z else (lvl, lvl)
  | _ => (lvl, lvl)
  end.

Definition at_level (lvl : Z) (l : list oline) : list (Z * oline) := map (fun o => (lvl, o)) l.

(* the lines with the level each is written at *)
Fixpoint emit_z (lvl : Z) (pins : list oline) (bs : list (bool * list bline)) : list (Z * oline) :=
  match bs with
  | [] => []
  | (false, b) :: rest =>
      let '(l1, l2) := block_levels lvl b in
      match map out_bline b with
      | [] => []
      | x :: r => (l1, x) :: at_level l2 r
      end ++ emit_z l2 pins rest
  | (true, b) :: rest =>
      let body := at_level (lvl + 1) (map out_bline (setup_body lvl b)) in
      if existsb fst rest
      then (lvl, OIfNotExact) :: body ++ (lvl, OClose) :: emit_z lvl pins rest
      else (lvl, OIfExact) :: at_level (lvl + 1) pins ++ (lvl, OElse) :: body ++ (lvl, OClose) :: emit_z lvl pins rest
  end.

(* the lines alone (emit_levels: it is map snd of emit_z) *)
Fixpoint emit (lvl : Z) (pins : list oline) (bs : list (bool * list bline)) : list oline :=
  match bs with
  | [] => []
  | (false, b) :: rest => map out_bline b ++ emit (snd (block_levels lvl b)) pins rest
  | (true, b) :: rest =>
      let body := map out_bline (setup_body lvl b) in
      if existsb fst rest
      then OIfNotExact :: body ++ OClose :: emit lvl pins rest
      else OIfExact :: pins ++ OElse :: body ++ OClose :: emit lvl pins rest
  end.

Definition final_lines (bl : list bline) : list oline := map OEups (eups_lines bl).

Definition expand_gen (jfix sfix cfix : bool) (w : world) (e : amap str) (top : str) (plist : amap str)
                      (force : bool) (rd : rawdeps) (ls : list tline) : res (list oline) :=
  let bl := map (rewrite_line w e plist) ls in
  match collect jfix sfix cfix w e top plist force rd (setup_rlines bl) {| a_des := []; a_opt := []; a_nf := [] |} with
  | Err x => Err x
  | Ok a => Ok (emit 0 (pin_lines a) (blocks false [] bl) ++ final_lines bl)
  end.

(* the same with the indentation level of every line (the lines after everything else are at level 0) *)
Definition expand_layout (jfix sfix cfix : bool) (w : world) (e : amap str) (top : str) (plist : amap str)
                         (force : bool) (rd : rawdeps) (ls : list tline) : res (list (Z * oline)) :=
  let bl := map (rewrite_line w e plist) ls in
  match collect jfix sfix cfix w e top plist force rd (setup_rlines bl) {| a_des := []; a_opt := []; a_nf := [] |} with
  | Err x => Err x
  | Ok a => Ok (emit_z 0 (pin_lines a) (blocks false [] bl) ++ at_level 0 (final_lines bl))
  end.

(* the code as repaired, and the pinned tree *)
Definition expand := expand_gen true true true.
Definition expand_pinned := expand_gen false false false.

(* ---------- text *)

Definition cmd_name (optional : bool) : str := if optional then lit "setupOptional" else lit "setupRequired".

Definition render_rline (r : rline) : str :=
  match r with
  | RKeep s => sl_orig s
  | RNew o n fl v lg =>
      cmd_name o ++ lit "(" ++
      join_str [c_space] (n :: fl ++ v :: match lg with Some l => [lit "[" ++ l ++ lit "]"] | None => [] end) ++
      lit ")"
  end.

(* python: the name left-justified in a field of 15 characters *)
Definition pad15 (n : str) : str := n ++ repeat c_space (15 - length n).

Definition render (o : oline) : str :=
  match o with
  | OBlank => []
  | OComment t => t
  | OOther t => t
  | OSetup r => render_rline r
  | OIfExact => lit "if (type == exact) {"
  | OIfNotExact => lit "if (type != exact) {"
  | OElse => lit "} else {"
  | OClose => lit "}"
  | OPin o n v => cmd_name o ++ lit "(" ++ pad15 n ++ lit " -j " ++ v ++ lit ")"
  | OEups t => t
  end.

(* the line as written: three blanks per level, none below level one *)
Definition indent (lvl : Z) : str := repeat c_space (3 * Z.to_nat lvl).
Definition render_at (x : Z * oline) : str := indent (fst x) ++ render (snd x).

(* ---------- what a reader of the expanded table sees in exact / in non-exact mode *)

Inductive vmode := VOut | VPins | VElse | VNot.

Fixpoint view (exact : bool) (m : vmode) (ls : list oline) : list oline :=
  match ls with
  | [] => []
  | l :: ls' =>
      match m, l with
      | VOut, OIfExact => view exact VPins ls'
      | VOut, OIfNotExact => view exact VNot ls'
      | VOut, _ => l :: view exact VOut ls'
      | VPins, OElse => view exact VElse ls'
      | VPins, _ => if exact then l :: view exact VPins ls' else view exact VPins ls'
      | VElse, OClose => view exact VOut ls'
      | VElse, _ => if exact then view exact VElse ls' else l :: view exact VElse ls'
      | VNot, OClose => view exact VOut ls'
      | VNot, _ => if exact then view exact VNot ls' else l :: view exact VNot ls'
      end
  end.

Definition exact_view (out : list oline) : list oline := view true VOut out.
Definition inexact_view (out : list oline) : list oline := view false VOut out.

(* the pins of an expanded table, in order *)
Fixpoint pins_of (ls : list oline) : list nvo :=
  match ls with
  | [] => []
  | OPin o n v :: ls' => (n, v, o) :: pins_of ls'
  | _ :: ls' => pins_of ls'
  end.

(* the actions Model/Setup.v runs for the exact view: a pin is a setup action with -j; the meaning of
   the other lines is a parameter *)
Fixpoint exact_actions (interp : str -> list action) (ls : list oline) : list action :=
  match ls with
  | [] => []
  | OPin o n _ :: ls' => ASetup o n true :: exact_actions interp ls'
  | OOther t :: ls' => interp t ++ exact_actions interp ls'
  | OEups t :: ls' => interp t ++ exact_actions interp ls'       (* a version check of eups itself: no setup *)
  | _ :: ls' => exact_actions interp ls'
  end.

(* the decision stream the explicit versions determine *)
Definition forced_decisions (topv : str) (pins : list nvo) (absent : list str) : list decision :=
  Some topv :: map (fun p => Some (snd (fst p))) pins ++ map (fun _ => None) absent.
