(* The two switches of table.expandTableFile that eups expandtable and app.expandTableFile hand down:

     expandVersions   (eups expandtable -N / --noVersionExpressions turns it off)
                      subSetup appends the bracketed expression to a rewritten line only when it is on;
                      switched off, a line whose product is set up is still rewritten with the version that is set up -
                      command, product, flags, version - but carries no expression, neither the one the expansion
                      would add (>= version) nor the one the line had;
     addExactBlock    (eups expandtable --noExact turns it off)
                      switched off, no block on the expansion type is written at all: neither if (type == exact)
                      with the pins, nor else, nor if (type != exact), nor the closing brace; every block of setup
                      lines is written where it stands, at the current indentation level.  The set-up closure is
                      collected all the same (the loop over the products runs before anything is written), so the
                      expansion raises where it raises with the block.

   Nothing else depends on them: which product a line names, whether it is optional, whether it carries -j are
   read from the arguments of the rewritten line (name and flags), which the expression does not touch.

   Layered on Model/Expand.v and Model/ExpandText.v: [expand_text_opt true true] IS [expand_text_gen]
   (Proofs/ExpandOpt.v expand_text_opt_defaults).  No proofs here. *)
From Coq Require Import List ZArith Bool Ascii.
Import ListNotations.
From Eupsv Require Import Base.Base Model.Rx Model.PathAlg Model.Setup Model.Expand Model.ExpandText Model.ExpandRe.

(* ---------- expandVersions *)

Definition strip_logical (ev : bool) (r : rline) : rline :=
  match r with
  | RKeep s => RKeep s
  | RNew o n fl v lg => RNew o n fl v (if ev then lg else None)
  end.

Definition rewrite_line_opt (ev : bool) (w : world) (e : amap str) (plist : amap str) (l : tline) : bline :=
  match rewrite_line w e plist l with
  | BSetup r => BSetup (strip_logical ev r)
  | b => b
  end.

(* ---------- addExactBlock *)

(* the cosmetic rule without the block: the lines stay at the current level, and a blank last line is dropped when
   that level is positive *)
Definition setup_body_plain (lvl : Z) (b : list bline) : list bline :=
  if (0 <? lvl)%Z then drop_last_blank (body_lines b) else body_lines b.

Fixpoint emit_z_opt (ab : bool) (lvl : Z) (pins : list oline) (bs : list (bool * list bline)) : list (Z * oline) :=
  match bs with
  | [] => []
  | (false, b) :: rest =>
      let '(l1, l2) := block_levels lvl b in
      match map out_bline b with
      | [] => []
      | x :: r => (l1, x) :: at_level l2 r
      end ++ emit_z_opt ab l2 pins rest
  | (true, b) :: rest =>
      if ab then
        let body := at_level (lvl + 1) (map out_bline (setup_body lvl b)) in
        if existsb fst rest
        then (lvl, OIfNotExact) :: body ++ (lvl, OClose) :: emit_z_opt ab lvl pins rest
        else (lvl, OIfExact) :: at_level (lvl + 1) pins ++ (lvl, OElse) :: body ++ (lvl, OClose) :: emit_z_opt ab lvl pins rest
      else
        at_level lvl (map out_bline (setup_body_plain lvl b)) ++ emit_z_opt ab lvl pins rest
  end.

(* ---------- the expansion with the two switches *)

Definition acc0 : acc := {| a_des := []; a_opt := []; a_nf := [] |}.

(* the lines of the table after subSetup *)
Definition rewritten (ev : bool) (w : world) (e : amap str) (plist : amap str) (ls : list tline) : list bline :=
  map (rewrite_line_opt ev w e plist) ls.

(* desiredProducts / optionalProducts / notFound *)
Definition collected (ev : bool) (jfix sfix cfix : bool) (w : world) (e : amap str) (top : str) (plist : amap str)
                     (force : bool) (rd : rawdeps) (ls : list tline) : res acc :=
  collect jfix sfix cfix w e top plist force rd (setup_rlines (rewritten ev w e plist ls)) acc0.

Definition expand_layout_opt (ev ab : bool) (jfix sfix cfix : bool) (w : world) (e : amap str) (top : str)
                             (plist : amap str) (force : bool) (rd : rawdeps) (ls : list tline) : res (list (Z * oline)) :=
  let bl := rewritten ev w e plist ls in
  match collected ev jfix sfix cfix w e top plist force rd ls with
  | Err x => Err x
  | Ok a => Ok (emit_z_opt ab 0 (pin_lines a) (blocks false [] bl) ++ at_level 0 (final_lines bl))
  end.

Definition expand_text_lines_opt (ev ab : bool) (tfix jfix sfix cfix : bool) (w : world) (e : amap str) (top : str)
                                 (plist : amap str) (force : bool) (rd : rawdeps) (text : str) : verdict (list str) :=
  match classify_text tfix text with
  | Outside x => Outside x
  | Raises x => Raises x
  | Inside ls =>
      match expr_checks w e plist ls with
      | Outside x => Outside x
      | Raises x => Raises x
      | Inside _ =>
          match expand_layout_opt ev ab jfix sfix cfix w e top plist force rd ls with
          | Ok lay =>
              let out := map render_at lay in
              if forallb (fun l => negb (mem_ascii c_nl l)) out then Inside out else Outside XNewline
          | Err x => Raises x
          end
      end
  end.

Definition expand_text_opt (ev ab : bool) (tfix jfix sfix cfix : bool) (w : world) (e : amap str) (top : str)
                           (plist : amap str) (force : bool) (rd : rawdeps) (text : str) : verdict str :=
  match expand_text_lines_opt ev ab tfix jfix sfix cfix w e top plist force rd text with
  | Inside ls => Inside (unlines ls)
  | Outside x => Outside x
  | Raises x => Raises x
  end.

(* a table that has been expanded before: the lines the earlier expansion added are dropped first (Model/ExpandRe.v) *)
Definition reexpand_text_opt (ev ab : bool) (tfix jfix sfix cfix : bool) (w : world) (e : amap str) (top : str)
                             (plist : amap str) (force : bool) (rd : rawdeps) (text : str) : verdict str :=
  expand_text_opt ev ab tfix jfix sfix cfix w e top plist force rd (unexpand_text text).

(* ---------- vocabulary of the statements *)

(* a line an expansion adds: the four scaffold lines and the pins *)
Definition is_added (o : oline) : bool :=
  match o with
  | OIfExact | OIfNotExact | OElse | OClose | OPin _ _ _ => true
  | _ => false
  end.

(* does a written setup line carry a bracketed expression of the expansion? *)
Definition carries_expression (r : rline) : bool :=
  match r with
  | RNew _ _ _ _ (Some _) => true
  | _ => false
  end.

(* the expression taken off a line of the table after subSetup / a written line / a written line with its level / a block *)
Definition sb (ev : bool) (b : bline) : bline := match b with BSetup r => BSetup (strip_logical ev r) | _ => b end.
Definition so (ev : bool) (o : oline) : oline := match o with OSetup r => OSetup (strip_logical ev r) | _ => o end.
Definition sz (ev : bool) (x : Z * oline) : Z * oline := (fst x, so ev (snd x)).
Definition sblk (ev : bool) (p : bool * list bline) : bool * list bline := (fst p, map (sb ev) (snd p)).
