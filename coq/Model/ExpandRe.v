(* Re-expansion: table.expandTableFile on a table that has been expanded before (the installed table of a product
   that is expanded again when it is packaged; eups expandtable -i run twice).

   The repaired code (proposed_fixes/C17-reexpansion-anywhere) drops, WHILE IT READS the table, the lines an earlier
   expansion added:
        if (type == exact) {      and every command line up to the matching   } else {   (the versions pinned then;
                                  a lone right brace ends a block that has no else branch)
        } else {
        if (type != exact) {
        }                         the first lone right brace after   } else {   or   if (type != exact) {
   Blank lines and comment-only lines are never dropped.  A line is tested after its trailing comment was removed;
   the patterns are anchored at both ends and allow white space between their pieces (if, the parenthesis with type,
   the operator, exact with its parenthesis, the brace).  What is left is processed exactly as the table of a product
   that was never expanded: Model/ExpandText.v, unchanged.  So

        reexpand_text = expand_text after unexpand_text

   and for a text without such lines unexpand_text changes nothing (Proofs/ExpandRe.v unexpand_plain).

   The pinned tree looked for the old block when it WROTE the blocks: only a block of other lines that consisted of
   the single line  if (type == exact) {  was recognised (first line of the file, or directly behind setup lines), the
   next two blocks were skipped on trust and the old closing brace stayed behind; in every other position the old
   block was taken for ordinary text (corpus/C17/reexpansion-*.json).  That behaviour is not modelled: the text model
   of the pinned tree (expand_text_pinned) keeps its verdict Outside XExactBlock.
   Executable definitions only. *)
From Eupsv Require Import Base.Base Model.Rx Model.PathAlg Model.Setup Model.Expand Model.ExpandText.

(* literal pieces with optional white space in front of each, then white space to the end: a pattern anchored at
   both ends whose pieces are separated by backslash-s-star *)
Fixpoint seq_full (ps : list str) (s : str) : bool :=
  match ps with
  | [] => all_ws s
  | p :: ps' => match cs_prefix p (drop_ws s) with
                | Some r => seq_full ps' r
                | None => false
                end
  end.

Definition p_close : list str := [[c_rb]].
Definition p_else : list str := [[c_rb]; lit "else"; [c_lb]].
Definition p_if_exact : list str := [lit "if"; lit "(type"; lit "=="; lit "exact)"; [c_lb]].
Definition p_if_not_exact : list str := [lit "if"; lit "(type"; lit "!="; lit "exact)"; [c_lb]].

(* the first test of the read loop: white space, then nothing or a comment *)
Definition blank_or_comment (l : str) : bool :=
  match drop_ws l with
  | [] => true
  | c :: _ => ascii_eqb c c_hash
  end.

(* where the reader is: outside the blocks of an earlier expansion, among the old pins, among the guarded setups *)
Inductive gstate := GNone | GPins | GSetups.

(* one line: is it kept, and the state behind it *)
Definition unexpand_step (g : gstate) (l : str) : bool * gstate :=
  if blank_or_comment l then (true, g) else
  let c := before_hash l in
  match g with
  | GPins => if seq_full p_else c then (false, GSetups)
             else if seq_full p_close c then (false, GNone)
             else (false, GPins)
  | GSetups => if seq_full p_close c then (false, GNone) else (true, GSetups)
  | GNone => if seq_full p_if_exact c then (false, GPins)
             else if seq_full p_if_not_exact c then (false, GSetups)
             else (true, GNone)
  end.

Fixpoint unexpand (g : gstate) (ls : list str) : list str :=
  match ls with
  | [] => []
  | l :: r =>
      let '(keep, g') := unexpand_step g l in
      if keep then l :: unexpand g' r else unexpand g' r
  end.

Definition unexpand_text (text : str) : str := unlines (unexpand GNone (lines_of text)).

(* ---------- the composition *)

Definition reexpand_text_gen (tfix jfix sfix cfix : bool) (w : world) (e : amap str) (top : str) (plist : amap str)
                             (force : bool) (rd : rawdeps) (text : str) : verdict str :=
  expand_text_gen tfix jfix sfix cfix w e top plist force rd (unexpand_text text).

(* the code as repaired *)
Definition reexpand_text := reexpand_text_gen true true true true.

(* ---------- what a reader of a table sees of its lines, type == exact or not, when the blocks are recognised as the
   repaired code recognises them (the reference for the theorems: an independent statement of which lines of an
   expanded table are commands of the table itself) *)

(* the lines of the table itself: not the scaffolding, not the old pins.  This is [unexpand]; it is named again so that
   statements read as intended *)
Definition own_lines (ls : list str) : list str := unexpand GNone ls.

(* is the line one of the four forms an expansion adds? *)
Definition is_scaffold (l : str) : bool :=
  negb (blank_or_comment l) &&
  (let c := before_hash l in
   seq_full p_if_exact c || seq_full p_if_not_exact c || seq_full p_else c || seq_full p_close c).

(* does any line open a block on the expansion type? *)
Definition opens_type_block (l : str) : bool :=
  negb (blank_or_comment l) &&
  (let c := before_hash l in seq_full p_if_exact c || seq_full p_if_not_exact c).
