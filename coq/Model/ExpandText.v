(* Level A of table.expandTableFile (table.py 1266-1568): from the TEXT of a table file to the classified
   lines of Model/Expand.v, and from the expanded lines back to the text that is written.

     classify_line   one line of the file (without its line end) to a tline, following
                       - the test for blank / comment-only lines (white space, then nothing or a hash)
                       - the removal of a trailing comment (the first hash with the white space in front of it, to
                         the end of the line)
                       - the command pattern: setupRequired or setupOptional, a left parenthesis, an optional double
                         quote, a group of characters other than the double quote, an optional double quote, a right
                         parenthesis (not anchored: found anywhere in the line; the group runs up to the LAST right
                         parenthesis in front of the next double quote)
                       - the loop of subSetup over the white-space separated arguments: flags with an argument
                         (-f -g -H -m -M -q -r -U -z, kept as one string flag-blank-argument), flags without
                         (-c -d -e -j -k -n -o -P -s -v -t -V -0 .. -3; note -t: the tag after it counts as a bare
                         word), every other word that starts with a dash is DROPPED, a bare word is split at a
                         leading left bracket and a trailing right bracket; the first bare word is the product, the
                         next - unless it is the left bracket - the version; the words between the first left and
                         the first right bracket are the logical expression, the others are kept (they follow a
                         relative version, and are lost otherwise)
                       - a command whose first argument is eups is put aside unchanged (LEups)
     lines_of        the lines a python file object yields (split at line feeds; no empty piece after the last)
     render_at       indentation (three blanks per level, none at or below level zero) and the stripped line;
                     the pins are written with the product name left-justified in 15 columns
     expand_text     the composition; white-space exact

   A verdict, not a guess: [Outside why] is returned for the constructs this composition does not follow exactly
     XNonAscii      a character above 127, or a carriage return (a file opened in text mode translates it)
     XExternal      the line contains --external (such lines are skipped when the blocks are written, comments included)
     XExactBlock    a line other than a setup command which, its white space deleted, contains if(type==exact){ or
                    if(type!=exact){ : a pre-existing exact block (the code then skips three blocks - FRAGILE, it says)
     XTextAround    the line mentions setupRequired( or setupOptional( but is not, blanks and a trailing comment aside,
                    exactly one command matched by the pattern: text in front (unsetupRequired!), text behind (a
                    semicolon), two commands, no closing parenthesis
     XParen         a parenthesis between the parentheses of the command
     XNoName        no bare word among the arguments (the code then passes the line on but still counts it)
     XNameNotFirst  the product name is not the first argument (a flag in front of it, a bracket glued to it; pinned
                    code: it is not what directly follows the left parenthesis up to the first blank): the closure
                    loop takes its product name from there
     XFlagArg       the argument of a flag is the word -j (the closure loop looks for the word -j anywhere)
     XExpr          the logical expression of a line is one on which C10's model of Eups.version_match
                    (Model/VersionCompare.v) answers not-modelled
     XNewline       a line that would be written contains a line feed (it can only come from a version name in the
                    environment, the productList or the database)
   and [Raises ...] where the code raises: BadTable, a flag that wants an argument is the last word; Crash, the
   line's logical expression makes Eups.version_match raise when subSetup compares it with the version it is about
   to write (a relational operator at the very end; an operand that starts with a hyphen or a plus sign) - whether
   the expression is SATISFIED only decides about a warning.
   expandVersions, addExactBlock, recurse at their defaults; versionRegexp absent (it only warns).

   One repair of the tree is modelled behind the boolean tfix (proposed_fixes/C17-setup-line-spelling):
     tfix = false  the pinned code: the command name is matched case-SENSITIVELY with the parenthesis right behind it,
                   and the arguments are split at white space only - although the table reader (Table._read) takes
                   the name in any case, allows blanks in front of the parenthesis and splits at commas as well;
                   a line spelt SetupRequired(p) is then an other line: not rewritten, its product not pinned;
     tfix = true   the repaired code: name in any case, white space allowed in front of the parenthesis, arguments
                   split at commas and white space - by subSetup and by the closure loop alike; a rewritten line
                   carries the canonical name.
   Executable definitions only. *)
From Eupsv Require Import Base.Base Model.Rx Model.PathAlg Model.Setup Model.Expand.
From Eupsv Require Model.VersionCompare.

Inductive outside :=
| XNonAscii | XExternal | XExactBlock | XTextAround | XParen | XNoName | XNameNotFirst | XFlagArg | XExpr | XNewline.

Inductive verdict (A : Type) := Inside (a : A) | Outside (why : outside) | Raises (e : errkind).
Arguments Inside {A} a.
Arguments Outside {A} why.
Arguments Raises {A} e.

(* ---------- small text functions *)

(* python str.strip() *)
Definition rstrip (s : str) : str := rev (drop_ws (rev s)).
Definition strip (s : str) : str := rstrip (drop_ws s).

(* the text in front of the first hash; with the white space in front of the hash removed - strip does that - this
   is the re.sub that deletes a trailing comment *)
Fixpoint before_hash (s : str) : str :=
  match s with
  | [] => []
  | c :: r => if ascii_eqb c c_hash then [] else c :: before_hash r
  end.

(* p occurs in s *)
Fixpoint has_sub (p s : str) : bool :=
  starts_with p s || match s with [] => false | _ :: r => has_sub p r end.

Definition remove_ws (s : str) : str := filter (fun c => negb (is_pyspace c)) s.

Definition ascii_ok (c : ascii) : bool := (nat_of_ascii c <? 128) && negb (nat_of_ascii c =? 13).

Definition kw_required : str := lit "setupRequired".
Definition kw_optional : str := lit "setupOptional".

(* the name and the left parenthesis at the start of s: the text behind *)
Definition kw_paren (tfix : bool) (kw : str) (s : str) : option str :=
  match (if tfix then ci_prefix (lower_str kw) s else cs_prefix kw s) with
  | Some r =>
      match (if tfix then drop_ws r else r) with
      | c :: r' => if ascii_eqb c c_lp then Some r' else None
      | [] => None
      end
  | None => None
  end.
Definition kw_at (tfix : bool) (s : str) : option (bool * str) :=
  match kw_paren tfix kw_required s with
  | Some r => Some (false, r)
  | None => match kw_paren tfix kw_optional s with Some r => Some (true, r) | None => None end
  end.
Definition kw_here (tfix : bool) (s : str) : bool := match kw_at tfix s with Some _ => true | None => false end.

(* a setup command name with its parenthesis occurs somewhere in s *)
Fixpoint mentions_setup (tfix : bool) (s : str) : bool :=
  kw_here tfix s || match s with [] => false | _ :: r => mentions_setup tfix r end.

Definition exactish (s : str) : bool :=
  let u := remove_ws s in has_sub (lit "if(type==exact){") u || has_sub (lit "if(type!=exact){") u.

(* ---------- the command pattern *)

Definition not_dq (c : ascii) : bool := negb (ascii_eqb c c_dq).

(* what follows the left parenthesis, with the backtracking order of python: an optional quote, the
   longest run of non-quotes, then either quote-parenthesis right behind the run, or the run cut at its last right
   parenthesis.  Returns the group and the text behind the match. *)
Definition inner_match (s : str) : option (str * str) :=
  let s1 := match s with q :: r => if ascii_eqb q c_dq then r else s | [] => s end in
  let '(run, rest) := Rx.span not_dq s1 in
  let cut := match split_last c_rp run with
             | Some (a, b) => Some (a, b ++ rest)
             | None => None
             end in
  match rest with
  | _ :: p :: rest' => if ascii_eqb p c_rp then Some (run, rest') else cut
  | _ => cut
  end.

(* the pattern at the start of s: (setupOptional?, group 2, the text behind) *)
Definition cmd_at (tfix : bool) (s : str) : option (bool * str * str) :=
  match kw_at tfix s with
  | Some (o, r) => match inner_match r with Some (g, t) => Some (o, g, t) | None => None end
  | None => None
  end.

(* ---------- the loop of subSetup over the arguments *)

Definition second_in (cls : str) (a : str) : bool :=
  match a with
  | d :: c :: _ => ascii_eqb d "-"%char && mem_ascii c cls
  | _ => false
  end.
Definition flag_with_arg (a : str) : bool := second_in (lit "fgHmMqrUz") a.
Definition flag_plain (a : str) : bool := second_in (lit "cdejknoPsvtV0123") a.
Definition dashed (a : str) : bool := match a with d :: _ => ascii_eqb d "-"%char | [] => false end.

Definition s_lbr : str := lit "[".
Definition s_rbr : str := lit "]".

(* a bare word: a leading left bracket and a trailing right bracket become words of their own *)
Definition word_pieces (a : str) : list str :=
  let '(pre, a1) := match a with
                    | c :: r => if ascii_eqb c "["%char then ([s_lbr], r) else ([], a)
                    | [] => ([], a)
                    end in
  match rev a1 with
  | c :: m => if ascii_eqb c "]"%char then pre ++ [rev m; s_rbr] else pre ++ [a1]
  | [] => pre ++ [a1]
  end.

Inductive scanres := SOk (flags words : list str) | SErr | SJust.

Fixpoint scan_args (ts : list str) : scanres :=
  match ts with
  | [] => SOk [] []
  | a :: r =>
      if flag_with_arg a then
        match r with
        | [] => SErr                                            (* Flag ... expected an argument *)
        | b :: r' =>
            if str_eqb b (lit "-j") then SJust else
            match scan_args r' with
            | SOk fl ws => SOk ((a ++ c_sp :: b) :: fl) ws
            | x => x
            end
        end
      else if flag_plain a || starts_with (lit "--external") a then
        match scan_args r with
        | SOk fl ws => SOk (a :: fl) ws
        | x => x
        end
      else if dashed a then scan_args r                          (* I do not know how to process / Unknown setup flag *)
      else
        match scan_args r with
        | SOk fl ws => SOk fl (word_pieces a ++ ws)
        | x => x
        end
  end.

Fixpoint index_of (x : str) (l : list str) : nat :=
  match l with
  | [] => 0
  | y :: r => if str_eqb x y then 0 else S (index_of x r)
  end.

(* if both brackets are among the words: logical = the words between the first left and the first right one, which
   are deleted together with the brackets (python slices: nothing between and nothing deleted when the right one
   comes first) *)
Definition take_bracket (ws : list str) : option str * list str :=
  if mem_str s_lbr ws && mem_str s_rbr ws then
    let l := index_of s_lbr ws in
    let r := index_of s_rbr ws in
    (Some (join_str [c_sp] (firstn (r - S l) (skipn (S l) ws))),
     if l <? r then firstn l ws ++ skipn (S r) ws else ws)
  else (None, ws).

Definition paren (c : ascii) : bool := ascii_eqb c c_lp || ascii_eqb c c_rp.

(* python: g.split(blank)[0] *)
Definition first_piece (g : str) : str := fst (Rx.span (fun c => negb (ascii_eqb c c_sp)) g).

Definition is_argsep (tfix : bool) (c : ascii) : bool := is_pyspace c || (tfix && ascii_eqb c c_comma).

Definition classify_args (tfix : bool) (optional : bool) (g2 orig : str) : verdict tline :=
  match split_set (is_argsep tfix) g2 with
  | [] => Outside XNoName
  | (t0 :: _) as ts =>
      (* the name the closure loop takes: the first argument (repaired: split as subSetup splits), pinned: the group
         up to its first blank *)
      let loop_name := if tfix then t0 else first_piece g2 in
      if str_eqb t0 (lit "eups") then
        (if str_eqb loop_name t0 then Inside (LEups orig) else Outside XNameNotFirst)
      else
        match scan_args ts with
        | SErr => Raises BadTable
        | SJust => Outside XFlagArg
        | SOk flags words =>
            match words with
            | [] => Outside XNoName
            | name :: ws =>
                if negb (str_eqb loop_name name) then Outside XNameNotFirst else
                let '(version, ws1) := match ws with
                                       | v :: ws' => if str_eqb v s_lbr then (None, ws) else (Some v, ws')
                                       | [] => (None, [])
                                       end in
                let '(logical, ws2) := take_bracket ws1 in
                Inside (LSetup {| sl_optional := optional; sl_name := name; sl_flags := flags; sl_version := version;
                                  sl_rest := ws2; sl_logical := logical; sl_orig := orig |})
            end
        end
  end.

(* ---------- one line *)

Definition classify_line (tfix : bool) (l : str) : verdict tline :=
  if negb (forallb ascii_ok l) then Outside XNonAscii else
  if has_sub (lit "--external") l then Outside XExternal else
  match drop_ws l with
  | [] => Inside LBlank
  | c :: _ =>
      if ascii_eqb c c_hash then
        (if exactish l then Outside XExactBlock else Inside (LComment (strip l)))
      else
        let l1 := before_hash l in
        if negb (mentions_setup tfix l1) then
          (if exactish l1 then Outside XExactBlock else Inside (LOther (strip l1)))
        else
          match cmd_at tfix (drop_ws l1) with
          | Some (optional, g2, rest) =>
              if negb (all_ws rest) then Outside XTextAround else
              if existsb paren g2 then Outside XParen else
              classify_args tfix optional g2 (strip l1)
          | None => Outside XTextAround
          end
  end.

(* ---------- the file *)

Fixpoint drop_last_empty (l : list str) : list str :=
  match l with
  | [] => []
  | [[]] => []
  | x :: r => x :: drop_last_empty r
  end.

(* for line in ifd, each without its line feed *)
Definition lines_of (text : str) : list str := drop_last_empty (split_on c_nl text).

Fixpoint classify_lines (tfix : bool) (ls : list str) : verdict (list tline) :=
  match ls with
  | [] => Inside []
  | l :: r =>
      match classify_line tfix l, classify_lines tfix r with
      | Outside x, _ => Outside x
      | _, Outside x => Outside x
      | Raises x, _ => Raises x
      | _, Raises x => Raises x
      | Inside a, Inside b => Inside (a :: b)
      end
  end.

Definition classify_text (tfix : bool) (text : str) : verdict (list tline) := classify_lines tfix (lines_of text).

(* ---------- the call of Eups.version_match in subSetup.  It is made when the line has a logical expression of its own
   and a version is about to be written (Model/Expand.v rewrite answers RNew), with that version.  Its answer only
   decides about a warning; but it can raise. *)

Definition line_logical (s : sline) : option str :=
  match truthy (sl_version s) with
  | Some v => if has_relop v then Some (join_str [c_space] (v :: sl_rest s)) else truthy (sl_logical s)
  | None => truthy (sl_logical s)
  end.

Definition expr_check (w : world) (e : amap str) (plist : amap str) (l : tline) : verdict unit :=
  match l with
  | LSetup s =>
      match rewrite w e plist s, truthy (line_logical s) with
      | RNew _ _ _ v _, Some lg =>
          match VersionCompare.version_match v lg with
          | Ok _ => Inside tt
          | Err Crash => Raises Crash
          | Err _ => Outside XExpr
          end
      | _, _ => Inside tt
      end
  | _ => Inside tt
  end.

Fixpoint expr_checks (w : world) (e : amap str) (plist : amap str) (ls : list tline) : verdict unit :=
  match ls with
  | [] => Inside tt
  | l :: r =>
      match expr_check w e plist l, expr_checks w e plist r with
      | Outside x, _ => Outside x
      | _, Outside x => Outside x
      | Raises x, _ => Raises x
      | _, Raises x => Raises x
      | Inside _, Inside _ => Inside tt
      end
  end.

(* print(line, file=ofd) for every line *)
Fixpoint unlines (ls : list str) : str :=
  match ls with
  | [] => []
  | l :: r => l ++ c_nl :: unlines r
  end.

(* ---------- the composition *)

(* the lines that are written, indentation included *)
Definition expand_text_lines_gen (tfix jfix sfix cfix : bool) (w : world) (e : amap str) (top : str) (plist : amap str)
                                 (force : bool) (rd : rawdeps) (text : str) : verdict (list str) :=
  match classify_text tfix text with
  | Outside x => Outside x
  | Raises x => Raises x
  | Inside ls =>
      match expr_checks w e plist ls with
      | Outside x => Outside x
      | Raises x => Raises x
      | Inside _ =>
          match expand_layout jfix sfix cfix w e top plist force rd ls with
          | Ok lay =>
              let out := map render_at lay in
              if forallb (fun l => negb (mem_ascii c_nl l)) out then Inside out else Outside XNewline
          | Err x => Raises x
          end
      end
  end.

Definition expand_text_gen (tfix jfix sfix cfix : bool) (w : world) (e : amap str) (top : str) (plist : amap str)
                           (force : bool) (rd : rawdeps) (text : str) : verdict str :=
  match expand_text_lines_gen tfix jfix sfix cfix w e top plist force rd text with
  | Inside ls => Inside (unlines ls)
  | Outside x => Outside x
  | Raises x => Raises x
  end.

(* the code as repaired, and the pinned tree *)
Definition expand_text_lines := expand_text_lines_gen true true true true.
Definition expand_text := expand_text_gen true true true true.
Definition expand_text_pinned := expand_text_gen false false false false.

(* ---------- reading a written text back: what a reader sees with / without type == exact.
   The generated blocks are recognised by their lines as written (stripped); inside them only pins, setup lines,
   comments and blank lines occur, so the first lone right brace closes them. *)

Definition t_if_exact : str := lit "if (type == exact) {".
Definition t_if_not_exact : str := lit "if (type != exact) {".
Definition t_else : str := lit "} else {".
Definition t_close : str := lit "}".

Fixpoint tview (exact : bool) (m : vmode) (ls : list str) : list str :=
  match ls with
  | [] => []
  | l :: ls' =>
      match m with
      | VOut => if str_eqb l t_if_exact then tview exact VPins ls'
                else if str_eqb l t_if_not_exact then tview exact VNot ls'
                else l :: tview exact VOut ls'
      | VPins => if str_eqb l t_else then tview exact VElse ls'
                 else if exact then l :: tview exact VPins ls' else tview exact VPins ls'
      | VElse => if str_eqb l t_close then tview exact VOut ls'
                 else if exact then tview exact VElse ls' else l :: tview exact VElse ls'
      | VNot => if str_eqb l t_close then tview exact VOut ls'
                else if exact then tview exact VNot ls' else l :: tview exact VNot ls'
      end
  end.

(* the lines between  if (type == exact) {  and  } else { *)
Fixpoint tpins (m : vmode) (ls : list str) : list str :=
  match ls with
  | [] => []
  | l :: ls' =>
      match m with
      | VOut => if str_eqb l t_if_exact then tpins VPins ls'
                else if str_eqb l t_if_not_exact then tpins VNot ls'
                else tpins VOut ls'
      | VPins => if str_eqb l t_else then tpins VElse ls' else l :: tpins VPins ls'
      | VElse => if str_eqb l t_close then tpins VOut ls' else tpins VElse ls'
      | VNot => if str_eqb l t_close then tpins VOut ls' else tpins VNot ls'
      end
  end.

(* the stripped lines of a text *)
Definition stripped_lines (text : str) : list str := map strip (lines_of text).

Definition exact_text_view (text : str) : list str := tview true VOut (stripped_lines text).
Definition inexact_text_view (text : str) : list str := tview false VOut (stripped_lines text).
Definition exact_block_of_text (text : str) : list str := tpins VOut (stripped_lines text).

(* the lines of a text that are neither blank, nor comments, nor mention a setup command - each without its
   trailing comment and outer blanks; and the lines that do mention one (as they are) *)
Definition is_other_line (l : str) : bool :=
  let b := before_hash l in negb (all_ws b) && negb (mentions_setup true b).
Definition is_setup_text (l : str) : bool := mentions_setup true (before_hash l).
Definition other_lines (ls : list str) : list str :=
  map (fun l => strip (before_hash l)) (filter is_other_line ls).
Definition setup_texts (ls : list str) : list str := filter is_setup_text ls.

(* the pin line as written *)
Definition pin_text (optional : bool) (n v : str) : str := render (OPin optional n v).
