(* Model of the dependency machinery of eups (property C13, reused by C14):

     Table.dependencies            python/eups/table.py   520-659   -> [walk]
     Eups.getDependentProducts     python/eups/Eups.py   3054-3214  -> [dependent_products]
     utils.stronglyConnectedComponents / topologicalSort  utils.py 710-885 -> [scc], [topo_layers]
     Eups.uses, Uses.remember/invert/users               Uses.py    -> [uses_index], [users]

   Executable definitions only.  The model follows the code with three repairs applied (D15:
   total sort key inside a layer; D2: Uses.users compares tuples; D16: the second walk of
   getDependentProducts ties a name to a version only when one product of that name is listed, and
   the topological depth is kept per product); the pinned behaviour is kept as [node_cmp_pinned] /
   [users_pinned] / [pins_pinned], [relabel_pinned] for the refutation examples.

   A product is a [node] = (name, version-or-None, found?).  Declared products have a version and a
   table in the [world]; a dependency that cannot be resolved is listed by the code as the stub
   Product(name, version text of the table line), which has no table and whose flavor is None.
   Product equality compares name, version and flavor, so with one stack flavor the third
   component (found = flavor is not None) is exactly what tells a stub from the declared product
   of the same name and version (they do meet: see the second walk of getDependentProducts).

   An [edge] is one setupRequired/setupOptional line *after* resolution under the version
   resolution order: [evers] is the version text of the line (None for a bare name), [eres] the
   version the real code resolved it to (None when it found nothing).  Resolution itself belongs
   to C03 and is an input here. *)
From Eupsv Require Import Base.Base.

Definition node := (str * option str * bool)%type.
Definition nname (p : node) : str := fst (fst p).
Definition nver (p : node) : option str := snd (fst p).
Definition nreal (p : node) : bool := snd p.

Definition ostr_eqb (a b : option str) : bool :=
  match a, b with
  | None, None => true
  | Some x, Some y => str_eqb x y
  | _, _ => false
  end.

Definition node_eqb (a b : node) : bool :=
  str_eqb (nname a) (nname b) && ostr_eqb (nver a) (nver b) && Bool.eqb (nreal a) (nreal b).

Fixpoint mem_node (x : node) (l : list node) : bool :=
  match l with
  | [] => false
  | y :: r => if node_eqb x y then true else mem_node x r
  end.

Record edge := mkEdge { ename : str; evers : option str; eres : option str; eopt : bool }.

(* declared product (name, version) -> the dependency lines of its table, in file order *)
Definition world := list ((str * str) * list edge).

Fixpoint table_of (w : world) (n v : str) : option (list edge) :=
  match w with
  | [] => None
  | ((n', v'), es) :: r => if str_eqb n n' && str_eqb v v' then Some es else table_of r n v
  end.

Definition declared (w : world) (n v : str) : bool :=
  match table_of w n v with Some _ => true | None => false end.

Definition node_table (w : world) (p : node) : option (list edge) :=
  if nreal p then match nver p with Some v => table_of w (nname p) v | None => None end else None.

Definition world_nodes (w : world) : list node :=
  map (fun it => (fst (fst it), Some (snd (fst it)), true)) w.

(* ---------------------------------------------------------------- resolution of one line *)

(* what the line denotes when nothing is pinned *)
Definition own_target (e : edge) : node :=
  match eres e with
  | Some r => (ename e, Some r, true)
  | None => (ename e, evers e, false)
  end.

(* requiredVersions: python dict built by update() from a list, so the last mention wins *)
Fixpoint pin_of (pins : list (str * option str)) (n : str) : option (option str) :=
  match pins with
  | [] => None
  | (k, v) :: r =>
      match pin_of r n with
      | Some x => Some x
      | None => if str_eqb n k then Some v else None
      end
  end.

(* table.py 620-625, 643-644: a pinned name is looked up as Eups.findProduct(name, pinned version);
   when that finds nothing the stub carries the version text of the line.  A pin of None (the
   listing held the stub Product(name, None)) makes findProduct ask for the preferred version, which is the
   query a bare line makes anyway. *)
Definition resolve (w : world) (pins : list (str * option str)) (e : edge) : node :=
  match pin_of pins (ename e) with
  | None => own_target e
  | Some (Some v) =>
      if declared w (ename e) v then (ename e, Some v, true) else (ename e, evers e, false)
  | Some None =>
      match evers e with
      | None => own_target e
      | Some _ => (ename e, evers e, false)
      end
  end.

(* ---------------------------------------------------------------- Table.dependencies *)

Definition entry := (node * bool * nat)%type.        (* product, optional?, depth *)
Definition enode (x : entry) : node := fst (fst x).
Definition eoptional (x : entry) : bool := snd (fst x).
Definition edepth (x : entry) : nat := snd x.

(* recursiveDict (keys name-version of the products whose table has been walked) and
   productDictionary (table owner -> the products its lines denote, in order) *)
Record wstate := mkW { vis : list node; pd : list (node * list node) }.

Fixpoint pd_ensure_l (k : node) (m : list (node * list node)) : list (node * list node) :=
  match m with
  | [] => [(k, [])]
  | (k', l) :: r => if node_eqb k k' then m else (k', l) :: pd_ensure_l k r
  end.

Fixpoint pd_add_l (k t : node) (m : list (node * list node)) : list (node * list node) :=
  match m with
  | [] => [(k, [t])]
  | (k', l) :: r => if node_eqb k k' then (k', l ++ [t]) :: r else (k', l) :: pd_add_l k t r
  end.

Definition mark (t : node) (st : wstate) : wstate := mkW (t :: vis st) (pd st).
Definition pd_ensure (k : node) (st : wstate) : wstate := mkW (vis st) (pd_ensure_l k (pd st)).
Definition pd_add (k t : node) (st : wstate) : wstate := mkW (vis st) (pd_add_l k t (pd st)).

(* the loop over the lines of one table; [rec] is the recursive call on a dependency's table *)
Section WalkLines.
  Variable w : world.
  Variable pins : list (str * option str).
  Variable rec : node -> nat -> list edge -> wstate -> res (list entry * wstate).

  Fixpoint walk_lines (tp : node) (depth : nat) (es : list edge) (st : wstate)
    : res (list entry * wstate) :=
    match es with
    | [] => Ok ([], st)
    | e :: r =>
        let t := resolve w pins e in
        let sub :=
          if nreal t && negb (mem_node t (vis st)) then
            match node_table w t with
            | Some es' => rec t (S depth) es' (pd_ensure t (mark t st))
            | None => Ok ([], mark t st)
            end
          else Ok ([], st) in
        match sub with
        | Err x => Err x
        | Ok (l1, st2) =>
            match walk_lines tp depth r (pd_add tp t st2) with
            | Err x => Err x
            | Ok (l2, st3) => Ok ((t, eopt e, depth) :: l1 ++ l2, st3)
            end
        end
    end.
End WalkLines.

Fixpoint walk (fuel : nat) (w : world) (pins : list (str * option str))
         (tp : node) (depth : nat) (es : list edge) (st : wstate) : res (list entry * wstate) :=
  match fuel with
  | 0 => Err OutOfFuel
  | S f => walk_lines w pins (walk f w pins) tp depth es st
  end.

(* prodtbl.dependencies(recursive=True, recursionDepth=1, requiredVersions=pins) on the table of
   [top]: the top product itself is not in recursiveDict *)
Definition walk_top (fuel : nat) (w : world) (pins : list (str * option str)) (top : node)
  : res (list entry * wstate) :=
  match node_table w top with
  | None => Ok ([], mkW [] [])
  | Some es => walk fuel w pins top 1 es (mkW [] [(top, [])])
  end.

Definition drop_top (top : node) (l : list entry) : list entry :=
  filter (fun x => negb (node_eqb (enode x) top)) l.

(* ---------------------------------------------------------------- graphs for topologicalSort *)

Definition graph := list (node * list node).

Fixpoint succs_of (g : graph) (n : node) : option (list node) :=
  match g with
  | [] => None
  | (k, l) :: r => if node_eqb n k then Some l else succs_of r n
  end.

Fixpoint uniq_nodes (l : list node) : list node :=
  match l with
  | [] => []
  | x :: r => x :: filter (fun y => negb (node_eqb y x)) (uniq_nodes r)
  end.

Definition gkeys (g : graph) : list node := map fst g.

(* utils.py 775-783: values become sets, self dependencies are ignored, products that are only
   mentioned become keys with no successors.  (Set iteration order is not modelled: sets are kept
   in first-mention order, which changes neither components nor layers as sets.) *)
Definition prepare (g : graph) : graph :=
  let g1 := map (fun it => (fst it,
                            filter (fun s => negb (node_eqb s (fst it))) (uniq_nodes (snd it)))) g in
  let extra := filter (fun s => negb (mem_node s (gkeys g1))) (uniq_nodes (flat_map snd g1)) in
  g1 ++ map (fun s => (s, [])) extra.

(* ---------------------------------------------------------------- Tarjan, as written *)

Record tstate := mkT { low : list (node * nat); stack : list node; comps : list (list node) }.

Fixpoint low_get (l : list (node * nat)) (n : node) : option nat :=
  match l with
  | [] => None
  | (k, v) :: r => if node_eqb n k then Some v else low_get r n
  end.

Fixpoint low_set (l : list (node * nat)) (n : node) (v : nat) : list (node * nat) :=
  match l with
  | [] => [(n, v)]
  | (k, v') :: r => if node_eqb n k then (k, v) :: r else (k, v') :: low_set r n v
  end.

Section VisitSuccs.
  Variable rec : node -> tstate -> res tstate.

  (* for successor in graph[node]: visit(successor); low[node] = min(low[node], low[successor]) *)
  Fixpoint visit_succs (n : node) (ss : list node) (st : tstate) : res tstate :=
    match ss with
    | [] => Ok st
    | s :: r =>
        match rec s st with
        | Err x => Err x
        | Ok st1 =>
            match low_get (low st1) n, low_get (low st1) s with
            | Some a, Some b => visit_succs n r (mkT (low_set (low st1) n (Nat.min a b)) (stack st1) (comps st1))
            | _, _ => Err Crash
            end
        end
    end.
End VisitSuccs.

Fixpoint visit (fuel : nat) (g : graph) (n : node) (st : tstate) : res tstate :=
  match fuel with
  | 0 => Err OutOfFuel
  | S f =>
      match low_get (low st) n with
      | Some _ => Ok st
      | None =>
          let num := length (low st) in
          let pos := length (stack st) in
          match succs_of g n with
          | None => Err Crash
          | Some ss =>
              match visit_succs (visit f g) n ss (mkT (low_set (low st) n num) (stack st ++ [n]) (comps st)) with
              | Err x => Err x
              | Ok st2 =>
                  match low_get (low st2) n with
                  | None => Err Crash
                  | Some l =>
                      if Nat.eqb num l then
                        let comp := skipn pos (stack st2) in
                        Ok (mkT (fold_left (fun lw it => low_set lw it (length g)) comp (low st2))
                                (firstn pos (stack st2))
                                (comps st2 ++ [comp]))
                      else Ok st2
                  end
              end
          end
      end
  end.

Fixpoint visit_all (fuel : nat) (g : graph) (ns : list node) (st : tstate) : res tstate :=
  match ns with
  | [] => Ok st
  | n :: r => match visit fuel g n st with Err x => Err x | Ok st1 => visit_all fuel g r st1 end
  end.

Definition scc (g : graph) : res (list (list node)) :=
  match visit_all (S (length g)) g (gkeys g) (mkT [] [] []) with
  | Err x => Err x
  | Ok st => Ok (comps st)
  end.

(* ---------------------------------------------------------------- layers *)

Definition comp := list node.

Fixpoint comp_eqb (a b : comp) : bool :=
  match a, b with
  | [], [] => true
  | x :: a', y :: b' => node_eqb x y && comp_eqb a' b'
  | _, _ => false
  end.

Fixpoint mem_comp (c : comp) (l : list comp) : bool :=
  match l with
  | [] => false
  | d :: r => if comp_eqb c d then true else mem_comp c r
  end.

(* node_component: a dict filled component by component, so the last component holding a node wins *)
Fixpoint comp_of (cs : list comp) (n : node) : option comp :=
  match cs with
  | [] => None
  | c :: r => match comp_of r n with Some d => Some d | None => if mem_node n c then Some c else None end
  end.

Definition cgraph := list (comp * list comp).

Fixpoint cg_add (c d : comp) (m : cgraph) : cgraph :=
  match m with
  | [] => [(c, [d])]                                     (* not reached: cg_init holds every component *)
  | (k, l) :: r =>
      if comp_eqb c k then (k, if mem_comp d l then l else l ++ [d]) :: r else (k, l) :: cg_add c d r
  end.

Fixpoint cg_init (cs : list comp) : cgraph :=
  match cs with
  | [] => []
  | c :: r => let m := cg_init r in if mem_comp c (map fst m) then m else (c, []) :: m
  end.

(* utils.py 826-833 *)
Fixpoint cg_edges (cs : list comp) (n : node) (ss : list node) (m : cgraph) : res cgraph :=
  match ss with
  | [] => Ok m
  | s :: r =>
      match comp_of cs n, comp_of cs s with
      | Some cn, Some c_s => cg_edges cs n r (if comp_eqb cn c_s then m else cg_add cn c_s m)
      | _, _ => Err Crash
      end
  end.

Fixpoint cg_of (cs : list comp) (g : graph) (m : cgraph) : res cgraph :=
  match g with
  | [] => Ok m
  | (n, ss) :: r =>
      match comp_of cs n with
      | None => Err Crash
      | Some _ => match cg_edges cs n ss m with Err x => Err x | Ok m1 => cg_of cs r m1 end
      end
  end.

Definition remove_comps (dead : list comp) (l : list comp) : list comp :=
  filter (fun c => negb (mem_comp c dead)) l.

(* utils.py 853-869: repeatedly take the components without successors; what is left over when
   none qualifies is the RuntimeError A cyclic dependency exists *)
Fixpoint peel (fuel : nat) (m : cgraph) : res (list (list comp)) :=
  match fuel with
  | 0 => Err OutOfFuel
  | S f =>
      let ordered := map fst (filter (fun it => match snd it with [] => true | _ => false end) m) in
      match ordered with
      | [] => match m with [] => Ok [] | _ => Err Crash end
      | _ =>
          let m' := map (fun it => (fst it, remove_comps ordered (snd it)))
                        (filter (fun it => negb (mem_comp (fst it) ordered)) m) in
          match peel f m' with
          | Err x => Err x
          | Ok L => Ok (ordered :: L)
          end
      end
  end.

(* python string order (code points) *)
Fixpoint str_compare (a b : str) : comparison :=
  match a, b with
  | [], [] => Eq
  | [], _ => Lt
  | _, [] => Gt
  | x :: a', y :: b' =>
      match Nat.compare (nat_of_ascii x) (nat_of_ascii y) with
      | Eq => str_compare a' b'
      | c => c
      end
  end.

Definition lex (c : comparison) (d : comparison) : comparison := match c with Eq => d | _ => c end.

Definition ostr_or_empty (o : option str) : str := match o with Some v => v | None => [] end.

(* a comparison that may raise TypeError: None *)
Section PSort.
  Context {A : Type}.
  Variable cmp : A -> A -> option comparison.
  Fixpoint pinsert (x : A) (l : list A) : res (list A) :=
    match l with
    | [] => Ok [x]
    | y :: r =>
        match cmp x y with
        | None => Err Unsortable
        | Some Gt => match pinsert x r with Err e => Err e | Ok r' => Ok (y :: r') end
        | Some _ => Ok (x :: l)
        end
    end.
  (* stable: an element stays in front of the equal elements that followed it *)
  Fixpoint psort (l : list A) : res (list A) :=
    match l with
    | [] => Ok []
    | x :: r => match psort r with Err e => Err e | Ok r' => pinsert x r' end
    end.
End PSort.

Definition bool_compare (a b : bool) : comparison :=
  match a, b with false, true => Lt | true, false => Gt | _, _ => Eq end.

(* Product.__lt__ compares (name, version, flavor) tuples: str against None raises (D15) *)
Definition node_cmp_pinned (a b : node) : option comparison :=
  match str_compare (nname a) (nname b) with
  | Eq => match nver a, nver b with
          | Some x, Some y =>
              match str_compare x y with
              | Eq => if Bool.eqb (nreal a) (nreal b) then Some Eq else None
              | c => Some c
              end
          | None, None => if Bool.eqb (nreal a) (nreal b) then Some Eq else None
          | _, _ => None
          end
  | c => Some c
  end.

(* repaired key: (name, version or empty, flavor or empty) *)
Definition node_cmp (a b : node) : option comparison :=
  Some (lex (str_compare (nname a) (nname b))
       (lex (str_compare (ostr_or_empty (nver a)) (ostr_or_empty (nver b)))
            (bool_compare (nreal a) (nreal b)))).

Fixpoint sort_layers (cmp : node -> node -> option comparison) (L : list (list comp))
  : res (list (list node)) :=
  match L with
  | [] => Ok []
  | l :: r =>
      match psort cmp (concat l) with
      | Err e => Err e
      | Ok s => match sort_layers cmp r with Err e => Err e | Ok r' => Ok (s :: r') end
      end
  end.

(* topologicalSort(graph, checkCycles) for a given Tarjan result: layers of components *)
Definition comp_layers (check : bool) (g : graph) (cs : list comp) : res (list (list comp)) :=
  if check && existsb (fun c => Nat.ltb 1 (length c)) cs then Err Refused
  else match cg_of cs g (cg_init cs) with
       | Err x => Err x
       | Ok m => peel (S (length m)) m
       end.

Definition topo_layers_with (cmp : node -> node -> option comparison) (check : bool) (g0 : graph)
  : res (list (list node)) :=
  let g := prepare g0 in
  match scc g with
  | Err x => Err x
  | Ok cs => match comp_layers check g cs with
             | Err x => Err x
             | Ok L => sort_layers cmp L
             end
  end.

Definition topo_layers := topo_layers_with node_cmp.
Definition topo_layers_pinned := topo_layers_with node_cmp_pinned.

(* --checkCycles *)
Definition check_cycles (g0 : graph) : res (list (list node)) := topo_layers true g0.

(* ---------------------------------------------------------------- getDependentProducts *)

(* Eups.py: tsorted_depth[p.name] = nlevel - i - 1, a later layer overwrites *)
Fixpoint depth_by_name (L : list (list node)) (i nlevel : nat) (m : amap nat) : amap nat :=
  match L with
  | [] => m
  | l :: r => depth_by_name r (S i) nlevel
                (fold_left (fun m p => aset (nname p) (nlevel - i - 1) m) l m)
  end.

(* repaired (D16): tsorted_productDepth[p] = nlevel - i - 1, a dict keyed by the Product itself *)
Fixpoint depth_by_node (L : list (list node)) (i nlevel : nat) (m : list (node * nat)) : list (node * nat) :=
  match L with
  | [] => m
  | l :: r => depth_by_node r (S i) nlevel
                (fold_left (fun m p => low_set m p (nlevel - i - 1)) l m)
  end.

(* pinned tree: the depth of the name *)
Definition relabel_pinned (td : amap nat) (x : entry) : entry :=
  match alookup (nname (enode x)) td with
  | Some d => (enode x, eoptional x, d)
  | None => x
  end.

(* repaired: the depth of the product when the sort holds that very product, else the depth of its name *)
Definition relabel (tn : list (node * nat)) (td : amap nat) (x : entry) : entry :=
  match low_get tn (enode x) with
  | Some d => (enode x, eoptional x, d)
  | None => relabel_pinned td x
  end.

Definition entry_cmp (a b : entry) : option comparison :=
  Some (lex (Nat.compare (edepth a) (edepth b)) (str_compare (nname (enode a)) (nname (enode b)))).

Definition entry_sort (l : list entry) : list entry :=
  match psort entry_cmp l with Ok s => s | Err _ => l end.

(* required beats optional *)
Definition optional_of (p : node) (l : list entry) : bool :=
  forallb (fun x => if node_eqb (enode x) p then eoptional x else true) l.

(* walking the sorted list backwards and keeping the first sight of a product = keep its last entry *)
Fixpoint keep_last (l : list entry) : list entry :=
  match l with
  | [] => []
  | x :: r => if mem_node (enode x) (map enode r) then keep_last r else x :: keep_last r
  end.

Definition dedup (l : list entry) : list entry :=
  map (fun x => (enode x, optional_of (enode x) l, edepth x)) (keep_last l).

(* [fx] = true: the code with D16 repaired; false: the pinned tree (no dict of product depths) *)
Definition topo_finish (fx : bool) (L : list (list node)) (dp : list entry) : list entry :=
  let td := depth_by_name L 0 (S (length L)) [] in
  let tn := if fx then depth_by_node L 0 (S (length L)) [] else [] in
  dedup (entry_sort (map (relabel tn td) dp)).

(* requiredVersions of the second walk.  Pinned tree: every listed name is tied to a listed version,
   the last mention wins (a python dict built by update from the list) *)
Definition pins_pinned (dp : list entry) : list (str * option str) :=
  map (fun x => (nname (enode x), nver (enode x))) dp.

(* repaired (D16): a name is tied to the version listed for it only when one product of that name is
   listed, and never the name of the top product; a line on any other name keeps what it denotes *)
Definition sole_of_name (top : node) (dp : list entry) (x : entry) : bool :=
  negb (str_eqb (nname (enode x)) (nname top)) &&
  forallb (fun y => implb (str_eqb (nname (enode y)) (nname (enode x))) (node_eqb (enode y) (enode x))) dp.

Definition pins_fixed (top : node) (dp : list entry) : list (str * option str) :=
  pins_pinned (filter (sole_of_name top dp) dp).

Definition pins_for (fx : bool) (top : node) (dp : list entry) : list (str * option str) :=
  if fx then pins_fixed top dp else pins_pinned dp.

Definition dependent_products_with (fx : bool) (cmp : node -> node -> option comparison)
           (fuel : nat) (w : world) (top : node) (topological : bool) : res (list entry) :=
  match walk_top fuel w [] top with
  | Err x => Err x
  | Ok (l, _) =>
      let dp := drop_top top l in
      if negb topological then Ok dp
      else
        match walk_top fuel w (pins_for fx top dp) top with
        | Err x => Err x
        | Ok (_, st) =>
            match topo_layers_with cmp false (pd st) with
            | Err x => Err x
            | Ok L => Ok (topo_finish fx L dp)
            end
        end
  end.

Definition dependent_products := dependent_products_with true node_cmp.
(* D15 as pinned: the layer sort that may raise *)
Definition dependent_products_pinned := dependent_products_with true node_cmp_pinned.
(* D16 as pinned: one version per name in the second walk, depths per name *)
Definition dependent_products_byname_pinned := dependent_products_with false node_cmp.

(* the graph handed to topologicalSort for [top] (observable for the correspondence check) *)
Definition topo_graph_with (fx : bool) (fuel : nat) (w : world) (top : node) : res graph :=
  match walk_top fuel w [] top with
  | Err x => Err x
  | Ok (l, _) =>
      match walk_top fuel w (pins_for fx top (drop_top top l)) top with
      | Err x => Err x
      | Ok (_, st) => Ok (prepare (pd st))
      end
  end.

Definition topo_graph := topo_graph_with true.
Definition topo_graph_byname_pinned := topo_graph_with false.

(* ---------------------------------------------------------------- uses *)

(* (user name, user version, Props(version of the used product, optional, depth)) *)
Definition consumer := ((str * str) * (option str * bool * nat))%type.
Definition cuser (c : consumer) : str * str := fst c.
Definition cprops (c : consumer) : option str * bool * nat := snd c.

(* Eups.uses 3375-3387: the topological listing of every declared product *)
Fixpoint listings_with (fx : bool) (cmp : node -> node -> option comparison) (fuel : nat) (w : world)
         (ps : list (str * str)) : res (list ((str * str) * list entry)) :=
  match ps with
  | [] => Ok []
  | (n, v) :: r =>
      match dependent_products_with fx cmp fuel w (n, Some v, true) true with
      | Err x => Err x
      | Ok l => match listings_with fx cmp fuel w r with
                | Err x => Err x
                | Ok ls => Ok (((n, v), l) :: ls)
                end
      end
  end.

Definition uses_index (fuel : nat) (w : world) : res (list ((str * str) * list entry)) :=
  listings_with true node_cmp fuel w (map fst w).

(* the string key name:version of Uses._setup_by does not see the flavor *)
Definition ukey := (str * option str)%type.
Definition ukey_of (p : node) : ukey := (nname p, nver p).
Definition ukey_eqb (a b : ukey) : bool := str_eqb (fst a) (fst b) && ostr_eqb (snd a) (snd b).

Fixpoint uniq_keys (l : list ukey) : list ukey :=
  match l with
  | [] => []
  | x :: r => x :: filter (fun y => negb (ukey_eqb y x)) (uniq_keys r)
  end.

(* Uses.invert for one key: the entries of _setup_by[key] *)
Definition setup_by (idx : list ((str * str) * list entry)) (key : ukey) : list consumer :=
  flat_map (fun it => map (fun x => (fst it, (nver (enode x), eoptional x, edepth x)))
                          (filter (fun x => ukey_eqb (ukey_of (enode x)) key) (snd it))) idx.

Definition user_eqb (a b : str * str) : bool := str_eqb (fst a) (fst b) && str_eqb (snd a) (snd b).

(* minimum depth per user, first one kept among equals *)
Fixpoint min_for (u : str * str) (best : consumer) (l : list consumer) : consumer :=
  match l with
  | [] => best
  | c :: r =>
      if user_eqb (cuser c) u && Nat.ltb (snd (cprops c)) (snd (cprops best))
      then min_for u c r else min_for u best r
  end.

Fixpoint min_per_user (l : list consumer) : list consumer :=
  match l with
  | [] => []
  | c :: r =>
      min_for (cuser c) c r :: filter (fun d => negb (user_eqb (cuser d) (cuser c))) (min_per_user r)
  end.

(* the keys of _setup_by, in order of first mention *)
Definition index_keys (idx : list ((str * str) * list entry)) : list ukey :=
  uniq_keys (flat_map (fun it => map (fun x => ukey_of (enode x)) (snd it)) idx).

(* Uses.users: keys name:version matching the request (no version = every key of that name,
   the stub key name:None included) *)
Definition key_matches (x : str) (ov : option str) (k : ukey) : bool :=
  str_eqb (fst k) x && match ov with None => true | Some v => ostr_eqb (snd k) (Some v) end.

Definition consumers (idx : list ((str * str) * list entry)) (x : str) (ov : option str) : list consumer :=
  flat_map (fun k => min_per_user (setup_by idx k)) (filter (key_matches x ov) (index_keys idx)).

(* pvsort as pinned: cmp(a[2], b[2]) on Props objects raises TypeError (D2) *)
Definition consumer_cmp_pinned (a b : consumer) : option comparison :=
  match lex (str_compare (fst (cuser a)) (fst (cuser b))) (str_compare (snd (cuser a)) (snd (cuser b))) with
  | Eq => None
  | c => Some c
  end.

(* repaired: (version or empty, optional, depth) *)
Definition consumer_cmp (a b : consumer) : option comparison :=
  Some (lex (str_compare (fst (cuser a)) (fst (cuser b)))
       (lex (str_compare (snd (cuser a)) (snd (cuser b)))
       (lex (str_compare (ostr_or_empty (fst (fst (cprops a)))) (ostr_or_empty (fst (fst (cprops b)))))
       (lex (bool_compare (snd (fst (cprops a))) (snd (fst (cprops b))))
            (Nat.compare (snd (cprops a)) (snd (cprops b))))))).

Definition users (idx : list ((str * str) * list entry)) (x : str) (ov : option str) : res (list consumer) :=
  psort consumer_cmp (consumers idx x ov).

Definition users_pinned (idx : list ((str * str) * list entry)) (x : str) (ov : option str) : res (list consumer) :=
  psort consumer_cmp_pinned (consumers idx x ov).

(* Eups.uses(name, version) *)
Definition uses (fuel : nat) (w : world) (x : str) (ov : option str) : res (list consumer) :=
  match uses_index fuel w with
  | Err e => Err e
  | Ok idx => users idx x ov
  end.

(* ---------------------------------------------------------------- the partition checker *)

(* nodes reachable from a set in at most [fuel] rounds *)
Fixpoint reach_set (fuel : nat) (g : graph) (cur : list node) : list node :=
  match fuel with
  | 0 => cur
  | S f =>
      reach_set f g (uniq_nodes (cur ++ flat_map (fun n => match succs_of g n with Some l => l | None => [] end) cur))
  end.

Fixpoint index_of_comp (cs : list comp) (n : node) (i : nat) : option nat :=
  match cs with
  | [] => None
  | c :: r => if mem_node n c then Some i else index_of_comp r n (S i)
  end.

Fixpoint nodup_nodes (l : list node) : bool :=
  match l with
  | [] => true
  | x :: r => negb (mem_node x r) && nodup_nodes r
  end.

(* cs is a partition of the keys of g; every edge goes to the same or an earlier component (Tarjan emits a
   component after everything it reaches); every component is strongly connected *)
Definition partition_ok (g : graph) (cs : list comp) : bool :=
  nodup_nodes (concat cs)
  && forallb (fun n => mem_node n (concat cs)) (gkeys g)
  && forallb (fun n => mem_node n (gkeys g)) (concat cs)
  && forallb (fun it =>
       forallb (fun s =>
         match index_of_comp cs (fst it) 0, index_of_comp cs s 0 with
         | Some i, Some j => Nat.leb j i
         | _, _ => false
         end) (snd it)) g
  && forallb (fun c =>
       match c with
       | [] => false
       | a :: _ =>
           forallb (fun b => mem_node b (reach_set (length g) g [a])
                             && mem_node a (reach_set (length g) g [b])) c
       end) cs.
