(* C15 - dry run.  Abstract syntax of the guard structure of the mutating Eups methods
   (regenerated from the python AST into Generated/Guards.v on every run), a
   non-deterministic big-step semantics that over-approximates every python execution
   with self.noaction fixed, and an executable analyser [safe]. *)
From Coq Require Import List Bool Arith.
Import ListNotations.

(* how a condition depends on self.noaction *)
Inductive cond := CNoaction | CNotNoaction | COpaque.

Inductive stmt :=
| SSkip
| SSeq (a b : stmt)
| SIf (c : cond) (t e : stmt)
| SLoop (body orelse : stmt)            (* for / while with optional else *)
| SWrite (site : nat)                   (* a call that may change stack records or product dirs *)
| SMayRaise                             (* a call that changes nothing but may raise *)
| SReturn | SRaise | SBreak | SContinue
| STry (body handler final : stmt)      (* try/except/finally; handler = all handlers, chosen freely *)
| SCall (f : nat).                      (* call of one of the translated methods *)

Inductive outcome := ONormal | OReturn | ORaise | OBreak | OContinue.

Section Semantics.
Variable body_of : nat -> stmt.          (* the translated methods *)
Variable noaction : bool.

(* exec s o w : statement s can end with outcome o having performed the writes w *)
Inductive exec : stmt -> outcome -> list nat -> Prop :=
| e_skip : exec SSkip ONormal []
| e_seq_n a b o w1 w2 : exec a ONormal w1 -> exec b o w2 -> exec (SSeq a b) o (w1 ++ w2)
| e_seq_x a b o w1 : exec a o w1 -> o <> ONormal -> exec (SSeq a b) o w1
| e_if_na_t t e o w : noaction = true -> exec t o w -> exec (SIf CNoaction t e) o w
| e_if_na_e t e o w : noaction = false -> exec e o w -> exec (SIf CNoaction t e) o w
| e_if_nna_t t e o w : noaction = false -> exec t o w -> exec (SIf CNotNoaction t e) o w
| e_if_nna_e t e o w : noaction = true -> exec e o w -> exec (SIf CNotNoaction t e) o w
| e_if_op_t t e o w : exec t o w -> exec (SIf COpaque t e) o w
| e_if_op_e t e o w : exec e o w -> exec (SIf COpaque t e) o w
| e_loop_end b el o w : exec el o w -> exec (SLoop b el) o w       (* condition false / iterator empty *)
| e_loop_iter b el o w1 w2 :
    exec b ONormal w1 -> exec (SLoop b el) o w2 -> exec (SLoop b el) o (w1 ++ w2)
| e_loop_cont b el o w1 w2 :
    exec b OContinue w1 -> exec (SLoop b el) o w2 -> exec (SLoop b el) o (w1 ++ w2)
| e_loop_break b el w : exec b OBreak w -> exec (SLoop b el) ONormal w
| e_loop_exit b el o w : exec b o w -> o = OReturn \/ o = ORaise -> exec (SLoop b el) o w
| e_write n : exec (SWrite n) ONormal [n]
| e_write_raise n : exec (SWrite n) ORaise [n]
| e_write_raise0 n : exec (SWrite n) ORaise []
| e_mayraise_n : exec SMayRaise ONormal []
| e_mayraise_r : exec SMayRaise ORaise []
| e_return : exec SReturn OReturn []
| e_raise : exec SRaise ORaise []
| e_break : exec SBreak OBreak []
| e_continue : exec SContinue OContinue []
  (* body ends without raising (or raises something no handler takes): finally runs *)
| e_try_pass b h f o w1 o2 w2 :
    exec b o w1 -> exec f o2 w2 -> exec (STry b h f) (if match o2 with ONormal => true | _ => false end then o else o2) (w1 ++ w2)
  (* body raises, a handler runs, finally runs *)
| e_try_handle b h f w1 o w2 o3 w3 :
    exec b ORaise w1 -> exec h o w2 -> exec f o3 w3 ->
    exec (STry b h f) (if match o3 with ONormal => true | _ => false end then o else o3) (w1 ++ w2 ++ w3)
| e_call_n f o w : exec (body_of f) o w -> o = ONormal \/ o = OReturn -> exec (SCall f) ONormal w
| e_call_r f w : exec (body_of f) ORaise w -> exec (SCall f) ORaise w.

End Semantics.

(* ------------------------------------------------------------------ the analyser *)

(* [never_normal na s]: under self.noaction = na, s never ends normally (so what follows it in
   a sequence is not executed) *)
Fixpoint never_normal (na : bool) (s : stmt) : bool :=
  match s with
  | SReturn | SRaise | SBreak | SContinue => true
  | SSeq a b => never_normal na a || never_normal na b
  | SIf CNoaction t e => if na then never_normal na t else never_normal na e
  | SIf CNotNoaction t e => if na then never_normal na e else never_normal na t
  | SIf COpaque t e => never_normal na t && never_normal na e
  | _ => false
  end.

(* [safe ok na s]: under self.noaction = na no write site of s is reachable, given that
   the methods f with ok f = true perform no write *)
Fixpoint safe (ok : nat -> bool) (na : bool) (s : stmt) : bool :=
  match s with
  | SSkip | SMayRaise | SReturn | SRaise | SBreak | SContinue => true
  | SWrite _ => false
  | SSeq a b => safe ok na a && (never_normal na a || safe ok na b)
  | SIf CNoaction t e => if na then safe ok na t else safe ok na e
  | SIf CNotNoaction t e => if na then safe ok na e else safe ok na t
  | SIf COpaque t e => safe ok na t && safe ok na e
  | SLoop b el => safe ok na b && safe ok na el
  | STry b h f => safe ok na b && safe ok na h && safe ok na f
  | SCall f => ok f
  end.

(* a program: the list of translated methods, method i being the i-th element *)
Definition body_in (prog : list stmt) (f : nat) : stmt := nth f prog SRaise.
Definition ok_in (oks : list bool) (f : nat) : bool := nth f oks false.

(* the assumption table is justified: every method marked ok has a safe body *)
Fixpoint table_justified_from (prog : list stmt) (oks : list bool) (na : bool) (i : nat) (rest : list stmt) : bool :=
  match rest with
  | [] => true
  | b :: rest' => implb (ok_in oks i) (safe (ok_in oks) na b) && table_justified_from prog oks na (S i) rest'
  end.
Definition table_justified (prog : list stmt) (oks : list bool) (na : bool) : bool :=
  table_justified_from prog oks na 0 prog.

(* the write sites of a statement (for reporting) *)
Fixpoint sites (s : stmt) : list nat :=
  match s with
  | SWrite n => [n]
  | SSeq a b => sites a ++ sites b
  | SIf _ t e => sites t ++ sites e
  | SLoop b el => sites b ++ sites el
  | STry b h f => sites b ++ sites h ++ sites f
  | _ => []
  end.

(* the translated methods a statement calls (for reporting) *)
Fixpoint calls (s : stmt) : list nat :=
  match s with
  | SCall f => [f]
  | SSeq a b => calls a ++ calls b
  | SIf _ t e => calls t ++ calls e
  | SLoop b el => calls b ++ calls el
  | STry b h f => calls b ++ calls h ++ calls f
  | _ => []
  end.
