(* C11 - model of Table._rewrite (python/eups/table.py 42-161): every line is stripped of
   its newline, leading blanks and comment; archaic lines are dropped; the old
   Group:/Common:/End: form and the Flavor= groups are rewritten as explicit if blocks.
   Line numbers (used in messages only) are not kept.  Executable definitions only. *)
From Eupsv Require Import Base.Base Model.Rx.

(* the three re.sub calls at the top of the loop *)
Fixpoint cut_comment (s : str) : str :=
  match s with
  | [] => []
  | c :: r => if ascii_eqb c c_hash then [] else c :: cut_comment r
  end.
Definition prep_line (s : str) : str :=
  cut_comment (drop_ws (filter (fun c => negb (ascii_eqb c c_nl)) s)).

Definition is_wdp (c : ascii) : bool :=
  is_word c || ascii_eqb c "+"%char || ascii_eqb c "."%char.

(* ^KEY\s*=\s*(class+)  case-insensitively: the group *)
Definition key_eq (key : str) (cls : ascii -> bool) (line : str) : option str :=
  match ci_prefix key line with
  | None => None
  | Some r =>
      match drop_ws r with
      | e :: r1 =>
          if ascii_eqb e c_eq then
            match span cls (drop_ws r1) with
            | ([], _) => None
            | (g, _) => Some g
            end
          else None
      | [] => None
      end
  end.

(* ^Qualifiers\s*=\s* quote (non-quotes) quote *)
Definition qualifiers_match (line : str) : bool :=
  match ci_prefix (lit "qualifiers") line with
  | None => false
  | Some r =>
      match drop_ws r with
      | e :: r1 =>
          if ascii_eqb e c_eq then
            match drop_ws r1 with
            | q :: r2 =>
                if ascii_eqb q c_dq then
                  match span (fun c => negb (ascii_eqb c c_dq)) r2 with
                  | (_, q' :: _) => true
                  | (_, []) => false
                  end
                else false
            | [] => false
            end
          else false
      | [] => false
      end
  end.

(* ^KEY:\s*$ *)
Definition key_colon (key : str) (line : str) : bool :=
  match ci_prefix key line with
  | Some r => all_ws r
  | None => false
  end.

Fixpoint contains (p s : str) : bool :=
  match s with
  | [] => match p with [] => true | _ => false end
  | _ :: r => starts_with p s || contains p r
  end.

(* older synonyms for eups variables *)
Definition syn (o n : string) (s : str) : str := replace_all (lit o) (lit n) s.
Arguments syn (o n)%string s.
Definition synonyms (line : str) : str :=
  syn "${UPS_UPS_DIR}" "${UPS_DIR}"
  (syn "${UPS_DB}" "${PRODUCTS}"
  (syn "${UPS_PROD_VERSION}" "${PRODUCT_VERSION}"
  (syn "${UPS_PROD_NAME}" "${PRODUCT_NAME}"
  (syn "${UPS_PROD_FLAVOR}" "${PRODUCT_FLAVOR}"
  (syn "${UPS_PROD_DIR}" "${PRODUCT_DIR}"
  (syn "${PROD_DIR}" "${PRODUCT_DIR}" line)))))).

Inductive newgrp := NG0 | NGFlavors | NGBody.

Definition if_line (cond : str) : str := lit "if (" ++ cond ++ lit ") {".

Fixpoint rewrite_go (old ingroup : bool) (ng : newgrp) (cond : str) (lines : list str)
  : res (list str) :=
  match lines with
  | [] => match ng with NG0 => Ok [] | _ => Ok [lit "}"] end
  | raw :: rest =>
      let l0 := prep_line raw in
      match l0 with
      | [] => rewrite_go old ingroup ng cond rest
      | _ =>
        match key_eq (lit "file") is_word l0 with
        | Some g =>
            (* the error message of this branch reads self.versionFile, which does not
               exist: AttributeError rather than BadTableContent *)
            if str_eqb (lower_str g) (lit "table") then rewrite_go true ingroup ng cond rest
            else Err Crash
        | None =>
          if old && (match key_eq (lit "product") is_word l0 with Some _ => true | None => false end)
          then rewrite_go old ingroup ng cond rest
          else
          let l := synonyms l0 in
          match key_eq (lit "action") is_wdp l with
          | Some g =>
              if contains (lit "setup") (lower_str g) then rewrite_go old ingroup ng cond rest
              else Err BadTable
          | None =>
            if qualifiers_match l then rewrite_go old ingroup ng cond rest
            else if key_colon (lit "group:") l then rewrite_go old true ng [] rest
            else
              let fl := key_eq (lit "flavor") is_wdp l in
              let emit (ng' : newgrp) (pre : list str) :=
                  bind (rewrite_go old ingroup ng' cond rest) (fun o => Ok (pre ++ l :: o)) in
              (* a function, so that the strict evaluation of the extracted code does not
                 walk the rest of the file once per enclosing alternative *)
              let newstyle := fun (_ : unit) =>
                  match ng, fl with
                  | NGFlavors, Some g =>
                      rewrite_go old ingroup ng (cond ++ lit " || FLAVOR == " ++ g) rest
                  | NGFlavors, None => emit NGBody [if_line cond]
                  | _, Some g =>
                      bind (rewrite_go old ingroup NGFlavors (lit "FLAVOR == " ++ g) rest)
                           (fun o => Ok ((match ng with NGBody => [lit "}"] | _ => [] end) ++ o))
                  | _, None => emit ng []
                  end in
              if ingroup then
                if key_colon (lit "common:") l then
                  bind (rewrite_go old ingroup ng cond rest) (fun o => Ok (if_line cond :: o))
                else if key_colon (lit "end:") l then
                  bind (rewrite_go old false ng cond rest) (fun o => Ok (lit "}" :: o))
                else match fl with
                     | Some g =>
                         let sep := match cond with [] => [] | _ => lit " || " end in
                         let t := if str_eqb (lower_str g) (lit "any") then lit "FLAVOR =~ .*"
                                  else lit "FLAVOR == " ++ g in
                         rewrite_go old ingroup ng (cond ++ sep ++ t) rest
                     | None => newstyle tt
                     end
              else newstyle tt
          end
        end
      end
  end.

Definition rewrite (lines : list str) : res (list str) := rewrite_go false false NG0 [] lines.

(* open(...).readlines() in text mode: a carriage return ends a line as well *)
Definition split_lines (text : str) : list str :=
  split_on c_nl (map_char (chr 13) c_nl text).
