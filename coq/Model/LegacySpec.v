(* C11 - SPECIFICATION side of legacy table files: an abstract syntax for the whole old
   format (every line kind Table._rewrite recognises, in every position its state machine
   allows), its printer with layout, and its translation to the corresponding if blocks.
   Written without reference to the model of _rewrite.  Executable definitions only.

     file      := ign* top* newgroup* ign*
     top       := ign* (item | oldgroup)                      item = command or if-chain
     oldgroup  := Group: (ign* Flavor=F)+ ign* Common: (ign* command)* ign* End:
     newgroup  := (ign* Flavor=F)+ (ign* command)+             up to the next Flavor= line
     ign       := blank or comment | Action = setup | Qualifiers = dq dq | File = Table
                | Product = P (only when the head of the file has a File = line)
   Key words in any letter case, any blanks around the equal sign, trailing comments. *)
From Eupsv Require Import Base.Base Model.Rx Model.Cond Model.Args Model.Legacy Model.Blocks Model.TableSpec.

(* ---------------------------------------------------------------- ignorable lines *)

Inductive ikind := IKFile | IKProduct | IKAction | IKQual.

Inductive ign :=
| GJunk (s : str)
| GKey (k : ikind) (indent key s1 s2 val after : str).

Definition ikind_key (k : ikind) : str :=
  match k with
  | IKFile => lit "file" | IKProduct => lit "product" | IKAction => lit "action" | IKQual => lit "qualifiers"
  end.

Definition ign_val (k : ikind) (val : str) : str :=
  match k with IKQual => c_dq :: val ++ [c_dq] | _ => val end.

(* key, blanks, equal sign, blanks, value *)
Definition keyed_core (key s1 s2 v : str) : str := key ++ s1 ++ c_eq :: s2 ++ v.

Definition ign_line (g : ign) : str :=
  match g with
  | GJunk s => s
  | GKey k indent key s1 s2 val after => indent ++ keyed_core key s1 s2 (ign_val k val) ++ after
  end.

Definition is_file_ign (g : ign) : bool :=
  match g with GKey IKFile _ _ _ _ _ _ => true | _ => false end.
Definition has_file (gs : list ign) : bool := existsb is_file_ign gs.

(* characters a line may be made of outside its comment: no hash, no line end, no dollar *)
Definition plain_char (c : ascii) : bool :=
  negb (ascii_eqb c c_hash || ascii_eqb c c_nl || ascii_eqb c (chr 13) || ascii_eqb c c_dollar).
Definition ws_ok (s : str) : bool := all_ws s && no_newline s.
Definition starts_nonblank (s : str) : bool :=
  match s with c :: _ => negb (is_pyspace c) | [] => false end.
(* a key word as written: the word in any letter case *)
Definition wf_key (word key : str) : bool :=
  str_eqb (lower_str key) word && forallb plain_char key && starts_nonblank key.

(* prod : Product = lines are allowed (the file starts with a File = line) *)
Definition wf_ign (prod : bool) (g : ign) : bool :=
  match g with
  | GJunk s => wf_junk s
  | GKey k indent key s1 s2 val after =>
      ws_ok indent && ws_ok s1 && ws_ok s2 && wf_after after && wf_key (ikind_key k) key
      && match k with
         | IKFile => forallb is_word val && str_eqb (lower_str val) (lit "table")
         | IKProduct => prod && nonempty val && forallb is_word val
         | IKAction => nonempty val && forallb is_wdp val && contains (lit "setup") (lower_str val)
         | IKQual => forallb plain_char val && forallb (fun c => negb (ascii_eqb c c_dq)) val
         end
  end.

(* ---------------------------------------------------------------- the lines with a meaning *)

(* Group: / Common: / End: *)
Record kwlay := mkKw { kw_indent : str; kw_key : str; kw_after : str }.
Definition kw_line (l : kwlay) : str := kw_indent l ++ kw_key l ++ kw_after l.
Definition wf_kw (word : str) (l : kwlay) : bool :=
  ws_ok (kw_indent l) && wf_key word (kw_key l) && wf_after (kw_after l).

(* ignorable lines, then Flavor = name *)
Record flav := mkFlav {
  fl_pre : list ign; fl_indent : str; fl_key : str; fl_s1 : str; fl_s2 : str; fl_name : str; fl_after : str }.
Definition flav_line (f : flav) : str :=
  fl_indent f ++ keyed_core (fl_key f) (fl_s1 f) (fl_s2 f) (fl_name f) ++ fl_after f.
Definition flav_lines (f : flav) : list str := map ign_line (fl_pre f) ++ [flav_line f].
Definition wf_flav (prod : bool) (f : flav) : bool :=
  forallb (wf_ign prod) (fl_pre f) && ws_ok (fl_indent f) && ws_ok (fl_s1 f) && ws_ok (fl_s2 f)
  && wf_after (fl_after f) && wf_key (lit "flavor") (fl_key f).

(* ignorable lines, then a command *)
Record bcmd := mkBcmd { bc_pre : list ign; bc_cmd : cmd }.
Definition bcmd_lines (b : bcmd) : list str := map ign_line (bc_pre b) ++ cmd_lines (bc_cmd b).
Definition wf_bcmd (prod : bool) (b : bcmd) : bool := forallb (wf_ign prod) (bc_pre b) && wf_cmd (bc_cmd b).

Inductive telem :=
| TItem (pre : list ign) (i : item)
| TOld (pre : list ign) (g : kwlay) (fs : list flav) (pre_common : list ign) (cm : kwlay)
       (body : list bcmd) (pre_end : list ign) (en : kwlay).

Record ngroup := mkNg { ng_flavors : list flav; ng_body : list bcmd }.

Record ltable := mkLt { lt_head : list ign; lt_top : list telem; lt_groups : list ngroup; lt_tail : list ign }.

(* ---------------------------------------------------------------- the text *)

Definition telem_lines (t : telem) : list str :=
  match t with
  | TItem pre i => map ign_line pre ++ item_lines i
  | TOld pre g fs pc cm body pe en =>
      map ign_line pre ++ [kw_line g] ++ flat_map flav_lines fs
      ++ map ign_line pc ++ [kw_line cm] ++ flat_map bcmd_lines body
      ++ map ign_line pe ++ [kw_line en]
  end.

Definition ngroup_lines (g : ngroup) : list str :=
  flat_map flav_lines (ng_flavors g) ++ flat_map bcmd_lines (ng_body g).

Definition legacy_lines (t : ltable) : list str :=
  map ign_line (lt_head t) ++ flat_map telem_lines (lt_top t) ++ flat_map ngroup_lines (lt_groups t) ++ map ign_line (lt_tail t).

Definition print_legacy (t : ltable) : str := as_text (legacy_lines t).

(* ---------------------------------------------------------------- the corresponding if blocks *)

Definition group_item (fs : list flav) (body : list bcmd) : item :=
  IChain (mkBranch (flavor_disj (map fl_name fs)) (map bc_cmd body) plain_blay) [] None plain_blay.

Definition telem_items (t : telem) : list item :=
  match t with
  | TItem _ i => [i]
  | TOld _ _ fs _ _ body _ _ => [group_item fs body]
  end.

Definition legacy_items (t : ltable) : list item :=
  flat_map telem_items (lt_top t) ++ map (fun g => group_item (ng_flavors g) (ng_body g)) (lt_groups t).

(* what a group means, said directly: its commands, exactly when the flavor is listed *)
Definition denote_group (e : cenv) (top : str) (fs : list flav) (body : list bcmd) : list action :=
  if mem_str (ce_flavor e) (map fl_name fs) then denote_body top (map bc_cmd body) else [].

Definition denote_telem (e : cenv) (top : str) (t : telem) : list action :=
  match t with
  | TItem _ i => denote_item e top i
  | TOld _ _ fs _ _ body _ _ => denote_group e top fs body
  end.

Definition denote_legacy (e : cenv) (top : str) (t : ltable) : list action :=
  flat_map (denote_telem e top) (lt_top t)
  ++ flat_map (fun g => denote_group e top (ng_flavors g) (ng_body g)) (lt_groups t).

(* ---------------------------------------------------------------- well-formedness *)

Definition wf_telem (prod : bool) (t : telem) : bool :=
  match t with
  | TItem pre i => forallb (wf_ign prod) pre && wf_item i
  | TOld pre g fs pc cm body pe en =>
      forallb (wf_ign prod) pre && wf_kw (lit "group:") g
      && forallb (wf_flav prod) fs && wf_flavors (map fl_name fs)
      && forallb (wf_ign prod) pc && wf_kw (lit "common:") cm
      && forallb (wf_bcmd prod) body
      && forallb (wf_ign prod) pe && wf_kw (lit "end:") en
  end.

(* a new-style group needs a command: its Flavor= lines would otherwise run into those of
   the next group *)
Definition wf_ngroup (prod : bool) (g : ngroup) : bool :=
  forallb (wf_flav prod) (ng_flavors g) && wf_flavors (map fl_name (ng_flavors g))
  && forallb (wf_bcmd prod) (ng_body g) && negb (is_nil (ng_body g)).

(* Product = lines may be used once the head of the file (ignorable lines before anything
   else) holds a File = Table line *)
Definition lt_prod (t : ltable) : bool := has_file (lt_head t).

Definition wf_ltable (t : ltable) : bool :=
  let p := lt_prod t in
  forallb (wf_ign false) (lt_head t)
  && forallb (wf_telem p) (lt_top t) && forallb (wf_ngroup p) (lt_groups t) && forallb (wf_ign p) (lt_tail t).
