(* C09 - executable model of the lock protocol of python/eups/lock.py (takeLocks / giveLocks) at the
   granularity of file-system calls, for any number of processes on one stack.

   Shared state: does <stack>/.lockDir exist, and which lock files are in it.  A lock file
   <kind>-<user>.<pid> is represented by the pid of its owner; its kind is the kind requested by that
   process.  [files] is in creation order, newest first.

   Each process has a program counter that names the NEXT file-system call it will make, and the
   number i of the current iteration of the retry loop  for i in range(1, ntry + 1).  A process makes
   one takeLocks call on the stack followed by one giveLocks call.  The scheduler (the caller of
   [step]) is the only source of interleaving; the [choice] argument fixes which entry a directory
   listing presents first (the order of glob.glob is arbitrary).

   [step_gen true] is the protocol as repaired by proposed_fixes/C09-lock-revalidate.diff,
   [step_gen false] the protocol of the pinned tree.  Definitions only; proofs are in Proofs/Lock*.v. *)
From Eupsv Require Import Base.Base.

Definition pid := nat.
Definition choice := nat.

Inductive kind := Sh | Ex.

(* the five file-system calls of giveLocks: isdir(d), exists(f), remove(f), next(walk(d)), rmdir(d) *)
Inductive gstep := GIsdir | GExistsF | GRemove | GCount | GRmdir.

Inductive loc :=
| LMkdir                     (* os.mkdir(lockDir) *)
| LListAll                   (* exclusive, mkdir failed: listLockers(lockDir, getPids=True) *)
| LListAll2                  (* exclusive, contention: listLockers(lockDir) for the message, then retry or give up *)
| LExists                    (* shared, mkdir failed: os.path.exists(lockDir) *)
| LScanX                     (* listLockers(lockDir, exclusive* ) *)
| LScanX2                    (* one exclusive lock seen: listLockers(lockDir, exclusive*, getPids=True)[0] *)
| LCreate                    (* os.open(lockFile, O_EXCL | O_RDWR | O_CREAT) *)
| LValidate                  (* repaired protocol only: look again now that our file exists *)
| LHeld                      (* takeLocks has returned; the command runs; the next step calls giveLocks *)
| LHeldNoLock                (* pinned protocol only: takeLocks returned without a lock, with trepidation *)
| LGive (backoff : bool) (g : gstep)   (* inside giveLocks; backoff = called from takeLocks to withdraw *)
| LDone                      (* giveLocks has returned *)
| LFailed                    (* takeLocks raised RuntimeError *)
| LCrashed.                  (* any other exception *)

(* what each process asks for; root_of is the inherited environment variable EUPS_LOCK_PID *)
Record config := { kind_of : pid -> kind; root_of : pid -> option pid; ntry_of : pid -> nat }.

Record state := { dir : bool; files : list pid; pc : pid -> loc; tries : pid -> nat }.

Definition upd {A} (f : pid -> A) (p : pid) (v : A) : pid -> A :=
  fun q => if Nat.eqb q p then v else f q.

Definition init : state :=
  {| dir := false; files := []; pc := fun _ => LMkdir; tries := fun _ => 1 |}.

Section Protocol.
Variable fx : bool.          (* true: repaired protocol, false: pinned protocol *)
Variable cfg : config.

Definition isEx (q : pid) : bool := match kind_of cfg q with Ex => true | Sh => false end.

(* os.environ.get(EUPS_LOCK_PID, -1) == pid of q's lock file *)
Definition is_root (p q : pid) : bool :=
  match root_of cfg p with Some r => Nat.eqb r q | None => false end.

Fixpoint mem (p : pid) (fs : list pid) : bool :=
  match fs with [] => false | q :: r => if Nat.eqb q p then true else mem p r end.

Definition add (p : pid) (fs : list pid) : list pid := if mem p fs then fs else p :: fs.
Definition rem (p : pid) (fs : list pid) : list pid := filter (fun q => negb (Nat.eqb q p)) fs.

(* first entry of a listing under the given choice of directory order *)
Definition pick (c : choice) (l : list pid) : option pid := nth_error l (Nat.modulo c (length l)).

(* len(lockPids) == 1 and lockPids[0] == EUPS_LOCK_PID *)
Definition only_root (p : pid) (fs : list pid) : bool :=
  match fs with [q] => is_root p q | _ => false end.

(* listLockers(lockDir, pattern, ignorePids=(own pid, EUPS_LOCK_PID)) *)
Definition others (p : pid) (fs : list pid) : list pid :=
  filter (fun q => negb (Nat.eqb q p) && negb (is_root p q)) fs.

(* the re-validation of the repaired protocol: an exclusive lock tolerates no other lock, a shared
   lock no exclusive one, locks of the EUPS_LOCK_PID ancestor excepted *)
Definition conflict (p : pid) (fs : list pid) : bool :=
  match kind_of cfg p with
  | Ex => match others p fs with [] => false | _ => true end
  | Sh => existsb isEx (others p fs)
  end.

(* after a contention in iteration i: raise on the last iteration, else sleep and go round the loop *)
Definition retry (p : pid) (i : nat) : loc * nat :=
  if Nat.eqb i (ntry_of cfg p) then (LFailed, i) else (LMkdir, S i).

(* giveLocks has finished: a plain release is done; a withdrawal fails (shared) or retries (exclusive) *)
Definition after_give (b : bool) (p : pid) (i : nat) : loc * nat :=
  if b then match kind_of cfg p with Ex => retry p i | Sh => (LFailed, i) end
  else (LDone, i).

(* an exception inside giveLocks: swallowed by the repaired giveLocks, propagated by the pinned one *)
Definition give_race (b : bool) (p : pid) (i : nat) : loc * nat :=
  if fx then after_give b p i else (LCrashed, i).

(* One file-system call of process p whose program counter is l and loop index i, on the shared
   state (d, fs).  Result: new shared state, new program counter, new loop index. *)
Definition next (d : bool) (fs : list pid) (l : loc) (i : nat) (p : pid) (c : choice)
  : bool * list pid * (loc * nat) :=
  match l with
  | LMkdir =>
      if d then (d, fs, (match kind_of cfg p with Ex => LListAll | Sh => LExists end, i))
      else (true, fs, (LScanX, i))
  | LListAll =>
      (d, fs, (if only_root p fs then LScanX else LListAll2, i))
  | LListAll2 =>
      (d, fs, retry p i)
  | LExists =>
      if d then (d, fs, (LScanX, i))
      else if fx then (d, fs, retry p i)
      else (d, fs, (LHeldNoLock, i))
  | LScanX =>
      (d, fs, (match filter isEx fs with [] => LCreate | [_] => LScanX2 | _ => LFailed end, i))
  | LScanX2 =>
      (d, fs, (match pick c (filter isEx fs) with
               | None => LCrashed                       (* IndexError: the lock went away *)
               | Some q => if is_root p q then LCreate else LFailed
               end, i))
  | LCreate =>
      if d then (d, add p fs, (if fx then LValidate else LHeld, i))
      else (d, fs, (LCrashed, i))                        (* ENOENT is re-raised *)
  | LValidate =>
      (d, fs, (if conflict p fs then LGive true GIsdir else LHeld, i))
  | LHeld => (d, fs, (LGive false GIsdir, i))
  | LHeldNoLock => (d, fs, (LDone, i))                   (* giveLocks of the empty list *)
  | LGive b GIsdir =>
      (d, fs, if d then (LGive b GExistsF, i) else after_give b p i)
  | LGive b GExistsF =>
      (d, fs, (if d && mem p fs then LGive b GRemove else LGive b GCount, i))
  | LGive b GRemove =>
      if d && mem p fs then (d, rem p fs, (LGive b GCount, i)) else (d, fs, (LCrashed, i))
  | LGive b GCount =>
      if d then (d, fs, match fs with [] => (LGive b GRmdir, i) | _ => after_give b p i end)
      else (d, fs, give_race b p i)                      (* StopIteration from next(os.walk(d)) *)
  | LGive b GRmdir =>
      if d then match fs with
                | [] => (false, fs, after_give b p i)
                | _ => (d, fs, give_race b p i)          (* ENOTEMPTY *)
                end
      else (d, fs, give_race b p i)                      (* ENOENT *)
  | LDone => (d, fs, (LDone, i))
  | LFailed => (d, fs, (LFailed, i))
  | LCrashed => (d, fs, (LCrashed, i))
  end.

Definition step_gen (s : state) (p : pid) (c : choice) : state :=
  match next (dir s) (files s) (pc s p) (tries s p) p c with
  | (d, fs, (l, i)) => {| dir := d; files := fs; pc := upd (pc s) p l; tries := upd (tries s) p i |}
  end.

Fixpoint run_gen (s : state) (sched : list (pid * choice)) : state :=
  match sched with
  | [] => s
  | (p, c) :: r => run_gen (step_gen s p c) r
  end.

(* every state along a schedule, the start state first *)
Fixpoint trace_gen (s : state) (sched : list (pid * choice)) : list state :=
  s :: match sched with
       | [] => []
       | (p, c) :: r => trace_gen (step_gen s p c) r
       end.

Inductive reachable_gen : state -> Prop :=
| r_init : reachable_gen init
| r_step : forall s p c, reachable_gen s -> reachable_gen (step_gen s p c).

End Protocol.

(* the repaired protocol: what the theorems of Props/C09.v are about *)
Definition step := step_gen true.
Definition run := run_gen true.
Definition reachable := reachable_gen true.
(* the protocol of the pinned tree: what mutex_refuted_pinned is about *)
Definition step_pinned := step_gen false.
Definition run_pinned := run_gen false.

(* ---- the notions the property is stated with *)

(* between the return of takeLocks and the call of giveLocks *)
Definition holdsb (s : state) (p : pid) : bool :=
  match pc s p with LHeld | LHeldNoLock => true | _ => false end.
Definition holds (s : state) (p : pid) : Prop := holdsb s p = true.

(* one is the EUPS_LOCK_PID ancestor of the other *)
Definition related (cfg : config) (p q : pid) : Prop := root_of cfg p = Some q \/ root_of cfg q = Some p.
Definition relatedb (cfg : config) (p q : pid) : bool := is_root cfg p q || is_root cfg q p.

(* a process that is not in the middle of takeLocks / giveLocks *)
Definition idle (l : loc) : bool :=
  match l with LMkdir | LDone | LFailed | LCrashed => true | _ => false end.
Definition quiescent (s : state) : Prop := forall p, idle (pc s p) = true.

(* ---- observation of a state for the correspondence check, restricted to the listed pids *)
Definition view (s : state) (ps : list pid) : bool * list pid * list (pid * loc * nat) :=
  (dir s, files s, map (fun p => (p, pc s p, tries s p)) ps).

(* configuration from association lists, as the driver builds it: (pid, kind, root, ntry) *)
Fixpoint cfg_lookup (l : list (pid * (kind * option pid * nat))) (p : pid) : kind * option pid * nat :=
  match l with
  | [] => (Sh, None, 1)
  | (q, v) :: r => if Nat.eqb q p then v else cfg_lookup r p
  end.
Definition cfg_of (l : list (pid * (kind * option pid * nat))) : config :=
  {| kind_of := fun p => fst (fst (cfg_lookup l p));
     root_of := fun p => snd (fst (cfg_lookup l p));
     ntry_of := fun p => snd (cfg_lookup l p) |}.

(* the oracle of the property in boolean form, on one state and the listed pids: no two distinct,
   unrelated holders of which one is exclusive *)
Definition mutex_okb (cfg : config) (s : state) (ps : list pid) : bool :=
  forallb (fun p => forallb (fun q =>
    Nat.eqb p q || relatedb cfg p q || negb (holdsb s p && holdsb s q) ||
    (negb (isEx cfg p) && negb (isEx cfg q))) ps) ps.

(* what the driver prints for one schedule: every state along it (the start state first), seen on the
   declared pids, with the verdict of the oracle; a schedule that names an undeclared pid is refused *)
Definition declared (l : list (pid * (kind * option pid * nat))) (p : pid) : bool :=
  existsb (fun e => Nat.eqb (fst e) p) l.

Definition trace_view (fx : bool) (l : list (pid * (kind * option pid * nat))) (sched : list (pid * choice))
  : res (list (bool * list pid * list (pid * loc * nat) * bool)) :=
  if forallb (fun e => declared l (fst e)) sched
  then Ok (map (fun s => (view s (map fst l), mutex_okb (cfg_of l) s (map fst l)))
               (trace_gen fx (cfg_of l) init sched))
  else Err NotFound.

(* ---- which lock each command takes (the table itself is Generated/Locks.v) *)
Definition lock_table := list (string * option kind).

Fixpoint lock_of (t : lock_table) (c : string) : res (option kind) :=
  match t with
  | [] => Err NotFound
  | (n, k) :: r => if String.eqb n c then Ok k else lock_of r c
  end.

Definition kind_eqb (a b : kind) : bool :=
  match a, b with Sh, Sh | Ex, Ex => true | _, _ => false end.

Definition takes (t : lock_table) (k : kind) (c : string) : bool :=
  match lock_of t c with Ok (Some k') => kind_eqb k k' | _ => false end.

(* commands that change the database of a stack: declarations, tags (chain files), removal, the cache
   files, installation.  tags --clone / tags --delete stand for the tags command given that option. *)
Definition mutating_commands : list string :=
  [ "declare"; "undeclare"; "remove";
    "admin buildCache"; "admin clearCache"; "admin clearServerCache";
    "distrib clean"; "distrib create"; "distrib declare"; "distrib install";
    "tags --clone"; "tags --delete" ]%string.

(* commands that only read the database *)
Definition reader_commands : list string :=
  [ "setup"; "list"; "uses"; "pkg-config"; "expandbuild"; "expandtable";
    "admin listCache"; "admin info"; "distrib list"; "tags" ]%string.
