(* C09 - executable model of the lock protocol of python/eups/lock.py (takeLocks / giveLocks) at the
   granularity of file-system calls, for any number of processes and any number of stacks.

   Shared state, per stack: does <stack>/.lockDir exist, and which lock files are in it.  A lock file
   <kind>-<user>.<pid> is represented by the pid of its owner; its kind is the kind requested by that
   process.  [files s k] is in creation order, newest first.

   Each process makes one takeLocks call on its path of stacks (its EUPS_PATH), then one giveLocks call.
   takeLocks locks the stacks in path order; the program counter names the NEXT file-system call, on
   the stack the process is working on.  Per process there are also: the number i of the current
   iteration of the retry loop  for i in range(1, ntry + 1)  (it restarts with every stack), the number
   of stacks locked so far (the length of the python list locks), and the index of the lock giveLocks
   is busy with.  The scheduler (the caller of [step]) is the only source of interleaving; the [choice]
   argument fixes which entry a directory listing presents first (the order of glob.glob is arbitrary).

   Three versions of the protocol, selected by two flags:
     fx = false             the pinned tree: no second look after creating the lock file (defect D10)
     fx = true, fr = false  with proposed_fixes/C09-lock-revalidate.diff: a takeLocks that fails on a later
                            stack leaves the locks it took on the earlier ones
     fx = true, fr = true   with proposed_fixes/C09-release-on-failure.diff as well: what the theorems of
                            Props/C09.v are about
   Definitions only; proofs are in Proofs/Lock*.v. *)
From Eupsv Require Import Base.Base.

Definition pid := nat.
Definition stack := nat.
Definition choice := nat.

Inductive kind := Sh | Ex.

(* the five file-system calls giveLocks makes per lock: isdir(d), exists(f), remove(f), next(walk(d)), rmdir(d) *)
Inductive gstep := GIsdir | GExistsF | GRemove | GCount | GRmdir.

(* who called giveLocks: the command after its work; takeLocks to withdraw the lock file it has just created
   on the stack it is working on; takeLocks to give back the stacks already locked before it raises
   (crashed: the exception is not a RuntimeError) *)
Inductive gmode := GRelease | GBackoff | GUnwind (crashed : bool).

Inductive loc :=
| LMkdir                     (* os.mkdir(lockDir) *)
| LListAll                   (* exclusive, mkdir failed: listLockers(lockDir, getPids=True) *)
| LListAll2                  (* exclusive, contention: listLockers(lockDir) for the message, then retry or give up *)
| LExists                    (* shared, mkdir failed: os.path.exists(lockDir) *)
| LScanX                     (* listLockers(lockDir, exclusive* ) *)
| LScanX2                    (* one exclusive lock seen: listLockers(lockDir, exclusive*, getPids=True)[0] *)
| LCreate                    (* os.open(lockFile, O_EXCL | O_RDWR | O_CREAT) *)
| LValidate                  (* fx only: look again now that our file exists *)
| LHeld                      (* takeLocks has returned; the command runs; the next step calls giveLocks *)
| LHeldNoLock                (* pinned protocol only: takeLocks returned early, with trepidation *)
| LGive (m : gmode) (g : gstep)   (* inside giveLocks *)
| LDone                      (* giveLocks has returned *)
| LFailed                    (* takeLocks raised RuntimeError *)
| LCrashed.                  (* any other exception *)

(* what each process asks for; root_of is the inherited environment variable EUPS_LOCK_PID *)
Record config := { kind_of : pid -> kind; root_of : pid -> option pid; ntry_of : pid -> nat;
                   path_of : pid -> list stack }.

(* the private part of a process *)
Record local := { lpc : loc; ltry : nat; lnl : nat; lcur : nat }.

Record state := { dir : stack -> bool; files : stack -> list pid;
                  pc : pid -> loc; tries : pid -> nat; nlk : pid -> nat; cur : pid -> nat }.

Definition upd {A} (f : nat -> A) (p : nat) (v : A) : nat -> A :=
  fun q => if Nat.eqb q p then v else f q.

Definition init : state :=
  {| dir := fun _ => false; files := fun _ => []; pc := fun _ => LMkdir; tries := fun _ => 1;
     nlk := fun _ => 0; cur := fun _ => 0 |}.

Definition local_of (s : state) (p : pid) : local :=
  {| lpc := pc s p; ltry := tries s p; lnl := nlk s p; lcur := cur s p |}.

Definition put (s : state) (p : pid) (lo : local) : state :=
  {| dir := dir s; files := files s; pc := upd (pc s) p (lpc lo); tries := upd (tries s) p (ltry lo);
     nlk := upd (nlk s) p (lnl lo); cur := upd (cur s) p (lcur lo) |}.

Definition write (s : state) (k : stack) (d : bool) (fs : list pid) : state :=
  {| dir := upd (dir s) k d; files := upd (files s) k fs; pc := pc s; tries := tries s;
     nlk := nlk s; cur := cur s |}.

Definition setpc (lo : local) (l : loc) : local :=
  {| lpc := l; ltry := ltry lo; lnl := lnl lo; lcur := lcur lo |}.

(* an end at which the process owns no lock *)
Definition final_clean (lo : local) (l : loc) : local := {| lpc := l; ltry := ltry lo; lnl := 0; lcur := 0 |}.

(* index, in the path, of the stack the next call is about *)
Definition widx (lo : local) : nat :=
  match lpc lo with
  | LGive GRelease _ | LGive (GUnwind _) _ => lcur lo
  | _ => lnl lo
  end.

Section Protocol.
Variable fx : bool.          (* second look after creating the lock file *)
Variable fr : bool.          (* a failing takeLocks gives back the stacks it has locked *)
Variable cfg : config.

Definition isEx (q : pid) : bool := match kind_of cfg q with Ex => true | Sh => false end.

(* os.environ.get(EUPS_LOCK_PID, -1) == pid of q's lock file.  (A process without an inherited
   EUPS_LOCK_PID sets it to its own pid once its first stack is locked; comparing with one's own pid
   changes nothing since a process never meets a lock file of its own on a stack it has yet to lock.) *)
Definition is_root (p q : pid) : bool :=
  match root_of cfg p with Some r => Nat.eqb r q | None => false end.

Fixpoint mem (p : nat) (fs : list nat) : bool :=
  match fs with [] => false | q :: r => if Nat.eqb q p then true else mem p r end.

Definition add (p : pid) (fs : list pid) : list pid := if mem p fs then fs else p :: fs.
Definition rem (p : pid) (fs : list pid) : list pid := filter (fun q => negb (Nat.eqb q p)) fs.

(* first entry of a listing under the given choice of directory order *)
Definition pick (c : choice) (l : list pid) : option pid := nth_error l (Nat.modulo c (length l)).

(* len(lockPids) == 1 and lockPids[0] == EUPS_LOCK_PID *)
Definition only_root (p : pid) (fs : list pid) : bool :=
  match fs with [q] => is_root p q | _ => false end.

(* listLockers(lockDir, pattern, ignorePids=(own pid, EUPS_LOCK_PID)) *)
Definition others (p : pid) (fs : list pid) : list pid :=
  filter (fun q => negb (Nat.eqb q p) && negb (is_root p q)) fs.

(* the second look: an exclusive lock tolerates no other lock, a shared lock no exclusive one, locks of
   the EUPS_LOCK_PID ancestor excepted *)
Definition conflict (p : pid) (fs : list pid) : bool :=
  match kind_of cfg p with
  | Ex => match others p fs with [] => false | _ => true end
  | Sh => existsb isEx (others p fs)
  end.

(* an exception leaves takeLocks.  With fr the stacks already locked are given back first (none: the
   process ends at once); without, their lock files stay behind *)
Definition raise_ (crashed : bool) (lo : local) : local :=
  let fin := if crashed then LCrashed else LFailed in
  if fr then
    if Nat.eqb (lnl lo) 0 then final_clean lo fin
    else {| lpc := LGive (GUnwind crashed) GIsdir; ltry := ltry lo; lnl := lnl lo; lcur := 0 |}
  else {| lpc := fin; ltry := ltry lo; lnl := lnl lo; lcur := 0 |}.

(* after a contention in iteration i: raise on the last iteration, else sleep and go round the loop *)
Definition retry (p : pid) (lo : local) : local :=
  if Nat.eqb (ltry lo) (ntry_of cfg p) then raise_ false lo
  else {| lpc := LMkdir; ltry := S (ltry lo); lnl := lnl lo; lcur := lcur lo |}.

(* the stack is locked: on to the next one (the retry loop starts afresh), or return from takeLocks *)
Definition advance (p : pid) (lo : local) : local :=
  if Nat.eqb (S (lnl lo)) (length (path_of cfg p))
  then {| lpc := LHeld; ltry := ltry lo; lnl := S (lnl lo); lcur := lcur lo |}
  else {| lpc := LMkdir; ltry := 1; lnl := S (lnl lo); lcur := lcur lo |}.

(* giveLocks is through with one lock *)
Definition give_next (m : gmode) (p : pid) (lo : local) : local :=
  match m with
  | GBackoff => match kind_of cfg p with Ex => retry p lo | Sh => raise_ false lo end
  | GRelease =>
      if Nat.ltb (S (lcur lo)) (lnl lo)
      then {| lpc := LGive GRelease GIsdir; ltry := ltry lo; lnl := lnl lo; lcur := S (lcur lo) |}
      else final_clean lo LDone
  | GUnwind c =>
      if Nat.ltb (S (lcur lo)) (lnl lo)
      then {| lpc := LGive (GUnwind c) GIsdir; ltry := ltry lo; lnl := lnl lo; lcur := S (lcur lo) |}
      else final_clean lo (if c then LCrashed else LFailed)
  end.

(* an exception inside giveLocks: it leaves takeLocks if that is the caller, else it ends the process
   (the locks giveLocks had not reached yet stay behind) *)
Definition give_crash (m : gmode) (lo : local) : local :=
  match m with
  | GBackoff => raise_ true lo
  | _ => {| lpc := LCrashed; ltry := ltry lo; lnl := lnl lo; lcur := S (lcur lo) |}
  end.

(* the directory vanished or was re-used between the count and the rmdir: swallowed by the repaired
   giveLocks, an exception in the pinned one *)
Definition give_race (m : gmode) (p : pid) (lo : local) : local :=
  if fx then give_next m p lo else give_crash m lo.

(* the command is over: giveLocks(locks) *)
Definition begin_release (lo : local) : local :=
  if Nat.eqb (lnl lo) 0 then final_clean lo LDone
  else {| lpc := LGive GRelease GIsdir; ltry := ltry lo; lnl := lnl lo; lcur := 0 |}.

(* One file-system call of process p, whose private state is lo, on the stack it is working on, whose
   lock directory exists iff d and holds the lock files fs. *)
Definition next (d : bool) (fs : list pid) (lo : local) (p : pid) (c : choice) : bool * list pid * local :=
  match lpc lo with
  | LMkdir =>
      if d then (d, fs, setpc lo (match kind_of cfg p with Ex => LListAll | Sh => LExists end))
      else (true, fs, setpc lo LScanX)
  | LListAll =>
      (d, fs, setpc lo (if only_root p fs then LScanX else LListAll2))
  | LListAll2 =>
      (d, fs, retry p lo)
  | LExists =>
      if d then (d, fs, setpc lo LScanX)
      else if fx then (d, fs, retry p lo)
      else (d, fs, setpc lo LHeldNoLock)
  | LScanX =>
      (d, fs, match filter isEx fs with
              | [] => setpc lo LCreate
              | [_] => setpc lo LScanX2
              | _ => raise_ false lo
              end)
  | LScanX2 =>
      (d, fs, match pick c (filter isEx fs) with
              | None => raise_ true lo                  (* IndexError: the lock went away *)
              | Some q => if is_root p q then setpc lo LCreate else raise_ false lo
              end)
  | LCreate =>
      if d then (d, add p fs, if fx then setpc lo LValidate else advance p lo)
      else (d, fs, raise_ true lo)                       (* ENOENT is re-raised *)
  | LValidate =>
      (d, fs, if conflict p fs then setpc lo (LGive GBackoff GIsdir) else advance p lo)
  | LHeld | LHeldNoLock => (d, fs, begin_release lo)
  | LGive m GIsdir =>
      (d, fs, if d then setpc lo (LGive m GExistsF) else give_next m p lo)
  | LGive m GExistsF =>
      (d, fs, setpc lo (if d && mem p fs then LGive m GRemove else LGive m GCount))
  | LGive m GRemove =>
      if d && mem p fs then (d, rem p fs, setpc lo (LGive m GCount)) else (d, fs, give_crash m lo)
  | LGive m GCount =>
      if d then (d, fs, match fs with [] => setpc lo (LGive m GRmdir) | _ => give_next m p lo end)
      else (d, fs, give_race m p lo)                     (* StopIteration from next(os.walk(d)) *)
  | LGive m GRmdir =>
      if d then match fs with
                | [] => (false, fs, give_next m p lo)
                | _ => (d, fs, give_race m p lo)         (* ENOTEMPTY *)
                end
      else (d, fs, give_race m p lo)                     (* ENOENT *)
  | LDone | LFailed | LCrashed => (d, fs, lo)
  end.

(* a step that concerns no stack: takeLocks on an empty path returns at once; the holder calls giveLocks *)
Definition nostack (lo : local) : local :=
  match lpc lo with
  | LMkdir => setpc lo LHeld
  | LHeld | LHeldNoLock => begin_release lo
  | _ => lo
  end.

Definition step_gen (s : state) (p : pid) (c : choice) : state :=
  let lo := local_of s p in
  match nth_error (path_of cfg p) (widx lo) with
  | Some k =>
      match next (dir s k) (files s k) lo p c with
      | (d, fs, lo') => put (write s k d fs) p lo'
      end
  | None => put s p (nostack lo)
  end.

Fixpoint run_gen (s : state) (sched : list (pid * choice)) : state :=
  match sched with
  | [] => s
  | (p, c) :: r => run_gen (step_gen s p c) r
  end.

(* every state along a schedule, the start state first *)
Fixpoint trace_gen (s : state) (sched : list (pid * choice)) : list state :=
  s :: match sched with
       | [] => []
       | (p, c) :: r => trace_gen (step_gen s p c) r
       end.

Inductive reachable_gen : state -> Prop :=
| r_init : reachable_gen init
| r_step : forall s p c, reachable_gen s -> reachable_gen (step_gen s p c).

End Protocol.

(* the protocol with both repairs: what the theorems of Props/C09.v are about *)
Definition step := step_gen true true.
Definition run := run_gen true true.
Definition reachable := reachable_gen true true.
(* the protocol of the pinned tree: what mutex_refuted_pinned is about *)
Definition step_pinned := step_gen false false.
Definition run_pinned := run_gen false false.
(* with the second look but without release on failure: what no_residue_refuted_norelease is about *)
Definition run_norelease := run_gen true false.

(* ---- the notions the property is stated with *)

(* between the return of takeLocks and the call of giveLocks *)
Definition holdsb (s : state) (p : pid) : bool :=
  match pc s p with LHeld | LHeldNoLock => true | _ => false end.
Definition holds (s : state) (p : pid) : Prop := holdsb s p = true.

(* one is the EUPS_LOCK_PID ancestor of the other *)
Definition related (cfg : config) (p q : pid) : Prop := root_of cfg p = Some q \/ root_of cfg q = Some p.
Definition relatedb (cfg : config) (p q : pid) : bool := is_root cfg p q || is_root cfg q p.

(* both lock the stack k *)
Definition share_stack (cfg : config) (p q : pid) : bool :=
  existsb (fun k => mem k (path_of cfg q)) (path_of cfg p).

(* a process that is not in the middle of takeLocks / giveLocks: not started, or ended *)
Definition idle (lo : local) : bool :=
  match lpc lo with
  | LMkdir => Nat.eqb (lnl lo) 0
  | LDone | LFailed | LCrashed => true
  | _ => false
  end.
Definition quiescent (s : state) : Prop := forall p, idle (local_of s p) = true.

(* every process locks each stack at most once *)
Definition wf (cfg : config) : Prop := forall p, NoDup (path_of cfg p).

(* ---- observation of a state for the correspondence check, restricted to the listed stacks and pids *)
Definition view (s : state) (ks : list stack) (ps : list pid)
  : list (bool * list pid) * list (pid * local) :=
  (map (fun k => (dir s k, files s k)) ks, map (fun p => (p, local_of s p)) ps).

(* configuration from association lists, as the driver builds it: (pid, (kind, root, ntry, path)) *)
Definition procs := list (pid * (kind * option pid * nat * list stack)).
Fixpoint cfg_lookup (l : procs) (p : pid) : kind * option pid * nat * list stack :=
  match l with
  | [] => (Sh, None, 1, [])
  | (q, v) :: r => if Nat.eqb q p then v else cfg_lookup r p
  end.
Definition cfg_of (l : procs) : config :=
  {| kind_of := fun p => fst (fst (fst (cfg_lookup l p)));
     root_of := fun p => snd (fst (fst (cfg_lookup l p)));
     ntry_of := fun p => snd (fst (cfg_lookup l p));
     path_of := fun p => snd (cfg_lookup l p) |}.

(* the oracle of the property in boolean form, on one state and the listed pids: no two distinct,
   unrelated holders that lock a common stack and of which one is exclusive *)
Definition mutex_okb (cfg : config) (s : state) (ps : list pid) : bool :=
  forallb (fun p => forallb (fun q =>
    Nat.eqb p q || relatedb cfg p q || negb (holdsb s p && holdsb s q) || negb (share_stack cfg p q) ||
    (negb (isEx cfg p) && negb (isEx cfg q))) ps) ps.

(* what the driver prints for one schedule: every state along it (the start state first), seen on the
   stacks 0 .. nstacks-1 and the declared pids, with the verdict of the oracle; a schedule that names an
   undeclared pid is refused *)
Definition declared (l : procs) (p : pid) : bool := existsb (fun e => Nat.eqb (fst e) p) l.

Definition trace_view (fx fr : bool) (l : procs) (nstacks : nat) (sched : list (pid * choice))
  : res (list (list (bool * list pid) * list (pid * local) * bool)) :=
  if forallb (fun e => declared l (fst e)) sched
  then Ok (map (fun s => (view s (seq 0 nstacks) (map fst l), mutex_okb (cfg_of l) s (map fst l)))
               (trace_gen fx fr (cfg_of l) init sched))
  else Err NotFound.

(* ---- which lock each command takes (the table itself is Generated/Locks.v) *)
Definition lock_table := list (string * option kind).

Fixpoint lock_of (t : lock_table) (c : string) : res (option kind) :=
  match t with
  | [] => Err NotFound
  | (n, k) :: r => if String.eqb n c then Ok k else lock_of r c
  end.

Definition kind_eqb (a b : kind) : bool :=
  match a, b with Sh, Sh | Ex, Ex => true | _, _ => false end.

Definition takes (t : lock_table) (k : kind) (c : string) : bool :=
  match lock_of t c with Ok (Some k') => kind_eqb k k' | _ => false end.

(* commands that change the database of a stack: declarations, tags (chain files), removal, the cache
   files, installation.  tags --clone / tags --delete stand for the tags command given that option. *)
Definition mutating_commands : list string :=
  [ "declare"; "undeclare"; "remove";
    "admin buildCache"; "admin clearCache"; "admin clearServerCache";
    "distrib clean"; "distrib create"; "distrib declare"; "distrib install";
    "tags --clone"; "tags --delete" ]%string.

(* commands that only read the database *)
Definition reader_commands : list string :=
  [ "setup"; "list"; "uses"; "pkg-config"; "expandbuild"; "expandtable";
    "admin listCache"; "admin info"; "distrib list"; "tags" ]%string.
