(* C09 - WHICH stacks a command locks.

   The command line as far as the stacks go (cmd.py EupsCmd.execute / createEups, setupcmd.py EupsSetup.run,
   Eups.setEupsPath): the environment variable EUPS_PATH, and the options -Z / --database / --with-eups (a list
   of stacks) and -z / --select-db (a selection of stacks), each of which may stand before or after the
   command word.  The dispatcher (the EupsCmd that reads the command word) parses the options before the
   command word only; the command it builds parses the whole line.

   No proofs here. *)
From Coq Require Import List Arith Bool.
Import ListNotations.
From Eupsv Require Import Base.Base Model.Lock.

Inductive popt :=
| OptZ (l : list stack)             (* -Z l *)
| Optz (sel : stack -> bool).       (* -z d: the stacks whose path has a directory d *)

Record cmdline := { env_path : list stack; before : list popt; after : list popt }.

(* optparse, action store: the last occurrence wins *)
Fixpoint lastZ (o : list popt) (acc : option (list stack)) : option (list stack) :=
  match o with
  | [] => acc
  | OptZ l :: r => lastZ r (Some l)
  | Optz _ :: r => lastZ r acc
  end.
Fixpoint lastz (o : list popt) (acc : option (stack -> bool)) : option (stack -> bool) :=
  match o with
  | [] => acc
  | OptZ _ :: r => lastz r acc
  | Optz f :: r => lastz r (Some f)
  end.

(* every stack once, the first occurrence kept *)
Fixpoint dedupe (seen l : list stack) : list stack :=
  match l with
  | [] => []
  | k :: r => if existsb (Nat.eqb k) seen then dedupe seen r else k :: dedupe (k :: seen) r
  end.

(* Eups.setEupsPath(path, dbz): an absent or empty path means EUPS_PATH; the selection; each stack once.
   (It also stores the result in EUPS_PATH: see used_stacks.) *)
Definition set_eups_path (env : list stack) (z : option (list stack)) (sel : option (stack -> bool))
  : list stack :=
  let p := match z with Some (k :: r) => k :: r | _ => env end in
  let p := match sel with Some f => filter f p | None => p end in
  dedupe [] p.

(* the options as the command itself parses them: the whole line *)
Definition all_opts (c : cmdline) : list popt := before c ++ after c.

(* execute: takeLocks(ecmd.cmd, setEupsPath(ecmd.opts.path, ecmd.opts.dbz), ecmd.lockType) *)
Definition locked_stacks (c : cmdline) : list stack :=
  set_eups_path (env_path c) (lastZ (all_opts c) None) (lastz (all_opts c) None).

(* createEups: Eups(path=opts.path, dbz=opts.dbz), whose constructor calls setEupsPath again - with
   EUPS_PATH as the first call left it *)
Definition used_stacks (c : cmdline) : list stack :=
  set_eups_path (locked_stacks c) (lastZ (all_opts c) None) (lastz (all_opts c) None).

(* what the dispatcher alone would make of the line: the options before the command word *)
Definition dispatcher_stacks (c : cmdline) : list stack :=
  set_eups_path (env_path c) (lastZ (before c) None) (lastz (before c) None).
