(* C09 - the file-name layer of python/eups/lock.py, on top of Model/Lock.v.

   Model/Lock.v represents a lock file by the pid of its owner and takes its kind to be the kind its owner
   asked for.  The code knows neither: the lock directory holds file NAMES
       <kind>-<user>.<pid>              lockFile = %s-%s.%d % (lockTypeName, who, pid)
   and every decision of takeLocks is taken on what listLockers reads back out of the names
       glob(lockDir/pattern), then re.search of ^(exclusive|shared)-(.+)\.(\d+)$ on each entry;
       an entry that does not match is skipped with a warning; the pid field is compared AS A STRING with
       the own pid and with the environment variable EUPS_LOCK_PID.
   Here the directory is a list of names (newest first), every process has a login name, and the protocol
   of Model/Lock.v is written again over names ([nnext], [nstep]): same program counters, same private
   state, the queries on the directory replaced by listLockers on the names.  The directory may hold
   foreign entries from the start (editor back-ups, .nfs files, names that look like lock files).
   Proofs/LockName.v: the name of a lock file parses back to its parts, [nstep] refines [step_gen] and so
   inherits mutual exclusion.

   Not modelled: names with a newline in them (the dot of the pattern does not match one, and the dollar
   matches before a final one), non-ASCII digits, sub-directories of the lock directory.
   Definitions only. *)
From Coq Require Import DecimalString DecimalNat Decimal.
From Eupsv Require Import Base.Base Model.Lock.

(* %d of a pid *)
Definition digits (n : nat) : str := String.list_ascii_of_string (NilEmpty.string_of_uint (Nat.to_uint n)).

Definition kind_name (k : kind) : str :=
  match k with Ex => lit "exclusive" | Sh => lit "shared" end.

Definition dot : ascii := "."%char.
Definition dash : ascii := "-"%char.
Definition newline : ascii := ascii_of_nat 10.

Definition lock_name (k : kind) (user : str) (p : pid) : str :=
  kind_name k ++ dash :: user ++ dot :: digits p.

(* x without the prefix p *)
Fixpoint strip (p x : str) : option str :=
  match p, x with
  | [], _ => Some x
  | c :: p', d :: x' => if ascii_eqb c d then strip p' x' else None
  | _ :: _, [] => None
  end.

(* x cut at its LAST occurrence of d (the greedy .+ of the pattern leaves the shortest tail) *)
Fixpoint split_last (d : ascii) (x : str) : option (str * str) :=
  match x with
  | [] => None
  | c :: r =>
      match split_last d r with
      | Some (a, b) => Some (c :: a, b)
      | None => if ascii_eqb c d then Some ([], r) else None
      end
  end.

Definition all_digits (x : str) : bool := nonempty x && forallb is_digit x.

(* the user field: .+ *)
Definition user_ok (u : str) : bool := nonempty u && negb (mem_ascii newline u).

(* re.search(^(exclusive|shared)-(.+)\.(\d+)$, f).groups(); the pid stays a string *)
Definition parse_lock_name (f : str) : option (kind * str * str) :=
  match (match strip (kind_name Ex ++ [dash]) f with
         | Some r => Some (Ex, r)
         | None => match strip (kind_name Sh ++ [dash]) f with Some r => Some (Sh, r) | None => None end
         end) with
  | None => None
  | Some (k, r) =>
      match split_last dot r with
      | Some (u, ds) => if user_ok u && all_digits ds then Some (k, u, ds) else None
      | None => None
      end
  end.

(* the two glob patterns lock.py uses; the star does not match a leading dot *)
Inductive pat := PAll | PExcl.
Definition hidden (f : str) : bool := match f with c :: _ => ascii_eqb c dot | [] => false end.
Definition glob_match (pt : pat) (f : str) : bool :=
  match pt with
  | PAll => negb (hidden f)
  | PExcl => starts_with (kind_name Ex) f
  end.

(* listLockers(lockDir, pattern, getPids=True, ignorePids=ignore) *)
Definition list_lockers (pt : pat) (ignore : list str) (names : list str) : list str :=
  flat_map (fun f =>
    if glob_match pt f then
      match parse_lock_name f with
      | Some (_, _, ds) => if mem_str ds ignore then [] else [ds]
      | None => []                                   (* Unable to parse lockfile name *)
      end
    else []) names.

Definition nadd (f : str) (names : list str) : list str := if mem_str f names then names else f :: names.

Definition is_nil {A} (l : list A) : bool := match l with [] => true | _ => false end.

Section NameProtocol.
Variable fx : bool.
Variable fr : bool.
Variable cfg : config.
Variable usr : pid -> str.            (* utils.getUserName() of each process *)

(* the lock file of process p *)
Definition myname (p : pid) : str := lock_name (kind_of cfg p) (usr p) p.

(* os.environ.get(EUPS_LOCK_PID, -1)  (see is_root in Model/Lock.v for a process that set it itself) *)
Definition env_pid (p : pid) : str :=
  match root_of cfg p with Some r => digits r | None => lit "-1" end.

(* len(lockPids) == 1 and lockPids[0] == EUPS_LOCK_PID *)
Definition n_only_root (p : pid) (names : list str) : bool :=
  match list_lockers PAll [] names with [x] => str_eqb x (env_pid p) | _ => false end.

(* the second look *)
Definition n_conflict (p : pid) (names : list str) : bool :=
  negb (is_nil (list_lockers (match kind_of cfg p with Ex => PAll | Sh => PExcl end)
                             [digits p; env_pid p] names)).

Definition npick (c : choice) (l : list str) : option str := nth_error l (Nat.modulo c (length l)).

(* [next] of Model/Lock.v over names *)
Definition nnext (d : bool) (names : list str) (lo : local) (p : pid) (c : choice) : bool * list str * local :=
  match lpc lo with
  | LMkdir =>
      if d then (d, names, setpc lo (match kind_of cfg p with Ex => LListAll | Sh => LExists end))
      else (true, names, setpc lo LScanX)
  | LListAll =>
      (d, names, setpc lo (if n_only_root p names then LScanX else LListAll2))
  | LListAll2 =>
      (d, names, retry fr cfg p lo)
  | LExists =>
      if d then (d, names, setpc lo LScanX)
      else if fx then (d, names, retry fr cfg p lo)
      else (d, names, setpc lo LHeldNoLock)
  | LScanX =>
      (d, names, match list_lockers PExcl [] names with
                 | [] => setpc lo LCreate
                 | [_] => setpc lo LScanX2
                 | _ => raise_ fr false lo
                 end)
  | LScanX2 =>
      (d, names, match npick c (list_lockers PExcl [] names) with
                 | None => raise_ fr true lo
                 | Some x => if str_eqb x (env_pid p) then setpc lo LCreate else raise_ fr false lo
                 end)
  | LCreate =>
      if d then (d, nadd (myname p) names, if fx then setpc lo LValidate else advance cfg p lo)
      else (d, names, raise_ fr true lo)
  | LValidate =>
      (d, names, if n_conflict p names then setpc lo (LGive GBackoff GIsdir) else advance cfg p lo)
  | LHeld | LHeldNoLock => (d, names, begin_release lo)
  | LGive m GIsdir =>
      (d, names, if d then setpc lo (LGive m GExistsF) else give_next fr cfg m p lo)
  | LGive m GExistsF =>
      (d, names, setpc lo (if d && mem_str (myname p) names then LGive m GRemove else LGive m GCount))
  | LGive m GRemove =>
      if d && mem_str (myname p) names then (d, remove_str (myname p) names, setpc lo (LGive m GCount))
      else (d, names, give_crash fr m lo)
  | LGive m GCount =>
      (* len(next(os.walk(d))[2]): every file counts, whatever its name *)
      if d then (d, names, match names with [] => setpc lo (LGive m GRmdir) | _ => give_next fr cfg m p lo end)
      else (d, names, give_race fx fr cfg m p lo)
  | LGive m GRmdir =>
      if d then match names with
                | [] => (false, names, give_next fr cfg m p lo)
                | _ => (d, names, give_race fx fr cfg m p lo)
                end
      else (d, names, give_race fx fr cfg m p lo)
  | LDone | LFailed | LCrashed => (d, names, lo)
  end.

Record nstate := { ndir : stack -> bool; nfiles : stack -> list str; nlocal : pid -> local }.

Definition local0 : local := {| lpc := LMkdir; ltry := 1; lnl := 0; lcur := 0 |}.

(* the start: nobody has run; the lock directory of stack k exists iff foreign entries lie in it *)
Definition ninit (junk : stack -> list str) : nstate :=
  {| ndir := fun k => negb (is_nil (junk k)); nfiles := junk; nlocal := fun _ => local0 |}.

Definition nstep (s : nstate) (p : pid) (c : choice) : nstate :=
  let lo := nlocal s p in
  match nth_error (path_of cfg p) (widx lo) with
  | Some k =>
      match nnext (ndir s k) (nfiles s k) lo p c with
      | (d, fs, lo') => {| ndir := upd (ndir s) k d; nfiles := upd (nfiles s) k fs; nlocal := upd (nlocal s) p lo' |}
      end
  | None => {| ndir := ndir s; nfiles := nfiles s; nlocal := upd (nlocal s) p (nostack lo) |}
  end.

Fixpoint ntrace (s : nstate) (sched : list (pid * choice)) : list nstate :=
  s :: match sched with
       | [] => []
       | (p, c) :: r => ntrace (nstep s p c) r
       end.

Inductive nreachable (junk : stack -> list str) : nstate -> Prop :=
| nr_init : nreachable junk (ninit junk)
| nr_step : forall s p c, nreachable junk s -> nreachable junk (nstep s p c).

End NameProtocol.

Definition nholdsb (s : nstate) (p : pid) : bool :=
  match lpc (nlocal s p) with LHeld | LHeldNoLock => true | _ => false end.
Definition nholds (s : nstate) (p : pid) : Prop := nholdsb s p = true.

Definition no_junk : stack -> list str := fun _ => [].

(* every login name can stand in a lock-file name *)
Definition users_ok (usr : pid -> str) : Prop := forall p, user_ok (usr p) = true.

(* the state of Model/Lock.v a state over names stands for, given the owners of the files *)
Definition nmutex_okb (cfg : config) (s : nstate) (ps : list pid) : bool :=
  forallb (fun p => forallb (fun q =>
    Nat.eqb p q || relatedb cfg p q || negb (nholdsb s p && nholdsb s q) || negb (share_stack cfg p q) ||
    (negb (isEx cfg p) && negb (isEx cfg q))) ps) ps.

(* ---- what the driver prints: configuration with login names (pid, (kind, root, ntry, path), user), foreign
   entries per stack (stack 0 first), schedule *)
Definition nprocs := list (pid * (kind * option pid * nat * list stack) * str).

Definition procs_of (l : nprocs) : procs := map fst l.
Fixpoint usr_of (l : nprocs) (p : pid) : str :=
  match l with
  | [] => lit "nobody"
  | (q, _, u) :: r => if Nat.eqb q p then u else usr_of r p
  end.
Definition junk_of (j : list (list str)) (k : stack) : list str := nth k j [].

Definition nview (s : nstate) (ks : list stack) (ps : list pid)
  : list (bool * list str) * list (pid * local) :=
  (map (fun k => (ndir s k, nfiles s k)) ks, map (fun p => (p, nlocal s p)) ps).

Definition ntrace_view (fx fr : bool) (l : nprocs) (junk : list (list str)) (nstacks : nat)
  (sched : list (pid * choice))
  : res (list (list (bool * list str) * list (pid * local) * bool)) :=
  if forallb (fun e => declared (procs_of l) (fst e)) sched
  then Ok (map (fun s => (nview s (seq 0 nstacks) (map fst (procs_of l)),
                          nmutex_okb (cfg_of (procs_of l)) s (map fst (procs_of l))))
               (ntrace fx fr (cfg_of (procs_of l)) (usr_of l) (ninit (junk_of junk)) sched))
  else Err NotFound.
