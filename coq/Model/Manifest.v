(* Model of python/eups/distrib/server.py (C18):
     TaggedProductList.addProduct / read / write / getProducts      (lines 1387-1518)
     Dependency.__init__                                             (lines 1537-1555)
     Mapping.add / _exists / apply / _apply / merge / inverse / noReinstall / __str__
     Manifest.read / write / remapEntries / _readRemapFile
   Executable definitions only.

   Text is modelled at two levels.  Level A: a file is a str; [lines_of] is python text-mode
   file iteration (universal newlines), [words] is re.findall of non-space runs, the header
   parsers follow the two regular expressions with their backtracking.  Level B: records.

   The first argument [fx] of the functions that touch the two repaired one-token defects
   selects the code: true = repaired (Manifest.write tests -if flavor-, Dependency assigns
   distId = None), false = the pinned tree (-if not flavor-, -distId == None-).

   Mapping and the remap file reader follow the code with the four repairs proposed in
   proposed_fixes/C18-*.diff (deletion rows, flavor rows before generic rows, row-wise merge, the mode
   of a remap line); the definitions whose name ends in _pinned follow the tree before them. *)
From Eupsv Require Import Base.Base.

(* string constants, computed so that the extracted code does not mention Coq's string type *)
Definition k_sp_version : str := Eval compute in lit " Version ".
Definition k_eups_distribution_manife : str := Eval compute in lit "EUPS distribution manifest for ".
Definition k_sp_lpar : str := Eval compute in lit " (".
Definition k_eups_distribution : str := Eval compute in lit "EUPS distribution ".
Definition k_version_list : str := Eval compute in lit " version list".
Definition k_cap_none : str := Eval compute in lit "None".
Definition k_1_0 : str := Eval compute in lit "1.0".
Definition k_low_none : str := Eval compute in lit "none".
Definition k_unknown_product : str := Eval compute in lit "UNKNOWN_PRODUCT".
Definition k_generic : str := Eval compute in lit "generic".
Definition k_rpar_version : str := Eval compute in lit "). Version ".
Definition k_hashs : str := Eval compute in lit "#".
Definition k_creator : str := Eval compute in lit "# Creator:      ".
Definition k_time : str := Eval compute in lit "# Time:         ".
Definition k_eups_version : str := Eval compute in lit "# Eups version: ".
Definition k_pkg_flavor_version_table : str := Eval compute in lit "# pkg           flavor       version    tablefile                 installation_directory         installID".
Definition k_search : str := Eval compute in lit "search".
Definition k_optional : str := Eval compute in lit "OPTIONAL".
Definition k_true : str := Eval compute in lit "TRUE".
Definition k_false : str := Eval compute in lit "FALSE".
Definition k_any : str := Eval compute in lit "any".
Definition k_version_list_version : str := Eval compute in lit " version list. Version ".
Definition k_product_flavor_version : str := Eval compute in lit "#product             flavor     version".
Definition k_noreinstall : str := Eval compute in lit "noreinstall".
Definition k_verbose : str := Eval compute in lit "verbose".
Definition k_cap_true : str := Eval compute in lit "True".
Definition k_cap_false : str := Eval compute in lit "False".
Definition k_cap_any : str := Eval compute in lit "Any".
Definition k_dummy : str := Eval compute in lit "dummy".
Definition k_4sp : str := Eval compute in lit "    ".

(* ------------------------------------------------------------------ characters *)

(* python str.isspace and the regex class for white space, on code points 0..255 *)
Definition is_pyspace (c : ascii) : bool :=
  let n := nat_of_ascii c in
  ((9 <=? n) && (n <=? 13)) || ((28 <=? n) && (n <=? 32)) || (n =? 133) || (n =? 160).

Definition c_nl : ascii := ascii_of_nat 10.
Definition c_cr : ascii := ascii_of_nat 13.
Definition c_sp : ascii := " "%char.
Definition c_hash : ascii := "#"%char.
Definition c_rpar : ascii := ")"%char.

Definition is_word_char (c : ascii) : bool := negb (is_pyspace c).

(* ------------------------------------------------------------------ level A: text *)

(* for line in fd (text mode, universal newlines); the terminator is dropped, which is what
   line.split(newline)[0] resp. line.strip() do next *)
Fixpoint lines_of (x : str) : list str :=
  match x with
  | [] => []
  | c :: r =>
      if ascii_eqb c c_nl then [] :: lines_of r
      else if ascii_eqb c c_cr then
        match r with
        | d :: r' => if ascii_eqb d c_nl then [] :: lines_of r' else [] :: lines_of r
        | [] => [[]]
        end
      else match lines_of r with
           | h :: t => (c :: h) :: t
           | [] => [[c]]
           end
  end.

(* print(line, file=fd) for every line *)
Definition unlines (ls : list str) : str := concat (map (fun l => l ++ [c_nl]) ls).

(* re.findall of runs of non-space characters *)
Fixpoint words (x : str) : list str :=
  match x with
  | [] => []
  | c :: r =>
      if is_pyspace c then words r
      else match r with
           | [] => [[c]]
           | d :: _ =>
               if is_pyspace d then [c] :: words r
               else match words r with
                    | h :: t => (c :: h) :: t
                    | [] => [[c]]
                    end
           end
  end.

Fixpoint dropw (x : str) : str :=
  match x with
  | c :: r => if is_pyspace c then dropw r else x
  | [] => []
  end.

(* Manifest.read: re.search of optional space, optional comment, end of line;
   TaggedProductList.read: split at a leading comment, strip, skip when empty *)
Definition blank_or_comment (x : str) : bool :=
  match dropw x with
  | [] => true
  | c :: _ => ascii_eqb c c_hash
  end.

Fixpoint spanw (x : str) : str * str :=
  match x with
  | [] => ([], [])
  | c :: r => if is_pyspace c then ([], x) else let (a, b) := spanw r in (c :: a, b)
  end.

Fixpoint strip_prefix (p x : str) : option str :=
  match p, x with
  | [], _ => Some x
  | c :: p', d :: x' => if ascii_eqb c d then strip_prefix p' x' else None
  | _ :: _, [] => None
  end.

Definition all_space (x : str) : bool := forallb is_pyspace x.

(* the tail shared by both headers: literal  Version , a non-space run, then only white space *)
Definition parse_version_tail (x : str) : option str :=
  match strip_prefix (k_sp_version) x with
  | None => None
  | Some r =>
      let (g, r') := spanw r in
      match g with
      | [] => None
      | _ => if all_space r' then Some g else None
      end
  end.

(* re.search(^EUPS distribution manifest for (\S+) \((\S+)\). Version (\S+)\s*$):
   group 1 and group 3 are maximal non-space runs; group 2 is greedy and followed by a
   closing parenthesis and any one character, so the engine first tries the run minus its
   last character (the dot then eats the white space after the run) and then the run minus
   its last two characters *)
Definition parse_mheader (x : str) : option (str * str * str) :=
  match strip_prefix (k_eups_distribution_manife) x with
  | None => None
  | Some r0 =>
      let (g1, r1) := spanw r0 in
      match g1 with
      | [] => None
      | _ =>
          match strip_prefix (k_sp_lpar) r1 with
          | None => None
          | Some r2 =>
              let (R, r3) := spanw r2 in
              let finish (g2 rest : str) : option (str * str * str) :=
                match g2 with
                | [] => None
                | _ => match parse_version_tail rest with
                       | Some g3 => Some (g1, g2, g3)
                       | None => None
                       end
                end in
              let first :=
                match rev R, r3 with
                | c :: g2r, d :: rest =>
                    if ascii_eqb c c_rpar && negb (ascii_eqb d c_nl) then finish (rev g2r) rest else None
                | _, _ => None
                end in
              match first with
              | Some t => Some t
              | None =>
                  match rev R with
                  | _ :: c :: g2r => if ascii_eqb c c_rpar then finish (rev g2r) r3 else None
                  | _ => None
                  end
              end
          end
      end
  end.

(* re.search(^EUPS distribution TAG version list. Version (\S+)\s*$); the tag is pasted into
   the pattern unescaped, the model takes it literally (tags are alphanumeric) *)
Definition parse_tlheader (tag x : str) : option str :=
  match strip_prefix (k_eups_distribution ++ tag ++ k_version_list) x with
  | None => None
  | Some [] => None
  | Some (c :: r) => if ascii_eqb c c_nl then None else parse_version_tail r
  end.

(* python percent-minus-N-s *)
Definition ljust (w : nat) (s : str) : str := s ++ repeat c_sp (w - length s).

(* ------------------------------------------------------------------ Dependency *)

Record dep := mkDep {
  d_product : str;
  d_version : str;
  d_flavor : option str;
  d_table : option str;
  d_dir : option str;
  d_distid : option str;
  d_opt : bool;
  d_recurse : bool;
  d_extra : list str }.

(* python truth value of an optional string *)
Definition truthy (o : option str) : bool :=
  match o with Some (_ :: _) => true | _ => false end.

(* percent-s of an optional string *)
Definition ostr (o : option str) : str :=
  match o with Some s => s | None => k_cap_none end.

(* Dependency.__init__ *)
Definition new_dep (fx : bool) (p v : str) (fl tf dir id : option str) (opt rec : bool)
           (extra : list str) : dep :=
  let id' := match id with
             | Some s => if fx && str_eqb s (k_cap_none) then None else id
             | None => None
             end in
  mkDep p v fl tf dir id' opt rec extra.

(* ------------------------------------------------------------------ Manifest *)

Record manifest := mkManifest {
  mf_product : option str;
  mf_version : option str;
  mf_deps : list dep }.

Definition empty_manifest : manifest := mkManifest None None [].

Definition fmtversion : str := k_1_0.

Definition dep_line (fx : bool) (fa : option str) (efl : str) (d : dep) : str :=
  let fl1 := if fx then (if truthy fa then fa else d_flavor d)
             else (if truthy fa then d_flavor d else fa) in
  let fl2 := if truthy fl1 then fl1 else Some efl in
  let dir := if truthy (d_dir d) then d_dir d else Some (k_low_none) in
  let tf := if truthy (d_table d) then d_table d else Some (k_low_none) in
  ljust 15 (d_product d) ++ c_sp ::
  ljust 12 (ostr fl2) ++ c_sp ::
  ljust 10 (d_version d) ++ c_sp ::
  ljust 25 (ostr tf) ++ c_sp ::
  ljust 30 (ostr dir) ++ c_sp ::
  ostr (d_distid d).

Definition mheader (who time ver : str) (m : manifest) : list str :=
  let p := match mf_product m with Some p => p | None => k_unknown_product end in
  let v := match mf_version m with Some v => v | None => k_generic end in
  [ k_eups_distribution_manife ++ p ++ k_sp_lpar ++ v ++ k_rpar_version ++ fmtversion;
    k_hashs;
    k_creator ++ who;
    k_time ++ time;
    k_eups_version ++ ver;
    k_hashs;
    k_pkg_flavor_version_table;
    c_hash :: repeat "-"%char 105 ].

(* Manifest.write(filename, noOptional, flavor): the lines printed; efl is eupsenv.flavor,
   who/time/ver the three strings of the comment block *)
Definition m_write_lines (fx noopt : bool) (fa : option str) (efl who time ver : str)
           (m : manifest) : list str :=
  mheader who time ver m ++
  map (dep_line fx fa efl) (filter (fun d => negb (d_opt d && noopt)) (mf_deps m)).

Definition m_write (fx noopt : bool) (fa : option str) (efl who time ver : str) (m : manifest) : str :=
  unlines (m_write_lines fx noopt fa efl who time ver m).

Definition parse_dep_line (fx dflt_rec : bool) (line : str) : res dep :=
  match words line with
  | p :: fl :: v :: tf :: dir :: rest =>
      let id := match rest with
                | [] => None
                | i :: _ => if str_eqb i (k_search) then None else Some i
                end in
      let opt := match rest with
                 | _ :: o :: _ => starts_with o (k_optional)
                 | _ => false
                 end in
      let rc := match rest with
                | _ :: _ :: r :: _ =>
                    if starts_with r (k_true) then true
                    else if starts_with r (k_false) then false else dflt_rec
                | _ => dflt_rec
                end in
      Ok (new_dep fx p v (Some fl) (Some tf) (Some dir) id opt rc (skipn 3 rest))
  | _ => Err Crash
  end.

Fixpoint read_dep_lines (fx dflt_rec : bool) (ls : list str) (acc : list dep) : res (list dep) :=
  match ls with
  | [] => Ok acc
  | l :: ls' =>
      if blank_or_comment l then read_dep_lines fx dflt_rec ls' acc
      else match parse_dep_line fx dflt_rec l with
           | Ok d => read_dep_lines fx dflt_rec ls' (acc ++ [d])
           | Err e => Err e
           end
  end.

(* Manifest.read(file, setproduct, shouldRecurse) on the lines of the file; both failures are
   RuntimeError in python: BadTable = first line corrupted, Crash = failed to parse line *)
Definition m_read_lines (fx setproduct dflt_rec : bool) (m0 : manifest) (ls : list str) : res manifest :=
  match ls with
  | [] => Err BadTable
  | h :: rest =>
      match parse_mheader h with
      | None => Err BadTable
      | Some (p, v, _) =>
          let p' := match mf_product m0 with
                    | Some q => if setproduct then Some p else Some q
                    | None => Some p
                    end in
          let v' := match mf_version m0 with
                    | Some q => if setproduct then Some v else Some q
                    | None => Some v
                    end in
          match read_dep_lines fx dflt_rec rest (mf_deps m0) with
          | Ok ds => Ok (mkManifest p' v' ds)
          | Err e => Err e
          end
      end
  end.

Definition m_read (fx setproduct dflt_rec : bool) (m0 : manifest) (text : str) : res manifest :=
  m_read_lines fx setproduct dflt_rec m0 (lines_of text).

(* ------------------------------------------------------------------ TaggedProductList *)

(* info[product] = [flavor, version] + extras; the association list keeps first-insertion
   order, which is the order of self.products *)
Definition tlinfo := (str * str * list str)%type.

Record tlist := mkTl {
  tl_tag : str;
  tl_flavor : str;
  tl_entries : amap tlinfo }.

Definition s_generic : str := k_generic.
Definition s_any : str := k_any.

(* TaggedProductList(tag, defFlavor) *)
Definition tl_new (tag : str) (defFlavor : option str) : tlist :=
  mkTl tag (match defFlavor with Some f => f | None => s_generic end) [].

Definition tl_add (t : tlist) (p v : str) (fl : option str) (info : list str) : tlist :=
  let f := match fl with Some f => f | None => tl_flavor t end in
  mkTl (tl_tag t) (tl_flavor t) (aset p (f, v, info) (tl_entries t)).

(* getProducts() *)
Definition tl_products (t : tlist) : list (list str) :=
  map (fun e => match e with (p, (f, v, ex)) => p :: f :: v :: ex end) (tl_entries t).

(* python order of str: code points, shorter prefix first *)
Fixpoint str_ltb (a b : str) : bool :=
  match a, b with
  | [], [] => false
  | [], _ :: _ => true
  | _ :: _, [] => false
  | x :: a', y :: b' =>
      let n := N_of_ascii x in
      let m := N_of_ascii y in
      if N.ltb n m then true else if N.ltb m n then false else str_ltb a' b'
  end.

Fixpoint insert_sorted (x : str) (l : list str) : list str :=
  match l with
  | [] => [x]
  | y :: l' => if str_ltb y x then y :: insert_sorted x l' else x :: l
  end.

Definition sort_str (l : list str) : list str := fold_right insert_sorted [] l.

Definition tl_line (fa : option str) (p : str) (i : tlinfo) : str :=
  match i with
  | (f, v, ex) =>
      let flav := match fa with Some g => g | None => f end in
      ljust 20 p ++ c_sp :: ljust 10 flav ++ c_sp :: v ++ concat (map (fun e => c_sp :: c_sp :: e) ex)
  end.

Definition tlheader (tag : str) : list str :=
  [ k_eups_distribution ++ tag ++ k_version_list_version ++ fmtversion;
    k_product_flavor_version;
    c_hash :: repeat "-"%char 38 ].

Definition tl_write_lines (fa : option str) (t : tlist) : list str :=
  tlheader (tl_tag t) ++
  flat_map (fun p => match alookup p (tl_entries t) with
                     | Some i => [tl_line fa p i]
                     | None => []
                     end) (sort_str (akeys (tl_entries t))).

Definition tl_write (fa : option str) (t : tlist) : str := unlines (tl_write_lines fa t).

Fixpoint tl_read_body (t : tlist) (ls : list str) : res tlist :=
  match ls with
  | [] => Ok t
  | l :: ls' =>
      if blank_or_comment l then tl_read_body t ls'
      else match words l with
           | p :: fl :: v :: info =>
               let fl' := if str_eqb fl s_generic then tl_flavor t else fl in
               if str_eqb fl' (tl_flavor t) then tl_read_body (tl_add t p v (Some fl') info) ls'
               else tl_read_body t ls'
           | _ => Err Crash      (* IndexError *)
           end
  end.

(* TaggedProductList.read: BadTable = RemoteFileInvalid (first line), Crash = IndexError *)
Definition tl_read_lines (t : tlist) (ls : list str) : res tlist :=
  match ls with
  | [] => Err BadTable
  | h :: rest =>
      match parse_tlheader (tl_tag t) h with
      | None => Err BadTable
      | Some _ => tl_read_body t rest
      end
  end.

Definition tl_read (t : tlist) (text : str) : res tlist := tl_read_lines t (lines_of text).

(* ------------------------------------------------------------------ Mapping *)

(* a row of the table: the product and version to use instead; no version = remove the entry *)
Notation mval := (str * option str)%type.
Notation vmap := (amap mval).            (* inVersion -> (outProduct, outVersion) *)
Notation pmap := (amap vmap).            (* inProduct -> ... *)
Notation fmap := (amap pmap).            (* flavor -> ... *)

Record mapping := mkMapping { mp_map : fmap; mp_nore : fmap }.

Definition empty_mapping : mapping := mkMapping [] [].

Definition oget {V} (k : str) (m : amap (amap V)) : amap V :=
  match alookup k m with Some x => x | None => [] end.

(* -if not outVersion: outVersion = None- *)
Definition out_version (o : option str) : option str :=
  match o with Some (c :: w) => Some (c :: w) | _ => None end.

(* the body of Mapping.add once the dictionary has been chosen *)
Definition fm_add (fm : fmap) (inP inV outP : str) (outV : option str) (fl : str)
           (overwrite : bool) : fmap :=
  let pm := oget fl fm in
  let vm := oget inP pm in
  if negb overwrite && amem inV vm then aset fl (aset inP vm pm) fm
  else aset fl (aset inP (aset inV (outP, out_version outV) vm) pm) fm.

Definition is_noreinstall (o : option str) : bool :=
  match o with
  | Some (c :: w) => str_eqb (lower_str (c :: w)) (k_noreinstall)
  | _ => false
  end.

(* Mapping.add(inProduct, inVersion, outProduct, outVersion, flavor, overwrite) *)
Definition m_add (m : mapping) (inP inV : str) (outP outV : option str) (fl : str)
           (overwrite : bool) : mapping :=
  let outP' := match outP with Some (c :: w) => c :: w | _ => inP end in
  if is_noreinstall outV
  then mkMapping (mp_map m) (fm_add (mp_nore m) inP inV outP' outV fl overwrite)
  else mkMapping (fm_add (mp_map m) inP inV outP' outV fl overwrite) (mp_nore m).

(* Mapping._exists *)
Definition m_exists1 (m : mapping) (p v fl : str) : bool :=
  match alookup fl (mp_map m) with
  | None => false
  | Some pm => match alookup p pm with
               | None => false
               | Some vm => amem v vm
               end
  end.

(* Mapping._apply: the row for the version, else the row for any; the version is None when the
   entry is to be removed *)
Definition m_apply1 (m : mapping) (p v fl : str) : mval :=
  match alookup fl (mp_map m) with
  | None => (p, Some v)
  | Some pm =>
      match alookup p pm with
      | None => (p, Some v)
      | Some vm =>
          match alookup v vm with
          | Some r => r
          | None => match alookup s_any vm with
                    | Some r => r
                    | None => (p, Some v)
                    end
          end
      end
  end.

(* Mapping.apply: the generic table is consulted only when the table of the flavor has no row for
   the entry *)
Definition m_apply (m : mapping) (p v fl : str) : mval :=
  if negb (str_eqb fl s_generic) && negb (m_exists1 m p v fl || m_exists1 m p s_any fl)
  then m_apply1 m p v s_generic
  else m_apply1 m p v fl.

(* Mapping.noReinstall(product, version, flavor): python truth value of the answer *)
Definition m_noreinstall (m : mapping) (p v fl : str) : bool :=
  match alookup fl (mp_nore m) with
  | None | Some [] => false
  | Some pm => match alookup p pm with
               | None => false
               | Some vm => amem v vm
               end
  end.

(* Mapping.merge(other, overwrite): row by row, the three levels created on demand *)
Definition vm_merge (rows o : vmap) (overwrite : bool) : vmap :=
  fold_left (fun rows e => if negb overwrite && amem (fst e) rows then rows else aset (fst e) (snd e) rows) o rows.

Definition pm_merge (s o : pmap) (overwrite : bool) : pmap :=
  fold_left (fun s e => aset (fst e) (vm_merge (oget (fst e) s) (snd e) overwrite) s) o s.

Definition fm_merge (s o : fmap) (overwrite : bool) : fmap :=
  fold_left (fun s e => match snd e with
                        | [] => s
                        | _ => aset (fst e) (pm_merge (oget (fst e) s) (snd e) overwrite) s
                        end) o s.

Definition m_merge (m o : mapping) (overwrite : bool) : mapping :=
  mkMapping (fm_merge (mp_map m) (mp_map o) overwrite) (fm_merge (mp_nore m) (mp_nore o) overwrite).

(* the triple loop of Mapping.inverse and of Mapping.__str__ visits these rows in this order:
   (flavor, inProduct, inVersion, outProduct, outVersion) *)
Definition mrow := (str * str * str * str * option str)%type.

Definition fm_rows (fm : fmap) : list mrow :=
  flat_map (fun fe => match fe with (f, pm) =>
    flat_map (fun pe => match pe with (p, vm) =>
      map (fun ve => match ve with (v, (q, w)) => (f, p, v, q, w) end) vm end) pm end) fm.

Definition m_rows (m : mapping) : list mrow := fm_rows (mp_map m).

Definition inv_step (acc : res mapping) (r : mrow) : res mapping :=
  match acc, r with
  | Err e, _ => Err e
  | Ok inv, (f, p, v, q, None) => Ok inv          (* a removal has no inverse *)
  | Ok inv, (f, p, v, q, Some w) =>
      if m_exists1 inv q w f then Err Refused      (* RuntimeError: not one-to-one *)
      else Ok (m_add inv q w (Some p) (Some v) f true)
  end.

(* Mapping.inverse *)
Definition m_inverse (m : mapping) : res mapping :=
  fold_left inv_step (m_rows m) (Ok empty_mapping).

(* Mapping.__str__: one line per row of the remap table (the noReinstall rows are not printed) *)
Definition row_line (r : mrow) : str :=
  match r with
  | (f, p, v, q, w) =>
      p ++ ":"%char :: v ++ k_4sp ++
      (match w with None => k_cap_none | Some w' => q ++ ":"%char :: w' end) ++ k_4sp ++ f
  end.

Definition m_print (m : mapping) : str := unlines (map row_line (m_rows m)).

(* ------------------------------------------------------------------ Manifest._readRemapFile *)

Definition rstrip (x : str) : str := rev (dropw (rev x)).
Definition strip (x : str) : str := rstrip (dropw x).

(* the text before the first hash sign, when there is one *)
Fixpoint before_hash (x : str) : option str :=
  match x with
  | [] => None
  | c :: r => if ascii_eqb c c_hash then Some []
              else match before_hash r with Some b => Some (c :: b) | None => None end
  end.

(* re.sub of optional space, a hash sign and the rest of the line by nothing *)
Definition cut_comment (x : str) : str :=
  match before_hash x with Some b => rstrip b | None => x end.

Definition c_lbr : ascii := "["%char.
Definition c_rbr : ascii := "]"%char.
Definition c_colon : ascii := ":"%char.
Definition c_eq : ascii := "="%char.

Fixpoint span_until (d : ascii) (x : str) : str * str :=
  match x with
  | [] => ([], [])
  | c :: r => if ascii_eqb c d then ([], x) else let (a, b) := span_until d r in (c :: a, b)
  end.

(* re.search of: start, left bracket, one or more characters other than right bracket, right bracket,
   optional space, the rest: the mode and the rest of the line *)
Definition parse_mode_prefix (x : str) : option (str * str) :=
  match x with
  | c :: r =>
      if ascii_eqb c c_lbr then
        match span_until c_rbr r with
        | ((_ :: _) as g, _ :: rest) => Some (g, dropw rest)
        | _ => None
        end
      else None
  | [] => None
  end.

(* re.search of: start, optional space, verbose, optional space, equals sign, optional space, one of
   True False 0 1 *)
Definition is_verbose_line (x : str) : bool :=
  match strip_prefix k_verbose (dropw x) with
  | None => false
  | Some r =>
      match dropw r with
      | c :: r2 =>
          ascii_eqb c c_eq &&
          (let r3 := dropw r2 in
           starts_with k_cap_true r3 || starts_with k_cap_false r3 ||
           starts_with ["0"%char] r3 || starts_with ["1"%char] r3)
      | [] => false
      end
  end.

(* re.search of: start, one or more characters other than a colon, optionally a colon and the rest;
   None = no match (the code then fails with AttributeError) *)
Definition split_colon (w : str) : option (str * option str) :=
  match span_until c_colon w with
  | ([], _) => None
  | (a, []) => Some (a, None)
  | (a, _ :: rest) => Some (a, Some rest)
  end.

(* one line of a remap table = one call of Mapping.add *)
Record row := mkRow {
  r_inP : str; r_inV : str; r_outP : option str; r_outV : option str; r_fl : str }.

(* the fields of a line: product[:version]  [[outProduct:]outVersion]  [flavor] *)
Definition row_of_words (vals : list str) : res (option row) :=
  match vals with
  | [] => Ok None
  | v0 :: rest =>
      match split_colon v0 with
      | None => Err Crash
      | Some (product, inv0) =>
          let inversion :=
            match inv0 with
            | None => s_any
            | Some s => if str_eqb s s_any || str_eqb s k_cap_any then s_any else s
            end in
          let flavor := match rest with _ :: f :: _ => f | _ => s_generic end in
          match rest with
          | [] => Ok (Some (mkRow product inversion None None flavor))
          | v1 :: _ =>
              match split_colon v1 with
              | None => Err Crash
              | Some (q, w0) =>
                  let outp := if truthy w0 then q else product in
                  let outv := if truthy w0 then w0 else Some q in
                  let outv' := match outv with
                               | Some w => if str_eqb w s_any || str_eqb w k_low_none || str_eqb w k_cap_none
                                           then None else Some w
                               | None => None
                               end in
                  Ok (Some (mkRow product inversion (Some outp) outv' flavor))
              end
          end
      end
  end.

(* does a line apply?  strict = the repaired test (a prefixed line applies when its mode is the mode
   asked for); not strict = the pinned test (it also applies when no mode is asked for) *)
Definition select_line (strict : bool) (mode : option str) (l : str) : option str :=
  match parse_mode_prefix l with
  | Some (g, rest) =>
      let same := match mode with Some m => str_eqb m g | None => false end in
      if strict then (if same then Some rest else None)
      else (if truthy mode && negb same then None else Some rest)
  | None => if truthy mode then None else Some l
  end.

Definition remap_line (strict : bool) (mode : option str) (line : str) : res (option row) :=
  match cut_comment (strip line) with
  | [] => Ok None
  | l1 =>
      match select_line strict mode l1 with
      | None => Ok None
      | Some l2 => if is_verbose_line l2 then Ok None else row_of_words (words l2)
      end
  end.

Definition add_row_ow (overwrite : bool) (m : mapping) (r : row) : mapping :=
  m_add m (r_inP r) (r_inV r) (r_outP r) (r_outV r) (r_fl r) overwrite.

Fixpoint read_remap_lines (strict overwrite : bool) (mode : option str) (ls : list str) (m : mapping)
  : res mapping :=
  match ls with
  | [] => Ok m
  | l :: ls' =>
      match remap_line strict mode l with
      | Err e => Err e
      | Ok None => read_remap_lines strict overwrite mode ls' m
      | Ok (Some r) => read_remap_lines strict overwrite mode ls' (add_row_ow overwrite m r)
      end
  end.

(* Manifest._readRemapFile(dirname, mapping, overwrite, mode) on the text of the file *)
Definition read_remap (overwrite : bool) (mode : option str) (text : str) (m : mapping) : res mapping :=
  read_remap_lines true overwrite mode (lines_of text) m.

(* the pinned tree: remapEntries passes its mode in the place of overwrite, so the reader sees no mode,
   applies every line, and lets later rows override earlier ones exactly when a mode was given *)
Definition read_remap_pinned (mode : option str) (text : str) (m : mapping) : res mapping :=
  read_remap_lines false (truthy mode) None (lines_of text) m.

Fixpoint read_remap_files (mode : option str) (texts : list str) (m : mapping) : res mapping :=
  match texts with
  | [] => Ok m
  | t :: ts => match read_remap true mode t m with
               | Ok m' => read_remap_files mode ts m'
               | Err e => Err e
               end
  end.

(* ------------------------------------------------------------------ Manifest.remapEntries *)

(* fl is the value of eups.flavor() *)
Definition remap_dep (fx : bool) (m : mapping) (fl : str) (d : dep) : list dep :=
  match m_apply m (d_product d) (d_version d) fl with
  | (_, None) => []
  | (q, Some w) =>
      if str_eqb q (d_product d) && str_eqb w (d_version d) then [d]
      else [new_dep fx q w None None None None false false []]
  end.

Definition remap (fx : bool) (m : mapping) (fl : str) (ds : list dep) : list dep :=
  flat_map (remap_dep fx m fl) ds.

(* the products declared on the way: an entry replaced by version dummy of a product of which no
   such version is known is declared (directory none, table none); known = the products that have
   a version dummy, a failed declaration is only printed *)
Fixpoint remap_declares (m : mapping) (fl : str) (known : list str) (ds : list dep) : list str :=
  match ds with
  | [] => []
  | d :: ds' =>
      match m_apply m (d_product d) (d_version d) fl with
      | (q, Some w) =>
          if negb (str_eqb q (d_product d) && str_eqb w (d_version d)) && str_eqb w k_dummy
             && negb (mem_str q known)
          then q :: remap_declares m fl (q :: known) ds'
          else remap_declares m fl known ds'
      | (_, None) => remap_declares m fl known ds'
      end
  end.

(* remapEntries(mapping, mode) with the texts of the manifest.remap files of hooks.customisationDirs:
   the rows of the files are merged under the rows passed in; the mapping is left in manifest.mapping *)
Definition remap_entries (fx : bool) (extra : mapping) (texts : list str) (mode : option str)
           (fl : str) (ds : list dep) : res (mapping * list dep) :=
  match read_remap_files mode texts empty_mapping with
  | Err e => Err e
  | Ok from_files =>
      let m := m_merge extra from_files false in
      Ok (m, remap fx m fl ds)
  end.

(* ------------------------------------------------------------------ the tree before the repairs *)

(* Mapping.add: a removal deletes the key and leaves the (possibly empty) dictionary of the product *)
Definition fm_add_pinned (fm : fmap) (inP inV outP : str) (outV : option str) (fl : str) : fmap :=
  let pm := oget fl fm in
  let vm := oget inP pm in
  match out_version outV with
  | Some w => aset fl (aset inP (aset inV (outP, Some w) vm) pm) fm
  | None => aset fl (aset inP (aremove inV vm) pm) fm
  end.

Definition add_row_pinned (m : mapping) (r : row) : mapping :=
  let outP' := match r_outP r with Some (c :: w) => c :: w | _ => r_inP r end in
  if is_noreinstall (r_outV r) then m
  else mkMapping (fm_add_pinned (mp_map m) (r_inP r) (r_inV r) outP' (r_outV r) (r_fl r)) (mp_nore m).

(* Mapping._apply: an empty dictionary removes every version *)
Definition m_apply1_pinned (m : mapping) (p v fl : str) : mval :=
  match alookup fl (mp_map m) with
  | None => (p, Some v)
  | Some pm =>
      match alookup p pm with
      | None => (p, Some v)
      | Some [] => (p, None)
      | Some vm =>
          match alookup v vm with
          | Some r => r
          | None => match alookup s_any vm with
                    | Some r => r
                    | None => (p, Some v)
                    end
          end
      end
  end.

Definition same_pv (r : mval) (p v : str) : bool :=
  match r with
  | (q, Some w) => str_eqb q p && str_eqb w v
  | (_, None) => false
  end.

(* Mapping.apply: the generic table is consulted whenever the flavor table returns the entry unchanged;
   old26 selects the pinned _apply as well *)
Definition m_apply_pinned (old26 : bool) (m : mapping) (p v fl : str) : mval :=
  let ap := if old26 then m_apply1_pinned else m_apply1 in
  let r := ap m p v fl in
  if negb (str_eqb fl s_generic) && same_pv r p v then ap m p v s_generic else r.

Definition remap_with (ap : mapping -> str -> str -> str -> mval) (m : mapping) (fl : str) (ds : list dep)
  : list dep :=
  flat_map (fun d => match ap m (d_product d) (d_version d) fl with
                     | (_, None) => []
                     | (q, Some w) =>
                         if str_eqb q (d_product d) && str_eqb w (d_version d) then [d]
                         else [new_dep true q w None None None None false false []]
                     end) ds.

(* Mapping.merge: the keys of the first level (flavors) are taken for products and those of the second
   (products) for versions: the unit that is kept or replaced is the whole dictionary of a product *)
Definition fm_merge_pinned (s o : fmap) (overwrite : bool) : fmap :=
  fold_left (fun s fe =>
    fold_left (fun s pe =>
      let s1 := if amem (fst fe) s then s else aset (fst fe) [] s in
      if negb overwrite && amem (fst pe) (oget (fst fe) s1) then s1
      else aset (fst fe) (aset (fst pe) (snd pe) (oget (fst fe) s1)) s1) (snd fe) s) o s.

Definition m_merge_pinned (m o : mapping) (overwrite : bool) : mapping :=
  mkMapping (fm_merge_pinned (mp_map m) (mp_map o) overwrite)
            (fm_merge_pinned (mp_nore m) (mp_nore o) overwrite).
