(* C18, sequences of operations on ONE object.

   Model/Manifest.v gives TaggedProductList.write and Manifest.write as functions from the list to
   the text of the file.  Here the object and the files it has written are a state, and the
   methods are steps on that state: addProduct / addDependency, write (with and without the flavor
   override, with and without noaction), read of a file into the same object, reverse.  A step
   that raises ends the session (the state after a half-done read is not modelled).

   python/eups/distrib/server.py: TaggedProductList.addProduct / write / read,
   Manifest.addDependency / write / read / reverse.  No proofs in this file. *)
From Eupsv Require Import Base.Base Model.Manifest.

(* the files of the scratch directory: name -> text *)
Definition fstore := amap str.

(* ------------------------------------------------------------------ TaggedProductList *)

Inductive tl_op :=
| TAdd (p v : str) (fl : option str) (info : list str)        (* addProduct(p, v, fl, info) *)
| TWrite (file : str) (fa : option str) (noaction : bool)     (* write(file, flavor=fa, noaction) *)
| TRead (file : str).                                         (* read(file), into this object *)

Record tsess := mkTs { ts_list : tlist; ts_files : fstore }.

(* write is a function of the list: the text goes to the file (unless noaction), the list stays *)
Definition tl_step (s : tsess) (o : tl_op) : res tsess :=
  match o with
  | TAdd p v fl info => Ok (mkTs (tl_add (ts_list s) p v fl info) (ts_files s))
  | TWrite f fa na =>
      Ok (mkTs (ts_list s) (if na then ts_files s else aset f (tl_write fa (ts_list s)) (ts_files s)))
  | TRead f =>
      match alookup f (ts_files s) with
      | None => Err NotFound                                   (* FileNotFoundError *)
      | Some text =>
          match tl_read (ts_list s) text with
          | Ok t => Ok (mkTs t (ts_files s))
          | Err e => Err e
          end
      end
  end.

Fixpoint tl_run (s : tsess) (ops : list tl_op) : res tsess :=
  match ops with
  | [] => Ok s
  | o :: ops' => match tl_step s o with Ok s' => tl_run s' ops' | Err e => Err e end
  end.

(* the states after every step, up to the first step that raises, and that error *)
Fixpoint tl_trace (s : tsess) (ops : list tl_op) : list tsess * option errkind :=
  match ops with
  | [] => ([], None)
  | o :: ops' =>
      match tl_step s o with
      | Ok s' => let (tr, e) := tl_trace s' ops' in (s' :: tr, e)
      | Err e => ([], Some e)
      end
  end.

Definition tl_is_write (o : tl_op) : bool :=
  match o with TWrite _ _ _ => true | _ => false end.

(* what the override does to one entry: the flavor column, nothing else *)
Definition restamp (g : str) (e : str * tlinfo) : str * tlinfo :=
  match e with (p, (_, v, ex)) => (p, (g, v, ex)) end.

(* ------------------------------------------------------------------ Manifest *)

Inductive m_op :=
| MAdd (d : dep)                                               (* addDependency(...) *)
| MWrite (file : str) (noopt : bool) (fa : option str) (noaction : bool)
| MRead (file : str) (setproduct recurse : bool)               (* read(file, setproduct, shouldRecurse) *)
| MReverse.

Record msess := mkMs { ms_man : manifest; ms_files : fstore }.

(* efl = eupsenv.flavor, who / time / ver the strings of the comment block *)
Definition m_step (efl who time ver : str) (s : msess) (o : m_op) : res msess :=
  match o with
  | MAdd d =>
      Ok (mkMs (mkManifest (mf_product (ms_man s)) (mf_version (ms_man s)) (mf_deps (ms_man s) ++ [d]))
               (ms_files s))
  | MWrite f noopt fa na =>
      Ok (mkMs (ms_man s)
               (if na then ms_files s
                else aset f (m_write true noopt fa efl who time ver (ms_man s)) (ms_files s)))
  | MRead f sp rc =>
      match alookup f (ms_files s) with
      | None => Err NotFound
      | Some text =>
          match m_read true sp rc (ms_man s) text with
          | Ok m => Ok (mkMs m (ms_files s))
          | Err e => Err e
          end
      end
  | MReverse =>
      Ok (mkMs (mkManifest (mf_product (ms_man s)) (mf_version (ms_man s)) (rev (mf_deps (ms_man s))))
               (ms_files s))
  end.

Fixpoint m_run (efl who time ver : str) (s : msess) (ops : list m_op) : res msess :=
  match ops with
  | [] => Ok s
  | o :: ops' =>
      match m_step efl who time ver s o with
      | Ok s' => m_run efl who time ver s' ops'
      | Err e => Err e
      end
  end.

Fixpoint m_trace (efl who time ver : str) (s : msess) (ops : list m_op) : list msess * option errkind :=
  match ops with
  | [] => ([], None)
  | o :: ops' =>
      match m_step efl who time ver s o with
      | Ok s' => let (tr, e) := m_trace efl who time ver s' ops' in (s' :: tr, e)
      | Err e => ([], Some e)
      end
  end.

Definition m_is_write (o : m_op) : bool :=
  match o with MWrite _ _ _ _ => true | _ => false end.
