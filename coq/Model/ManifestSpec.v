(* Specification-side definitions for C18: field alphabets (level A well-formedness), the
   None = none normalisation of a written manifest, and what a remap table -says- about an
   entry, read row by row and independently of the dictionaries Mapping builds.
   Executable definitions only (they are extracted too, so that the python oracle of the
   harness can be compared with them). *)
From Eupsv Require Import Base.Base Model.Manifest.

(* ------------------------------------------------------------------ alphabets *)

(* a field: non-empty, no white space (so no line terminator either) *)
Definition wf_word (s : str) : bool := nonempty s && forallb is_word_char s.

(* an optional field: absent, empty, or a word *)
Definition wf_oword (o : option str) : bool :=
  match o with
  | None => true
  | Some [] => true
  | Some s => wf_word s
  end.

Definition wf_oname (o : option str) : bool :=
  match o with None => true | Some s => wf_word s end.

(* a product name must not look like a comment *)
Definition wf_product (s : str) : bool :=
  wf_word s && match s with c :: _ => negb (ascii_eqb c c_hash) | [] => false end.

Definition wf_dep (d : dep) : bool :=
  wf_product (d_product d) && wf_word (d_version d) && wf_oword (d_flavor d) &&
  wf_oword (d_table d) && wf_oword (d_dir d) && wf_oword (d_distid d).

Definition wf_manifest (m : manifest) : bool :=
  wf_oname (mf_product m) && wf_oname (mf_version m) && forallb wf_dep (mf_deps m).

(* free text of the comment block: no line terminators *)
Definition no_nl (s : str) : bool :=
  forallb (fun c => negb (ascii_eqb c c_nl) && negb (ascii_eqb c c_cr)) s.

(* ------------------------------------------------------------------ normalisation *)

Definition norm_ostr (dflt : str) (o : option str) : option str :=
  if truthy o then o else Some dflt.

(* absent, empty, the text None and the keyword search all mean: no distribution id *)
Definition norm_id (o : option str) : option str :=
  match o with
  | Some (c :: s) =>
      if str_eqb (c :: s) (k_cap_none) || str_eqb (c :: s) (k_search) then None else o
  | _ => None
  end.

(* fa: the flavor argument of write; efl: the flavor of the writing eups *)
Definition norm_flavor (fa : option str) (efl : str) (o : option str) : option str :=
  if truthy fa then fa else if truthy o then o else Some efl.

Definition norm_dep (fa : option str) (efl : str) (d : dep) : dep :=
  mkDep (d_product d) (d_version d) (norm_flavor fa efl (d_flavor d))
        (norm_ostr (k_low_none) (d_table d)) (norm_ostr (k_low_none) (d_dir d))
        (norm_id (d_distid d)) false false [].

Definition written (noopt : bool) (ds : list dep) : list dep :=
  filter (fun d => negb (d_opt d && noopt)) ds.

Definition norm_manifest (noopt : bool) (fa : option str) (efl : str) (m : manifest) : manifest :=
  mkManifest
    (Some (match mf_product m with Some p => p | None => k_unknown_product end))
    (Some (match mf_version m with Some v => v | None => k_generic end))
    (map (norm_dep fa efl) (written noopt (mf_deps m))).

(* ------------------------------------------------------------------ tag lists *)

Definition wf_tlinfo (e : str * tlinfo) : bool :=
  match e with
  | (p, (f, v, ex)) => wf_product p && wf_word f && wf_word v && forallb wf_word ex
  end.

Definition wf_tag (s : str) : bool :=
  nonempty s && forallb (fun c => is_word c || ascii_eqb c "-"%char) s.

(* what a reader whose flavor is fl sees of an entry: its own flavor and the wild card *)
Definition visible (fl : str) (e : str * tlinfo) : bool :=
  match e with
  | (_, (f, _, _)) => str_eqb f fl || str_eqb f s_generic
  end.

Definition as_flavor (fl : str) (e : str * tlinfo) : str * tlinfo :=
  match e with (p, (_, v, ex)) => (p, (fl, v, ex)) end.

(* the entries in the order of their product names *)
Definition sorted_entries (m : amap tlinfo) : amap tlinfo :=
  flat_map (fun p => match alookup p m with Some i => [(p, i)] | None => [] end)
           (sort_str (akeys m)).

(* ------------------------------------------------------------------ remap tables, row by row *)

(* one line of a remap table = one call of Mapping.add with overwrite (Model/Manifest.v: row) *)
Definition add_row (m : mapping) (r : row) : mapping := add_row_ow true m r.

Definition m_of_rows (rows : list row) : mapping := fold_left add_row rows empty_mapping.

(* the tree before the repairs *)
Definition m_of_rows_pinned (rows : list row) : mapping := fold_left add_row_pinned rows empty_mapping.

Inductive verdict := Replace (q w : str) | Delete.

Definition verdict_of (r : row) : verdict :=
  match r_outV r with
  | Some (c :: w) => Replace (match r_outP r with Some (a :: b) => a :: b | _ => r_inP r end) (c :: w)
  | _ => Delete
  end.

(* rows whose out-version is noreinstall go to a separate dictionary and say nothing here *)
Definition in_group (f p : str) (r : row) : bool :=
  str_eqb (r_fl r) f && str_eqb (r_inP r) p && negb (is_noreinstall (r_outV r)).

Definition names (f p k : str) (r : row) : bool := in_group f p r && str_eqb (r_inV r) k.

(* later rows override earlier ones *)
Definition last_row (rows : list row) (f p k : str) : option row := find (names f p k) (rev rows).

(* what the rows of flavor f say about (p, v): the row for that version, else the row for any *)
Definition level_says (rows : list row) (f p v : str) : option verdict :=
  match last_row rows f p v with
  | Some r => Some (verdict_of r)
  | None => match last_row rows f p s_any with
            | Some r => Some (verdict_of r)
            | None => None
            end
  end.

(* rows of the running flavor fl go before generic rows; None = the table does not name the entry *)
Definition says (rows : list row) (fl p v : str) : option verdict :=
  match level_says rows fl p v with
  | Some x => Some x
  | None => if str_eqb fl s_generic then None else level_says rows s_generic p v
  end.

Definition replaced (q w : str) : dep := mkDep q w None None None None false false [].

Definition spec_remap_dep (rows : list row) (fl : str) (d : dep) : list dep :=
  match says rows fl (d_product d) (d_version d) with
  | None => [d]
  | Some Delete => []
  | Some (Replace q w) =>
      if str_eqb q (d_product d) && str_eqb w (d_version d) then [d] else [replaced q w]
  end.

Definition spec_remap (rows : list row) (fl : str) (ds : list dep) : list dep :=
  flat_map (spec_remap_dep rows fl) ds.

(* the rows of a Mapping, as lines of a remap table *)
Definition row_of_mrow (r : mrow) : row :=
  match r with (f, p, v, q, w) => mkRow p v (Some q) w f end.

Definition rows_of (m : mapping) : list row := map row_of_mrow (m_rows m).

(* two tables that answer every lookup alike (what python calls equal dictionaries, empty inner
   dictionaries apart) *)
Definition fm_get (fm : fmap) (f p k : str) : option mval :=
  match alookup f fm with
  | None => None
  | Some pm => match alookup p pm with None => None | Some vm => alookup k vm end
  end.

(* ------------------------------------------------------------------ remap files *)

Definition no_char (c : ascii) (s : str) : bool := negb (mem_ascii c s).

(* a field of a remap line: a word free of hash signs *)
Definition wf_field (s : str) : bool := wf_word s && no_char c_hash s.

(* an in-product: a field free of colons and equals signs that does not open a bracket *)
Definition wf_inproduct (s : str) : bool :=
  wf_field s && no_char c_colon s && no_char c_eq s &&
  match s with c :: _ => negb (ascii_eqb c c_lbr) | [] => false end.

(* a row as Mapping.__str__ prints it and the reader reads it back:
   the in-version is not the capitalised Any (read as any); a replacement names an out-product free
   of colons and an out-version that is none of the words the reader takes for -remove- and not the
   noreinstall keyword; a removal row carries the in-product *)
Definition wf_mrow (r : mrow) : bool :=
  match r with
  | (f, p, v, q, w) =>
      wf_field f && wf_inproduct p && wf_field v && negb (str_eqb v k_cap_any) &&
      match w with
      | None => str_eqb q p
      | Some w' =>
          wf_field q && no_char c_colon q && wf_field w' &&
          negb (str_eqb w' s_any) && negb (str_eqb w' k_low_none) && negb (str_eqb w' k_cap_none) &&
          negb (is_noreinstall (Some w'))
      end
  end.

Definition wf_table (m : mapping) : bool := forallb wf_mrow (m_rows m).

(* the rows a remap file names for a mode, in the order of the file *)
Fixpoint file_rows (strict : bool) (mode : option str) (ls : list str) : res (list row) :=
  match ls with
  | [] => Ok []
  | l :: ls' =>
      match remap_line strict mode l with
      | Err e => Err e
      | Ok None => file_rows strict mode ls'
      | Ok (Some r) => match file_rows strict mode ls' with
                       | Ok rs => Ok (r :: rs)
                       | Err e => Err e
                       end
      end
  end.

Definition remap_rows (mode : option str) (text : str) : res (list row) :=
  file_rows true mode (lines_of text).

(* the rows of the files of hooks.customisationDirs, one after the other *)
Fixpoint files_rows (mode : option str) (texts : list str) : res (list row) :=
  match texts with
  | [] => Ok []
  | t :: ts => match remap_rows mode t, files_rows mode ts with
               | Ok a, Ok b => Ok (a ++ b)
               | Err e, _ => Err e
               | _, Err e => Err e
               end
  end.

(* ------------------------------------------------------------------ inverse *)

(* rows of a mapping that inverse can turn around: removal rows are skipped; a replacement row has
   no wild card on either side and nothing that add would treat as a keyword or as absent *)
Definition invertible_row (r : mrow) : bool :=
  match r with
  | (f, p, v, q, None) => true
  | (f, p, v, q, Some w) =>
      nonempty p && nonempty v && negb (str_eqb v s_any) && negb (str_eqb w s_any) &&
      negb (is_noreinstall (Some v))
  end.

Definition in_dom (m : mapping) (fl p v : str) : bool :=
  m_exists1 m p v fl || m_exists1 m p v s_generic.

(* the (product, version) pairs that the rows of the running flavor or the generic rows name *)
Definition dom_list (m : mapping) (fl : str) : list (str * str) :=
  flat_map (fun r => match r with (f, p, v, _, _) =>
                       if str_eqb f fl || str_eqb f s_generic then [(p, v)] else [] end) (m_rows m).

Definition pv_eqb (a b : str * str) : bool := str_eqb (fst a) (fst b) && str_eqb (snd a) (snd b).

Definition res_eqb (a b : mval) : bool :=
  str_eqb (fst a) (fst b) &&
  match snd a, snd b with
  | Some x, Some y => str_eqb x y
  | None, None => true
  | _, _ => false
  end.

(* as seen from the running flavor, no two named entries that are kept are sent to the same target *)
Definition one_to_one (m : mapping) (fl : str) : bool :=
  forallb (fun x1 => forallb (fun x2 =>
    match m_apply m (fst x1) (snd x1) fl with
    | (_, None) => true
    | r1 => implb (res_eqb r1 (m_apply m (fst x2) (snd x2) fl)) (pv_eqb x1 x2)
    end) (dom_list m fl)) (dom_list m fl).

(* the key (flavor, out-product, out-version) under which inverse files a row *)
Definition row_target (r : mrow) : str * str * option str := match r with (f, _, _, q, w) => (f, q, w) end.

Definition live_row (r : mrow) : bool := match r with (_, _, _, _, Some _) => true | _ => false end.
