(* Model of table.py Action.execute_envPrepend / execute_envSet / execute_envUnset /
   expandEnvironmentalVariable / pathUnique and Eups.setEnv / unsetEnv  (C12).
   Executable definitions only. *)
From Eupsv Require Import Base.Base.

Definition env := amap str.

Definition c_dollar : ascii := "$"%char.
Definition c_quest  : ascii := "?"%char.
Definition c_lbrace : ascii := "{"%char.
Definition c_rbrace : ascii := "}"%char.
Definition c_minus  : ascii := "-"%char.

(* longest prefix whose characters satisfy p, and the rest *)
Fixpoint span (p : ascii -> bool) (x : str) : str * str :=
  match x with
  | [] => ([], [])
  | c :: r => if p c then let (a, b) := span p r in (c :: a, b) else ([], x)
  end.

(* re.sub of ^delim by the empty string, together with re.search of the same pattern *)
Definition strip_lead (d : ascii) (v : str) : bool * str :=
  match v with
  | c :: r => if ascii_eqb c d then (true, r) else (false, v)
  | [] => (false, [])
  end.

(* re.sub of delim$ by the empty string; values are assumed newline-free (in python
   the dollar anchor also matches before a trailing newline) *)
Definition strip_trail (d : ascii) (v : str) : bool * str :=
  match rev v with
  | c :: r => if ascii_eqb c d then (true, rev r) else (false, v)
  | [] => (false, [])
  end.

(* varRE of expandEnvironmentalVariable -- dollar, optional question mark, open brace,
   key (no minus, no close brace), optional minus + non-empty default, close brace --
   anchored at the head of x: (optional?, key, default, text after the match) *)
Definition match_var_at (x : str) : option (bool * str * option str * str) :=
  match x with
  | c :: r =>
      if negb (ascii_eqb c c_dollar) then None else
      let '(opt, r1) := match r with
                        | q :: r' => if ascii_eqb q c_quest then (true, r') else (false, r)
                        | [] => (false, r)
                        end in
      match r1 with
      | b :: r2 =>
          if negb (ascii_eqb b c_lbrace) then None else
          let '(key, r3) := span (fun c => negb (ascii_eqb c c_minus || ascii_eqb c c_rbrace)) r2 in
          match r3 with
          | e :: rest =>
              if ascii_eqb e c_rbrace then Some (opt, key, None, rest)
              else (* e is '-' *)
                let '(dflt, r5) := span (fun c => negb (ascii_eqb c c_rbrace)) rest in
                match dflt, r5 with
                | _ :: _, _ :: rest' => Some (opt, key, Some dflt, rest')
                | _, _ => None
                end
          | [] => None
          end
      | [] => None
      end
  | [] => None
  end.

(* re.search(varRE, value).groups() *)
Fixpoint find_var (x : str) : option (bool * str * option str) :=
  match match_var_at x with
  | Some (opt, key, dflt, _) => Some (opt, key, dflt)
  | None => match x with
            | [] => None
            | _ :: r => find_var r
            end
  end.

Definition seq_text (hd : str) (r : res (option str)) : res (option str) :=
  match r with
  | Ok (Some t) => Ok (Some (hd ++ t))
  | other => other
  end.

(* Action.expandEnvironmentalVariable = re.sub(varRE, expand, value): every reference is
   replaced by the value of its own variable, else by its default; the first reference
   (left to right) with neither makes the whole line skipped (Ok None) when it is marked
   optional and is an error otherwise.  [skip] characters of an already replaced match
   are dropped first, which keeps the recursion structural. *)
Fixpoint expand_aux (e : amap str) (skip : nat) (x : str) : res (option str) :=
  match x with
  | [] => Ok (Some [])
  | c :: r =>
      match skip with
      | S k => expand_aux e k r
      | O =>
          match match_var_at x with
          | Some (opt, key, dflt, rest) =>
              match (match alookup key e with Some v => Some v | None => dflt end) with
              | Some v => seq_text v (expand_aux e (length x - length rest - 1) r)
              | None => if opt then Ok None else Err Undefined
              end
          | None => seq_text [c] (expand_aux e 0 r)
          end
      end
  end.
Definition expand_var (e : amap str) (value : str) : res (option str) := expand_aux e 0 value.

(* dollar, open brace, key without close brace, close brace, anchored at the head of x:
   (key, text after the match) *)
Definition match_interp_at (x : str) : option (str * str) :=
  match x with
  | c :: b :: r2 =>
      if ascii_eqb c c_dollar && ascii_eqb b c_lbrace then
        let '(key, r3) := span (fun c => negb (ascii_eqb c c_rbrace)) r2 in
        match r3 with
        | _ :: rest => Some (key, rest)
        | [] => None
        end
      else None
  | _ => None
  end.

(* Eups.setEnv(..., interpolateEnv=True): ${NAME} replaced by its value if known *)
Fixpoint interp_aux (e : env) (skip : nat) (x : str) : str :=
  match x with
  | [] => []
  | c :: r =>
      match skip with
      | S k => interp_aux e k r
      | O =>
          match match_interp_at x with
          | Some (key, rest) =>
              match alookup key e with
              | Some v => v ++ interp_aux e (length x - length rest - 1) r
              | None => c :: interp_aux e 0 r
              end
          | None => c :: interp_aux e 0 r
          end
      end
  end.
Definition interp (e : env) (x : str) : str := interp_aux e 0 x.

(* the elements of a path-like value *)
Definition elems (d : ascii) (x : str) : list str := filter nonempty (split_on d x).

(* one element of the value: setup mode puts it first or last, an element that is already there being moved
   rather than kept where it was (the code after the fix of D8; path_step_pinned is the pinned code, where
   envAppend of a present element left it at its old position) *)
Definition path_step (append fwd : bool) (np : list str) (x : str) : list str :=
  if fwd then (if append then remove_str x np ++ [x] else x :: remove_str x np) else remove_str x np.
Definition path_step_pinned (append fwd : bool) (np : list str) (x : str) : list str :=
  if fwd then (if append then np ++ [x] else x :: np) else remove_str x np.

(* the new text of the variable, before interpolation *)
Definition new_path_text (append fwd : bool) (d : ascii) (pre app : bool) (v3 : str)
                         (old : list str) : str :=
  let np := uniq (fold_left (path_step append fwd) (split_on d v3) old) in
  let s0 := join d np in
  let s1 := if pre && negb (starts_with [d] s0) then d :: s0 else s0 in
  if app && negb (ends_with [d] s1) then s1 ++ [d] else s1.

(* Action.execute_envPrepend; Ok None = the action was skipped *)
Definition env_prepend (append fwd : bool) (var value : str) (d : ascii) (e : env)
  : res (option env) :=
  let opath := match alookup var e with Some v => v | None => [] end in
  let '(pre, v1) := strip_lead d value in
  let '(app, v2) := strip_trail d v1 in
  let old := elems d opath in
  bind (if fwd then expand_var e v2
        else match expand_var e v2 with
             | Ok (Some x) => Ok (Some x)      (* unsetup removes the expanded value ... *)
             | _ => Ok (Some v2)               (* ... or the literal one if it cannot be expanded *)
             end) (fun ov =>
    match ov with
    | None => Ok None
    | Some v3 =>
        Ok (Some (aset var (interp e (new_path_text append fwd d pre app v3 old)) e))
    end).

(* Action.execute_envSet *)
Definition env_set (fwd : bool) (key value : str) (e : env) : res (option env) :=
  if fwd then
    bind (expand_var e value) (fun ov =>
      match ov with
      | None => Ok None
      | Some [] => Ok None
      | Some v => Ok (Some (aset key (interp e v) e))
      end)
  else Ok (Some (aremove key e)).

(* Action.execute_envUnset *)
Definition env_unset (fwd : bool) (key : str) (e : env) : res (option env) :=
  if fwd then Ok (Some (aremove key e)) else Ok None.

(* the path-variable actions of a table, and their sequential execution *)
Inductive pact :=
| PPrepend (append : bool) (var value : str) (d : ascii)
| PSet (key value : str)
| PUnset (key : str).

Definition exec_pact (fwd : bool) (a : pact) (e : env) : res env :=
  let r := match a with
           | PPrepend ap var v d => env_prepend ap fwd var v d e
           | PSet k v => env_set fwd k v e
           | PUnset k => env_unset fwd k e
           end in
  match r with
  | Ok (Some e') => Ok e'
  | Ok None => Ok e
  | Err x => Err x
  end.

Fixpoint exec_pacts (fwd : bool) (l : list pact) (e : env) : res env :=
  match l with
  | [] => Ok e
  | a :: l' => bind (exec_pact fwd a e) (exec_pacts fwd l')
  end.
