(* Scripts over a fixed table of path actions (C12, the clause on all sequences of actions).
   A table that stays loaded keeps its Action objects; the same object is executed many times,
   forwards and in unsetup mode, while the environment (the list variable itself and the variables
   the value refers to) changes in between.  In the model an action is a value and its execution a
   function of the action, the mode and the current environment only; a script names the actions
   by their index in the table so that the same one can be executed repeatedly.
   Executable definitions only. *)
From Eupsv Require Import Base.Base Model.PathAlg.

Inductive sstep :=
| SExec (i : nat) (fwd : bool)      (* execute action number i of the table *)
| SPut (k v : str)                  (* the environment changes: k is set to v *)
| SDel (k : str).                   (* the environment changes: k is unset *)

Definition exec_sstep (acts : list pact) (s : sstep) (e : env) : res env :=
  match s with
  | SExec i fwd => match nth_error acts i with
                   | Some a => exec_pact fwd a e
                   | None => Ok e
                   end
  | SPut k v => Ok (aset k v e)
  | SDel k => Ok (aremove k e)
  end.

(* the environment after a step; a step that raises leaves the environment as it was
   (expansion fails before anything is written) *)
Definition env_after (acts : list pact) (s : sstep) (e : env) : env :=
  match exec_sstep acts s e with
  | Ok e' => e'
  | Err _ => e
  end.

(* the outcome of every step, in order; execution goes on after a step that raised *)
Fixpoint run_script (acts : list pact) (steps : list sstep) (e : env) : list (res env) :=
  match steps with
  | [] => []
  | s :: r => exec_sstep acts s e :: run_script acts r (env_after acts s e)
  end.

(* the environment after the whole script *)
Fixpoint script_env (acts : list pact) (steps : list sstep) (e : env) : env :=
  match steps with
  | [] => e
  | s :: r => script_env acts r (env_after acts s e)
  end.
