(* Model of the path handling behind database records (C16):
     eups/Product.py   Product.__init__ (dir / default table part), stackRoot, resolvePaths,
                       _resolve, canonicalizePaths
     eups/utils.py     isRealFilename, isSubpath (realpath of both sides, then a prefix test)
     os.path           isabs, join, dirname, basename, realpath, str.rstrip of the slash
     eups/db/VersionFile.py  the trimDir loop of VersionFile.write  (trim_info)
   File existence is an explicit argument  ex : str -> bool  everywhere.
   Symbolic links and the current directory are explicit data too: [penv] holds a finite
   table from the name of a link to the name it resolves to, and the working directory.
   Python None is the Coq None of [val]; every path is a [str].
   Executable definitions only.

   Two functions take a flag [fixed]: with [true] they follow the repaired code (proposed
   fixes C16-canon-db-prefix, C16-write-none-value and C16-write-relative-values), with
   [false] the pinned code.  The
   un-flagged names used by everything else are the repaired ones. *)
From Eupsv Require Import Base.Base.

Definition val := option str.

Definition c_slash  : ascii := "/"%char.
Definition c_dollar : ascii := "$"%char.

(* python truthiness of a str-or-None *)
Definition truthy (v : val) : bool := match v with Some (_ :: _) => true | _ => false end.

Definition s_none : str := lit "none".

(* utils.isRealFilename *)
Definition is_real (v : val) : bool :=
  match v with
  | None => false
  | Some s => negb (str_eqb s s_none || str_eqb s (lit "???") || str_eqb s (lit "(none)"))
  end.

(* x in (None, the string none) *)
Definition none_like (v : val) : bool :=
  match v with None => true | Some s => str_eqb s s_none end.

(* ---------------------------------------------------------------- os.path *)

Definition isabs (s : str) : bool :=
  match s with c :: _ => ascii_eqb c c_slash | [] => false end.

Definition ends_slash (s : str) : bool :=
  match last_opt s with Some c => ascii_eqb c c_slash | None => false end.

(* os.path.join of two components *)
Definition path_join (a b : str) : str :=
  if isabs b then b
  else match a with
       | [] => b
       | _ => if ends_slash a then a ++ b else a ++ c_slash :: b
       end.

(* s.rstrip of the slash *)
Fixpoint rstrip_slash (s : str) : str :=
  match s with
  | [] => []
  | c :: r => match rstrip_slash r with
              | [] => if ascii_eqb c c_slash then [] else [c]
              | r' => c :: r'
              end
  end.

(* the text before and after the last slash *)
Fixpoint split_last_slash (s : str) : option (str * str) :=
  match s with
  | [] => None
  | c :: r => match split_last_slash r with
              | Some (h, t) => Some (c :: h, t)
              | None => if ascii_eqb c c_slash then Some ([], r) else None
              end
  end.

Definition all_slash (s : str) : bool := forallb (fun c => ascii_eqb c c_slash) s.

(* posixpath.dirname: the head up to and including the last slash, trailing slashes
   removed unless the head consists of slashes only *)
Definition dirname (s : str) : str :=
  match split_last_slash s with
  | None => []
  | Some (h, _) => if all_slash h then h ++ [c_slash] else rstrip_slash h
  end.

Definition basename (s : str) : str :=
  match split_last_slash s with
  | None => s
  | Some (_, t) => t
  end.

(* utils.isSubpath for two normalised absolute paths (realpath is the identity on them) *)
Definition subpath_abs (p root : str) : bool :=
  str_eqb p root || starts_with (path_join root []) p.

(* utils.isSubpath of two paths that are both relative or both absolute and hold no
   symbolic link (the second test of the trimDir loop, on the trimmed table file and the
   product's ups directory): a relative and an absolute path are never related *)
Definition subpath (p root : str) : bool :=
  if Bool.eqb (isabs p) (isabs root) then subpath_abs p root else false.

(* ---------------------------------------------------------------- symbolic links, current directory *)

(* A link table: (name of the link, name it stands for).  A link is named by its own
   resolved location (no link among the components before its last one), so at most one
   entry applies to a path. *)
Definition links := list (str * str).

(* one link followed: the first entry that is the path itself or a directory above it *)
Fixpoint resolve1 (lk : links) (s : str) : option str :=
  match lk with
  | [] => None
  | (l, t) :: lk' =>
      if str_eqb s l || starts_with (l ++ [c_slash]) s then Some (t ++ skipn (length l) s)
      else resolve1 lk' s
  end.

Fixpoint realpath_f (fuel : nat) (lk : links) (s : str) : str :=
  match fuel with
  | O => s
  | S n => match resolve1 lk s with Some s' => realpath_f n lk s' | None => s end
  end.

(* os.path.realpath of a normalised absolute path: links are followed until none applies,
   forty at most (the bound of the operating system) *)
Definition link_fuel : nat := 40.
Definition realpath (lk : links) (s : str) : str := realpath_f link_fuel lk s.

Record penv := { pe_links : links; pe_cwd : str }.

(* no links; the current directory is the file-system root *)
Definition env0 : penv := {| pe_links := []; pe_cwd := [c_slash] |}.

(* os.path.abspath of a normalised path *)
Definition abs_from (cwd s : str) : str := if isabs s then s else path_join cwd s.

(* existence of a path given existence of resolved names: what the harness feeds the model
   is the listing of the real tree *)
Definition ex_via (lk : links) (ex0 : str -> bool) (s : str) : bool := ex0 (realpath lk s).

(* ---------------------------------------------------------------- macros *)

Inductive macro := M_FLAVOR | M_PROD_ROOT | M_UPS_DB | M_PROD_DIR | M_UPS_DIR.

Definition macro_eqb (a b : macro) : bool :=
  match a, b with
  | M_FLAVOR, M_FLAVOR | M_PROD_ROOT, M_PROD_ROOT | M_UPS_DB, M_UPS_DB
  | M_PROD_DIR, M_PROD_DIR | M_UPS_DIR, M_UPS_DIR => true
  | _, _ => false
  end.

Definition macro_text (m : macro) : str :=
  match m with
  | M_FLAVOR => lit "$FLAVOR"
  | M_PROD_ROOT => lit "$PROD_ROOT"
  | M_UPS_DB => lit "$UPS_DB"
  | M_PROD_DIR => lit "$PROD_DIR"
  | M_UPS_DIR => lit "$UPS_DIR"
  end.

(* the regex word boundary after a macro name: end of text or a non-word character *)
Definition boundary (rest : str) : bool :=
  match rest with [] => true | c :: _ => negb (is_word c) end.

Definition macro_at (m : str) (x : str) : bool :=
  starts_with m x && boundary (skipn (length m) x).

(* re.sub of an anchored macro pattern: at most one replacement, at the start *)
Definition sub_prefix (m repl x : str) : str :=
  if macro_at m x then repl ++ skipn (length m) x else x.

(* re.sub of the un-anchored FLAVOR pattern: every non-overlapping occurrence, left to
   right; [skip] counts characters of a matched occurrence still to be dropped *)
Fixpoint sub_all (m repl : str) (skip : nat) (x : str) : str :=
  match x with
  | [] => []
  | c :: r =>
      match skip with
      | S k => sub_all m repl k r
      | O => if macro_at m x then repl ++ sub_all m repl (length m - 1) r
             else c :: sub_all m repl 0 r
      end
  end.

Definition apply_macro (m : macro) (repl x : str) : str :=
  match m with
  | M_FLAVOR => sub_all (macro_text m) repl 0 x
  | _ => sub_prefix (macro_text m) repl x
  end.

(* the macrodata dictionary, in insertion order *)
Definition mdata := list (macro * val).

Fixpoint md_set (m : macro) (v : val) (d : mdata) : mdata :=
  match d with
  | [] => [(m, v)]
  | (m', v') :: d' => if macro_eqb m m' then (m, v) :: d' else (m', v') :: md_set m v d'
  end.

(* Product._resolve *)
Definition resolve_val (d : mdata) (skip : option macro) (x : str) : str :=
  match x with
  | [] => []
  | _ =>
    fold_left (fun v (e : macro * val) =>
                 let (m, data) := e in
                 if (match skip with Some s => macro_eqb s m | None => false end) then v
                 else match data with
                      | Some (c :: r) => apply_macro m (c :: r) v
                      | _ => v
                      end) d x
  end.

(* ---------------------------------------------------------------- Product *)

Record product := {
  p_name : str;        (* the empty string stands for a missing name *)
  p_version : str;
  p_flavor : str;
  p_dir : val;
  p_table : val;
  p_db : val;
  p_ups : val
}.

Definition s_ups : str := lit "ups".
Definition s_ups_db : str := lit "ups_db".
Definition s_table_ext : str := lit ".table".
Definition s_UPS_DB : str := lit "$UPS_DB".

(* Product.__init__ as far as paths go: a falsy dir becomes None (versions with the
   LOCAL: prefix are not modelled); a missing table is looked for in dir/ups/name.table *)
Definition mk_product (ex : str -> bool) (name version flavor : str) (dir table db ups : val)
  : product :=
  let dir' := if truthy dir then dir else None in
  let table' :=
    if negb (truthy table) && truthy dir' && nonempty name then
      match dir' with
      | Some d =>
          let tf := path_join (path_join d s_ups) (name ++ s_table_ext) in
          if ex tf then Some tf else table
      | None => table
      end
    else table in
  {| p_name := name; p_version := version; p_flavor := flavor; p_dir := dir';
     p_table := table'; p_db := db; p_ups := ups |}.

(* Product.clone *)
Definition clone (ex : str -> bool) (p : product) : product :=
  mk_product ex (p_name p) (p_version p) (p_flavor p) (p_dir p) (p_table p) (p_db p) (p_ups p).

(* Product.stackRoot *)
Definition stack_root (p : product) : val :=
  match p_db p with
  | None => None
  | Some db => if str_eqb (basename db) s_ups_db then Some (dirname db) else Some db
  end.

Definition starts_macro (s : str) : bool :=
  starts_with (lit "$PROD_") s || starts_with (lit "$UPS_") s.

Definition has_dollar (s : str) : bool := mem_ascii c_dollar s.

(* Product.resolvePaths (strict=False), in the order of the code: product dir, ups dir,
   table file, then the one-last-try pass over dir and table *)

Definition res_dir (root : val) (md0 : mdata) (dir : val) : val * mdata :=
  match dir with
  | Some d =>
      if is_real (Some d) && negb (isabs d) then
        let d1 := if negb (starts_macro d) && negb (none_like root)
                  then match root with Some r => path_join r d | None => d end
                  else d in
        let d2 := resolve_val md0 None d1 in
        (Some d2, md_set M_PROD_DIR (Some d2) md0)
      else (Some d, md0)
  | None => (None, md0)
  end.

Definition res_ups (dir1 : val) (md1 : mdata) (ups : val) : val * mdata :=
  match ups with
  | Some u =>
      if is_real (Some u) && negb (isabs u) then
        let u1 := if negb (starts_macro u) && negb (none_like dir1)
                  then match dir1 with Some d => path_join d u | None => u end
                  else u in
        let u2 := resolve_val md1 None u1 in
        (Some u2, md_set M_UPS_DIR (Some u2) md1)
      else (Some u, md1)
  | None => (None, md1)
  end.

(* the default table name *)
Definition res_table0 (name : str) (dir1 ups1 table : val) : val :=
  match table with
  | None => if nonempty name && (is_real dir1 || is_real ups1)
            then Some (name ++ s_table_ext) else None
  | t => t
  end.

(* the table file and the (possibly defaulted) ups dir *)
Definition res_table (ex : str -> bool) (root dir1 ups1 : val) (md2 : mdata) (table0 : val)
  : val * val :=
  match table0 with
  | Some t =>
      if is_real (Some t) && negb (isabs t) then
        let '(t1, u1) :=
          if negb (starts_macro t) then
            let u1 := match ups1, dir1 with
                      | None, Some d => if is_real dir1 then Some (path_join d s_ups) else ups1
                      | _, _ => ups1
                      end in
            match u1 with
            | Some u =>
                if is_real u1 then
                  let ntable := path_join u t in
                  if ex ntable then (ntable, u1)
                  else match root with
                       | Some (c :: r) =>
                           let n2table := path_join (c :: r) t in
                           if ex n2table then (n2table, u1) else (ntable, u1)
                       | _ => (ntable, u1)
                       end
                else
                  (* ups dir is a placeholder, not None: relative to the product dir *)
                  match dir1 with
                  | Some d => if is_real dir1 then (path_join d t, u1) else (t, u1)
                  | None => (t, u1)
                  end
            | None =>
                (* only reachable when the product dir is not real: nothing to join *)
                (t, u1)
            end
          else (t, ups1) in
        (Some (resolve_val md2 None t1), u1)
      else (Some t, ups1)
  | None => (None, ups1)
  end.

Definition res_last_dir (md2 : mdata) (dir1 : val) : val * mdata :=
  match dir1 with
  | Some d => if is_real dir1 && has_dollar d then
                let d' := resolve_val md2 (Some M_PROD_DIR) d in
                (Some d', md_set M_PROD_DIR (Some d') md2)
              else (dir1, md2)
  | None => (dir1, md2)
  end.

Definition res_last_table (md3 : mdata) (table1 : val) : val :=
  match table1 with
  | Some t => if is_real table1 && has_dollar t then Some (resolve_val md3 None t) else table1
  | None => table1
  end.

Definition md_init (p : product) (root : val) : mdata :=
  [(M_FLAVOR, Some (p_flavor p)); (M_PROD_ROOT, root); (M_UPS_DB, p_db p)].

Definition resolve_paths (ex : str -> bool) (p : product) : product :=
  let root := stack_root p in
  let d1 := res_dir root (md_init p root) (p_dir p) in
  let u1 := res_ups (fst d1) (snd d1) (p_ups p) in
  let t0 := res_table0 (p_name p) (fst d1) (fst u1) (p_table p) in
  let t1 := res_table ex root (fst d1) (fst u1) (snd u1) t0 in
  let d2 := res_last_dir (snd u1) (fst d1) in
  let t2 := res_last_table (snd d2) (fst t1) in
  {| p_name := p_name p; p_version := p_version p; p_flavor := p_flavor p;
     p_dir := fst d2; p_table := t2; p_db := p_db p; p_ups := snd t1 |}.

(* text after the first n+1 characters: python x[n+1:] *)
Definition after (n : nat) (x : str) : str := skipn (S n) x.

(* Product.canonicalizePaths.  [fixed = false] is the pinned code: the interned-table test
   is startswith(db) without a separator, and its else branch slices ups_dir instead of the
   table file. *)

(* the block for a missing table file: default table name and ups dir *)
Definition canon_defaults (p : product) : val * val :=
  match p_table p with
  | None =>
      (if nonempty (p_name p) then Some (p_name p ++ s_table_ext) else None,
       match p_ups p, p_dir p with
       | None, Some d => if is_real (p_dir p) then Some (path_join d s_ups) else None
       | u, _ => u
       end)
  | t => (t, p_ups p)
  end.

Definition strip_dir (dir : val) (t : str) : val :=
  match dir with
  | Some d => if is_real dir && starts_with (d ++ [c_slash]) t
              then Some (after (length d) t) else Some t
  | None => Some t
  end.

(* the elif chain: relative to the ups dir if that is real, else to the product dir *)
Definition strip_rel (dir ups0 : val) (t : str) : val :=
  match ups0 with
  | Some u =>
      if is_real ups0 then
        (if starts_with (u ++ [c_slash]) t then Some (after (length u) t) else Some t)
      else strip_dir dir t
  | None => strip_dir dir t
  end.

Definition canon_table (fixed : bool) (dir db table0 ups0 : val) : val * val :=
  match table0 with
  | Some t =>
      if is_real table0 && isabs t then
        match db with
        | Some dbs =>
            if is_real db && starts_with (if fixed then dbs ++ [c_slash] else dbs) t then
              match ups0 with
              | None => (Some (basename t),
                         Some (path_join s_UPS_DB (after (length dbs) (dirname t))))
              | Some u => (Some (path_join s_UPS_DB
                                   (after (length dbs) (if fixed then t else u))), ups0)
              end
            else (strip_rel dir ups0 t, ups0)
        | None => (strip_rel dir ups0 t, ups0)
        end
      else (table0, ups0)
  | None => (table0, ups0)
  end.

Definition canon_ups (dir db ups1 : val) : val :=
  match ups1 with
  | Some u =>
      if is_real ups1 && isabs u then
        let dirS := match dir with Some d => d | None => [] end in
        let dbS := match db with Some d => d | None => [] end in
        if is_real dir && starts_with (dirS ++ [c_slash]) u then Some (after (length dirS) u)
        else if is_real dir && str_eqb u dirS then Some s_none
        else if is_real db && starts_with (dbS ++ [c_slash]) u
             then Some (path_join s_UPS_DB (after (length dbS) u))
        else if is_real db && str_eqb u dbS then Some s_UPS_DB
        else ups1
      else ups1
  | None => ups1
  end.

Definition canon_dir (rootS : str) (dir : val) : val :=
  match dir with
  | Some d => if is_real dir && starts_with (rootS ++ [c_slash]) d
              then Some (skipn (length rootS + 1) d) else dir
  | None => None
  end.

Definition canon_gen (fixed : bool) (p : product) : product :=
  let root := stack_root p in
  if negb (is_real root) then p else
  let rootS := match root with Some r => r | None => [] end in
  let d0 := canon_defaults p in
  let t1 := canon_table fixed (p_dir p) (p_db p) (fst d0) (snd d0) in
  {| p_name := p_name p; p_version := p_version p; p_flavor := p_flavor p;
     p_dir := canon_dir rootS (p_dir p); p_table := fst t1; p_db := p_db p;
     p_ups := canon_ups (p_dir p) (p_db p) (snd t1) |}.

Definition canonicalize_paths : product -> product := canon_gen true.

(* ---------------------------------------------------------------- VersionFile.write, trimDir loop *)

Definition k_productDir : str := lit "productDir".
Definition k_ups_dir : str := lit "ups_dir".
Definition k_table_file : str := lit "table_file".

(* One pass of the loop body for key k.
   Repaired code ([fixed = true]): only an absolute value is looked up on disk; a relative
   one is left as it is.  Pinned code: a relative value was looked up from the current
   directory, and a None value made os.path.isfile raise TypeError.
   A value takes part when it exists (isfile or isdir) and its resolved name is the
   resolved trimDir or below it (isSubpath); the resolved name is then cut after the
   resolved trimDir.  Path components are assumed free of regular-expression
   metacharacters other than the dot, so re.sub of the directory prefix is prefix removal. *)
Definition trim_key (fixed : bool) (pe : penv) (ex : str -> bool) (td : val) (k : str) (info : amap val)
  : res (amap val) :=
  match alookup k info with
  | None => Ok info
  | Some None => if fixed then Ok info else Err Crash
  | Some (Some value) =>
      if fixed && negb (isabs value) then Ok info else
      let full := abs_from (pe_cwd pe) value in
      if negb (ex full) then Ok info else
      match td with
      | Some (c :: r) =>
          let t := realpath (pe_links pe) (abs_from (pe_cwd pe) (c :: r)) in
          let rv := realpath (pe_links pe) full in
          if subpath_abs rv t && negb (str_eqb t rv) then
            let v1 := after (length t) rv in
            let info1 := aset k (Some v1) info in
            if str_eqb (lower_str k) k_table_file then
              match alookup k_productDir info1 with
              | Some (Some (dc :: dr)) =>
                  let d := dc :: dr in
                  match alookup k_ups_dir info1 with
                  | Some None => Err Crash          (* os.path.join with None *)
                  | Some (Some u) =>
                      let dn := path_join d u in
                      if subpath v1 dn && starts_with (dn ++ [c_slash]) v1
                      then Ok (aset k (Some (after (length dn) v1)) info1) else Ok info1
                  | None =>
                      if subpath v1 d && starts_with (d ++ [c_slash]) v1
                      then Ok (aset k (Some (after (length d) v1)) info1) else Ok info1
                  end
              | _ => Ok info1
              end
            else Ok info1
          else Ok info
      | _ => Ok info
      end
  end.

Fixpoint trim_keys (fixed : bool) (pe : penv) (ex : str -> bool) (td : val) (keys : list str)
                   (info : amap val) : res (amap val) :=
  match keys with
  | [] => Ok info
  | k :: ks => bind (trim_key fixed pe ex td k info) (trim_keys fixed pe ex td ks)
  end.

Definition trim_info_gen (fixed : bool) (pe : penv) (ex : str -> bool) (td : val) (info : amap val)
  : res (amap val) :=
  trim_keys fixed pe ex td (akeys info) info.

Definition trim_info := trim_info_gen true.
