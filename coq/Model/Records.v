(* Model of the database record files (C16):
     eups/db/VersionFile.py   _read, write, addFlavor, makeProduct
     eups/db/ChainFile.py     _read, write, setVersion
     eups/db/Database.py      declare and findProduct as compositions of the above with
                              Product.canonicalizePaths / resolvePaths (Model/Paths.v)
   A file is a list of lines (no newline characters).  Level A: [vf_classify], [cf_classify]
   turn one line into a classified line, following the regular expressions of the readers
   on ASCII text.  Level B: [vf_step], [cf_step] interpret classified lines.
   Flavor names with qualifiers (a colon) are split on write as the code does; the claims
   in Props/C16.v are for flavors without a colon.
   Executable definitions only. *)
From Eupsv Require Import Base.Base Model.Paths.

Definition info := amap val.

Record vfile := { vf_name : val; vf_version : val; vf_info : amap info }.

(* the percent-s rendering of a str-or-None *)
Definition show_val (v : val) : str := match v with Some s => s | None => lit "None" end.
Definition val_str (v : val) : str := match v with Some s => s | None => [] end.

Definition c_hash : ascii := "#"%char.
Definition c_colon : ascii := ":"%char.
Definition c_equal : ascii := "="%char.
Definition c_dquote : ascii := """"%char.

(* ---------------------------------------------------------------- level A: one line *)

(* str.isspace on ASCII (also the regex class of white space) *)
Definition py_space (c : ascii) : bool :=
  is_space c || (let n := nat_of_ascii c in (28 <=? n) && (n <=? 31)).

Fixpoint lstrip (s : str) : str :=
  match s with
  | c :: r => if py_space c then lstrip r else s
  | [] => []
  end.
Definition rstrip (s : str) : str := rev (lstrip (rev s)).
Definition strip (s : str) : str := rstrip (lstrip s).

(* re.sub of hash-to-end-of-line by nothing *)
Fixpoint cut_comment (s : str) : str :=
  match s with
  | [] => []
  | c :: r => if ascii_eqb c c_hash then [] else c :: cut_comment r
  end.

Fixpoint span_word (s : str) : str * str :=
  match s with
  | c :: r => if is_word c then let (a, b) := span_word r in (c :: a, b) else ([], s)
  | [] => ([], [])
  end.

(* the pattern  ^(End|Group) space* colon *)
Definition is_group_end (s : str) : bool :=
  let chk (w : str) :=
    starts_with w s &&
    match lstrip (skipn (length w) s) with c :: _ => ascii_eqb c c_colon | [] => false end in
  chk (lit "End") || chk (lit "Group").

(* the pattern  ^(word+) space* = space* (rest) : the word and the rest *)
Definition key_value (s : str) : option (str * str) :=
  let (w, r1) := span_word s in
  match w with
  | [] => None
  | _ => match lstrip r1 with
         | c :: r2 => if ascii_eqb c c_equal then Some (w, lstrip r2) else None
         | [] => None
         end
  end.

Inductive cline := CBlank | CGroupEnd | CKV (key raw : str) | CBad.

(* VersionFile._read: strip, cut the comment, then End/Group before key = value *)
Definition vf_classify (line : str) : cline :=
  let l := cut_comment (strip line) in
  match l with
  | [] => CBlank
  | _ => if is_group_end l then CGroupEnd
         else match key_value l with
              | Some (w, v) => CKV (lower_str w) v
              | None => CBad
              end
  end.

(* ChainFile._read: lstrip only, comment lines start with a hash, key = value first *)
Definition cf_classify (line : str) : cline :=
  let l := lstrip line in
  match l with
  | [] => CBlank
  | c :: _ =>
      if ascii_eqb c c_hash then CBlank
      else match key_value l with
           | Some (w, v) => CKV (lower_str w) v
           | None => if is_group_end l then CGroupEnd else CBad
           end
  end.

Definition strip_last_quote (s : str) : str :=
  match rev s with
  | c :: r => if ascii_eqb c c_dquote then rev r else s
  | [] => []
  end.

(* re.sub of  ^quote | quote$  by nothing: one leading and one trailing quote, independently *)
Definition unquote1 (s : str) : str :=
  match s with
  | c :: r => if ascii_eqb c c_dquote then strip_last_quote r else strip_last_quote s
  | [] => []
  end.

(* re.sub of the pattern quote, anything, quote (anchored at both ends) by the inner
   text: only when both quotes are there *)
Definition unquote2 (s : str) : str :=
  match s with
  | c :: r =>
      if ascii_eqb c c_dquote then
        match rev r with
        | e :: m => if ascii_eqb e c_dquote then rev m else s
        | [] => s
        end
      else s
  | [] => []
  end.

(* str.strip of the quote character: all of them, both ends *)
Fixpoint lstrip_quotes (s : str) : str :=
  match s with
  | c :: r => if ascii_eqb c c_dquote then lstrip_quotes r else s
  | [] => []
  end.
Definition strip_quotes (s : str) : str := rev (lstrip_quotes (rev (lstrip_quotes s))).

(* ---------------------------------------------------------------- level B: version files *)

Definition k_declarer : str := lit "declarer".
Definition k_declared : str := lit "declared".
Definition k_modifier : str := lit "modifier".
Definition k_modified : str := lit "modified".
Definition k_version : str := lit "version".

(* apply g to the entry of key f *)
Fixpoint aupd {V} (f : str) (g : V -> V) (m : amap V) : amap V :=
  match m with
  | [] => []
  | (k, v) :: m' => if str_eqb f k then (k, g v) :: m' else (k, v) :: aupd f g m'
  end.

Record rstate := {
  rs_name : val; rs_version : val; rs_flavor : option str; rs_info : amap info }.

(* what End: / Group: does to the block that was open *)
Definition close_block (i : info) : info :=
  let i1 := if amem k_productDir i then i else aset k_productDir None i in
  let i2 := if amem k_table_file i1 then i1 else aset k_table_file (Some s_none) i1 in
  let tf := match alookup k_table_file i2 with Some v => v | None => None end in
  if negb (amem k_ups_dir i2) && is_real tf then aset k_ups_dir (Some s_none) i2 else i2.

Definition vf_step (st : rstate) (cl : cline) : res rstate :=
  match cl with
  | CBlank => Ok st
  | CBad => Err BadTable
  | CGroupEnd =>
      match rs_flavor st with
      | Some (c :: r) =>
          Ok {| rs_name := rs_name st; rs_version := rs_version st; rs_flavor := rs_flavor st;
                rs_info := aupd (c :: r) close_block (rs_info st) |}
      | _ => Ok st
      end
  | CKV key raw =>
      let key := if str_eqb key (lit "prod_dir") then k_productDir else key in
      let v1 := unquote1 raw in
      if str_eqb key (lit "file") then
        if str_eqb (lower_str v1) k_version then Ok st else Err BadTable
      else if str_eqb key (lit "product") then
        Ok {| rs_name := if truthy (rs_name st) then rs_name st else Some v1;
              rs_version := rs_version st; rs_flavor := rs_flavor st; rs_info := rs_info st |}
      else if str_eqb key k_version then
        Ok {| rs_name := rs_name st;
              rs_version := if truthy (rs_version st) then rs_version st else Some v1;
              rs_flavor := rs_flavor st; rs_info := rs_info st |}
      else if str_eqb key (lit "flavor") then
        Ok {| rs_name := rs_name st; rs_version := rs_version st; rs_flavor := Some v1;
              rs_info := if amem v1 (rs_info st) then rs_info st else rs_info st ++ [(v1, [])] |}
      else
        let v2 := unquote2 raw in
        if str_eqb key (lit "qualifiers") then
          match v2 with
          | [] => Ok st
          | _ =>
              match rs_flavor st with
              | None => Err Crash               (* self.info[None] *)
              | Some f =>
                  let nf := f ++ c_colon :: v2 in
                  match alookup f (rs_info st) with
                  | None => Err Crash
                  | Some i =>
                      Ok {| rs_name := rs_name st; rs_version := rs_version st;
                            rs_flavor := Some nf;
                            rs_info := aremove f (aset nf i (rs_info st)) |}
                  end
              end
          end
        else
          match rs_flavor st with
          | None => Err Crash                   (* self.info[None] *)
          | Some f =>
              if amem f (rs_info st) then
                Ok {| rs_name := rs_name st; rs_version := rs_version st; rs_flavor := rs_flavor st;
                      rs_info := aupd f (aset key (Some v2)) (rs_info st) |}
              else Err Crash
          end
  end.

Fixpoint vf_steps (st : rstate) (cls : list cline) : res rstate :=
  match cls with
  | [] => Ok st
  | cl :: r => bind (vf_step st cl) (fun st' => vf_steps st' r)
  end.

(* VersionFile(file, name, version)._read *)
Definition vf_read (name version : val) (lines : list str) : res vfile :=
  bind (vf_steps {| rs_name := name; rs_version := version; rs_flavor := None; rs_info := [] |}
                 (map vf_classify lines))
       (fun st => Ok {| vf_name := rs_name st; vf_version := rs_version st;
                        vf_info := rs_info st |}).

(* ---- write *)

Definition vf_fields : list (str * str) :=
  [ (lit "DECLARER", k_declarer); (lit "DECLARED", k_declared);
    (lit "MODIFIER", k_modifier); (lit "MODIFIED", k_modified);
    (lit "PROD_DIR", k_productDir); (lit "UPS_DIR", k_ups_dir);
    (lit "TABLE_FILE", k_table_file) ].

Definition kv_line (field value : str) : str := lit "   " ++ field ++ lit " = " ++ value.

Definition field_lines (i : info) : list str :=
  flat_map (fun fk : str * str =>
              let (field, k) := fk in
              match alookup k i with
              | None => []
              | Some v =>
                  if truthy v then
                    match v with Some s => [kv_line field s] | None => [] end
                  else if str_eqb k k_productDir || str_eqb k k_table_file
                       then [kv_line field s_none] else []
              end) vf_fields.

(* the flavor : qualifier split of write; None when the pattern does not match *)
Fixpoint split_colon (s : str) : str * option str :=
  match s with
  | [] => ([], None)
  | c :: r => if ascii_eqb c c_colon then ([], Some r)
              else let (a, b) := split_colon r in (c :: a, b)
  end.

Definition flavor_qualifier (fq : str) : option (str * str) :=
  match split_colon fq with
  | ([], _) => None
  | (f, None) => Some (f, [])
  | (f, Some q) =>
      Some (f, match q with c :: q' => if ascii_eqb c c_colon then q' else q | [] => [] end)
  end.

Definition s_stars : str := lit "#***************************************".

Definition block_head (f q : str) : list str :=
  [ []; lit "Group:"; kv_line (lit "FLAVOR") f;
    lit "   QUALIFIERS = " ++ c_dquote :: q ++ [c_dquote] ].

Fixpoint vf_blocks (m : amap info) : res (list str) :=
  match m with
  | [] => Ok []
  | (fq, i) :: m' =>
      match flavor_qualifier fq with
      | None => Err Crash
      | Some (f, q) =>
          bind (vf_blocks m') (fun rest => Ok (block_head f q ++ field_lines i ++ rest))
      end
  end.

(* the text written for a version file whose infos need no trimming; the empty list
   stands for: the file is removed *)
Definition vf_lines (r : vfile) : res (list str) :=
  match vf_info r with
  | [] => Ok []
  | _ =>
      bind (vf_blocks (vf_info r)) (fun bl =>
        Ok ([ lit "FILE = version"; lit "PRODUCT = " ++ show_val (vf_name r); lit "VERSION = " ++ show_val (vf_version r);
              s_stars ] ++ bl ++ [lit "End:"]))
  end.

Fixpoint trim_all (fixed : bool) (pe : penv) (ex : str -> bool) (td : val) (m : amap info)
  : res (amap info) :=
  match m with
  | [] => Ok []
  | (f, i) :: m' =>
      bind (trim_info_gen fixed pe ex td i) (fun i' =>
        bind (trim_all fixed pe ex td m') (fun r => Ok ((f, i') :: r)))
  end.

(* VersionFile.write(trimDir).  The python loop trims and prints block by block; a crash
   in a later block therefore leaves a truncated file, which this function reports as the
   error alone. *)
Definition vf_write_gen (fixed : bool) (pe : penv) (ex : str -> bool) (td : val) (r : vfile)
  : res (list str) :=
  bind (trim_all fixed pe ex td (vf_info r)) (fun m =>
    vf_lines {| vf_name := vf_name r; vf_version := vf_version r; vf_info := m |}).

Definition vf_write := vf_write_gen true.

(* ---- addFlavor *)

Definition old_value (old : option info) (k : str) (given : val) : val :=
  if truthy given then given
  else match old with
       | Some i => match alookup k i with Some v => v | None => given end
       | None => given
       end.

(* the install dir: trailing slashes removed; (the block so far, the install dir used below) *)
Definition af_dir (installdir : val) : info * val :=
  match installdir with
  | Some (c :: x) => let d := rstrip_slash (c :: x) in ([(k_productDir, Some d)], Some d)
  | _ => ([], installdir)
  end.

(* the table file: an absolute one under the install dir is made relative to it and split
   into ups dir and base name; (the block so far, the ups dir used below) *)
Definition af_table (i1 : info) (inst upsdir tablefile : val) : info * val :=
  let instS := match inst with Some d => d | None => [] end in
  match tablefile with
  | Some (c :: x) =>
      let t := c :: x in
      if truthy inst && is_real inst && isabs t && starts_with (instS ++ [c_slash]) t then
        let t1 := after (length instS) t in
        if negb (match upsdir with Some u => str_eqb u s_none | None => false end) then
          match dirname t1 with
          | [] => (i1 ++ [(k_table_file, Some t1)], Some s_none)
          | u => (i1 ++ [(k_table_file, Some (basename t1))], Some u)
          end
        else (i1 ++ [(k_table_file, Some t1)], upsdir)
      else (i1 ++ [(k_table_file, Some t)], upsdir)
  | _ => (i1, upsdir)
  end.

Definition af_ups (inst upsdir1 : val) : val :=
  let instS := match inst with Some d => d | None => [] end in
  match upsdir1 with
  | Some (c :: x) =>
      let u := rstrip_slash (c :: x) in
      if truthy inst && is_real (Some u) && isabs u && starts_with (instS ++ [c_slash]) u
      then Some (after (length instS) u) else Some u
  | Some [] => Some []
  | None => Some s_none
  end.

(* who declared, who modifies *)
Definition af_meta (who now : str) (old : option info) (i3 : info) : info :=
  let keep k := match old with
                | Some i => match alookup k i with Some v => [(k, v)] | None => [] end
                | None => []
                end in
  let i4 := i3 ++ keep k_declarer ++ keep k_declared in
  if amem k_declarer i4 || amem k_declared i4
  then i4 ++ [(k_modifier, Some who); (k_modified, Some now)]
  else i4 ++ [(k_declarer, Some who); (k_declared, Some now)].

Definition add_flavor (who now : str) (flavor : str) (installdir tablefile upsdir : val) (r : vfile)
  : vfile :=
  let old := alookup flavor (vf_info r) in
  let installdir := old_value old k_productDir installdir in
  let upsdir := old_value old k_ups_dir upsdir in
  let tablefile := old_value old k_table_file tablefile in
  let d := af_dir installdir in
  let t := af_table (fst d) (snd d) upsdir tablefile in
  let i3 := aset k_ups_dir (af_ups (snd d) (snd t)) (fst t) in
  {| vf_name := vf_name r; vf_version := vf_version r;
     vf_info := aset flavor (af_meta who now old i3) (vf_info r) |}.

Definition vf_remove_flavor (flavor : str) (r : vfile) : vfile :=
  {| vf_name := vf_name r; vf_version := vf_version r; vf_info := aremove flavor (vf_info r) |}.

(* ---- makeProduct, Database.declare, Database.findProduct *)

Definition info_get (i : info) (k : str) : val :=
  match alookup k i with Some v => v | None => None end.

Definition make_product (ex : str -> bool) (r : vfile) (flavor : str) (stackdir dbpath : val)
  : option product :=
  match alookup flavor (vf_info r) with
  | None => None
  | Some i =>
      let db := if truthy stackdir && negb (truthy dbpath)
                then match stackdir with Some s => Some (path_join s s_ups_db) | None => dbpath end
                else dbpath in
      Some (resolve_paths ex
              (mk_product ex (val_str (vf_name r)) (val_str (vf_version r)) flavor
                          (info_get i k_productDir) (info_get i k_table_file) db
                          (info_get i k_ups_dir)))
  end.

(* Database.findProduct on the text of the version file *)
Definition db_find (ex : str -> bool) (name version : val) (flavor : str) (stackdir dbpath : val)
                   (lines : list str) : res (option product) :=
  bind (vf_read name version lines) (fun r => Ok (make_product ex r flavor stackdir dbpath)).

(* Database.declare on records: the version file contents to be printed.
   trimDir is the stack root as it is spelt in the database path (a symbolic link is not
   resolved here: write does that).
   A table file that is still falsy after canonicalisation goes through tableFileName in
   the code; that corner is not modelled (Err Undefined). *)
Definition declare_rec (fixed : bool) (pe : penv) (ex : str -> bool) (who now : str) (p : product)
                       (r : vfile) : res vfile :=
  let prod := canon_gen fixed (clone ex p) in
  if negb (truthy (p_table prod)) then Err Undefined else
  let r1 := add_flavor who now (p_flavor prod) (p_dir prod) (p_table prod) (p_ups prod) r in
  if truthy (p_dir prod) then
    let td := match stack_root prod with
              | Some (c :: x) => if ex (c :: x) then Some (c :: x) else None
              | _ => None
              end in
    bind (trim_all fixed pe ex td (vf_info r1)) (fun m =>
      Ok {| vf_name := vf_name r1; vf_version := vf_version r1; vf_info := m |})
  else Err Crash.                              (* trimDir is unbound *)

(* Database.declare: the new text of the version file, from its old text if it exists *)
Definition db_declare_gen (fixed : bool) (pe : penv) (ex : str -> bool) (who now : str) (p : product)
                          (old : option (list str)) : res (list str) :=
  if negb (nonempty (p_name p) && nonempty (p_version p) && nonempty (p_flavor p)) then Err Refused
  else if negb (truthy (p_table (canon_gen fixed (clone ex p)))) then Err Undefined
  else
    bind (match old with
          | Some ls => vf_read (Some (p_name p)) (Some (p_version p)) ls
          | None => Ok {| vf_name := Some (p_name p); vf_version := Some (p_version p);
                          vf_info := [] |}
          end) (fun r => bind (declare_rec fixed pe ex who now p r) vf_lines).

Definition db_declare := db_declare_gen true.

(* ---------------------------------------------------------------- chain files *)

Definition cinfo := amap str.
Record cfile := { cf_name : val; cf_tag : val; cf_info : amap cinfo }.

Record cstate := {
  cs_name : val; cs_tag : val; cs_flavor : option str; cs_info : amap cinfo }.

Definition cf_step (st : cstate) (cl : cline) : res cstate :=
  match cl with
  | CBlank | CGroupEnd => Ok st
  | CBad => Err BadTable
  | CKV key raw =>
      let v := strip_quotes raw in
      if str_eqb key (lit "file") then
        if str_eqb (lower_str v) (lit "chain") || str_eqb (lower_str v) k_version
        then Ok st else Err BadTable
      else if str_eqb key (lit "product") then
        Ok {| cs_name := if truthy (cs_name st) then cs_name st else Some v; cs_tag := cs_tag st;
              cs_flavor := cs_flavor st; cs_info := cs_info st |}
      else if str_eqb key (lit "chain") then
        Ok {| cs_name := cs_name st; cs_tag := if truthy (cs_tag st) then cs_tag st else Some v;
              cs_flavor := cs_flavor st; cs_info := cs_info st |}
      else if str_eqb key (lit "flavor") then
        Ok {| cs_name := cs_name st; cs_tag := cs_tag st; cs_flavor := Some v;
              cs_info := aset v [] (cs_info st) |}
      else if str_eqb key (lit "qualifiers") then
        match v with
        | [] => Ok st
        | _ =>
            match cs_flavor st with
            | None => Err Crash
            | Some f =>
                let nf := f ++ c_colon :: v in
                match alookup f (cs_info st) with
                | None => Err Crash
                | Some i =>
                    Ok {| cs_name := cs_name st; cs_tag := cs_tag st; cs_flavor := Some nf;
                          cs_info := aremove f (aset nf i (cs_info st)) |}
                end
            end
        end
      else
        match cs_flavor st with
        | None => Err Crash
        | Some f =>
            if amem f (cs_info st) then
              Ok {| cs_name := cs_name st; cs_tag := cs_tag st; cs_flavor := cs_flavor st;
                    cs_info := aupd f (aset key v) (cs_info st) |}
            else Err Crash
        end
  end.

Fixpoint cf_steps (st : cstate) (cls : list cline) : res cstate :=
  match cls with
  | [] => Ok st
  | cl :: r => bind (cf_step st cl) (fun st' => cf_steps st' r)
  end.

Definition cf_read (name tag : val) (lines : list str) : res cfile :=
  bind (cf_steps {| cs_name := name; cs_tag := tag; cs_flavor := None; cs_info := [] |}
                 (map cf_classify lines))
       (fun st => Ok {| cf_name := cs_name st; cf_tag := cs_tag st; cf_info := cs_info st |}).

Definition cf_fields : list (str * str) :=
  [ (lit "DECLARER", k_declarer); (lit "DECLARED", k_declared);
    (lit "MODIFIER", k_modifier); (lit "MODIFIED", k_modified) ].

Definition cfield_lines (i : cinfo) : list str :=
  flat_map (fun fk : str * str =>
              let (field, k) := fk in
              match alookup k i with
              | Some (c :: v) => [kv_line field (c :: v)]
              | _ => []
              end) cf_fields.

Fixpoint cf_blocks (m : amap cinfo) : res (list str) :=
  match m with
  | [] => Ok []
  | (fq, i) :: m' =>
      match flavor_qualifier fq, alookup k_version i with
      | Some (f, q), Some v =>
          bind (cf_blocks m') (fun rest =>
            Ok ([ []; lit "#Group:"; kv_line (lit "FLAVOR") f; kv_line (lit "VERSION") v;
                  lit "   QUALIFIERS = " ++ c_dquote :: q ++ [c_dquote] ]
                ++ cfield_lines i ++ [lit "#End:"] ++ rest))
      | _, _ => Err Crash
      end
  end.

(* ChainFile.write; the empty list stands for: the file is removed *)
Definition cf_lines (c : cfile) : res (list str) :=
  match cf_info c with
  | [] => Ok []
  | _ =>
      bind (cf_blocks (cf_info c)) (fun bl =>
        Ok ([ lit "FILE = version"; lit "PRODUCT = " ++ show_val (cf_name c); lit "CHAIN = " ++ show_val (cf_tag c);
              s_stars ] ++ bl))
  end.

(* ChainFile.setVersion(version, [flavor]) *)
Definition cf_set_version (who now : str) (version flavor : str) (c : cfile) : cfile :=
  let i :=
    match alookup flavor (cf_info c) with
    | Some old => aset k_version version (aset k_modified now (aset k_modifier who old))
    | None => [(k_declarer, who); (k_declared, now); (k_version, version)]
    end in
  {| cf_name := cf_name c; cf_tag := cf_tag c; cf_info := aset flavor i (cf_info c) |}.

Definition cf_remove_version (flavor : str) (c : cfile) : cfile :=
  {| cf_name := cf_name c; cf_tag := cf_tag c; cf_info := aremove flavor (cf_info c) |}.

Definition cf_get_version (flavor : str) (c : cfile) : option str :=
  match alookup flavor (cf_info c) with
  | Some i => alookup k_version i
  | None => None
  end.
