(* Model of WHERE Database.assignTag keeps a tag assignment (C16), layered on Model/RecordsExt.v:
     eups/db/Database.py   assignTag(tag, product, version, flavors, writeableDB): the chain file is
                           kept in the product directory of writeableDB when one is given, of the
                           user's tag directory when the tag is a user tag, of the product's own
                           database otherwise; the chain file found in THAT directory is read,
                           setVersion is run over the flavors, and the file is written back to the
                           same directory.
   The chain files of one product and one tag are a table from directory to text (a directory
   without such a file has no entry).  Executable definitions only. *)
From Eupsv Require Import Base.Base Model.Paths Model.Records Model.RecordsExt.

Definition chaindirs := amap (list str).

(* the directory the assignment is kept in.  An empty writeableDB counts as none given; a user tag
   without a user tag directory: _getUserTagDb fails on the missing table (Crash) *)
Definition tag_target (own : str) (user_tag : bool) (userdb writeable : option str) : res str :=
  match writeable with
  | Some (c :: r) => Ok (c :: r)
  | _ => if user_tag then
           match userdb with
           | Some (c :: r) => Ok (c :: r)
           | _ => Err Crash
           end
         else Ok own
  end.

(* assignTag reading the chain file of directory [rdir] and writing the result into [wdir] *)
Definition db_assign_tag_at (who now name tag version : str) (req : option (list str))
                            (vftext : option (list str)) (rdir wdir : str) (cs : chaindirs)
  : res chaindirs :=
  bind (db_assign_tag who now name tag version req vftext (alookup rdir cs))
       (fun lines => Ok (aset wdir lines cs)).

(* the code: the directory read is the directory written.  The version file is always the one of
   the product's own database (vftext). *)
Definition db_assign_tag_in (who now name tag version : str) (req : option (list str))
                            (vftext : option (list str)) (own : str) (user_tag : bool)
                            (userdb writeable : option str) (cs : chaindirs) : res chaindirs :=
  bind (tag_target own user_tag userdb writeable) (fun d =>
    db_assign_tag_at who now name tag version req vftext d d cs).

(* a history of assignments into one target: (version, requested flavors) one after the other;
   a refused assignment (NotFound) leaves the files as they are *)
Fixpoint db_assign_seq (who now name tag : str) (vf : str -> option (list str)) (own : str)
                       (user_tag : bool) (userdb writeable : option str)
                       (steps : list (str * option (list str))) (cs : chaindirs) : chaindirs :=
  match steps with
  | [] => cs
  | (v, req) :: r =>
      let cs1 := match db_assign_tag_in who now name tag v req (vf v) own user_tag userdb writeable cs with
                 | Ok x => x
                 | Err _ => cs
                 end in
      db_assign_seq who now name tag vf own user_tag userdb writeable r cs1
  end.
