(* Model of the chain-record operations over SEVERAL flavors (C16), layered on Model/Records.v:
     eups/db/ChainFile.py   setVersion(version, flavors) and removeVersion(flavors) with a list
                            of flavors (the loop over the list), a single string, or None
     eups/db/Database.py    assignTag(tag, product, version, flavors): the list of flavors is
                            reduced to the declared ones (flavors=None or an empty list stand for
                            every flavor declared in the version file), the chain file is read,
                            setVersion is run over the whole list, the chain file is written
   and of several look-ups in one process (Database.findProduct called again and again on one
   database): a look-up is a function of the record text, the flavor and the place of the stack
   only, so a sequence of look-ups is the map of the single look-up over the queries.
   Executable definitions only. *)
From Eupsv Require Import Base.Base Model.Paths Model.Records.

(* ChainFile.setVersion(version, flavors): the loop body is cf_set_version, run from left to right *)
Fixpoint cf_set_versions (who now version : str) (flavors : list str) (c : cfile) : cfile :=
  match flavors with
  | [] => c
  | f :: r => cf_set_versions who now version r (cf_set_version who now version f c)
  end.

(* the calling conventions of setVersion: a list, or None.  With None the code calls itself
   with the list of flavors in the place of the version and None again for the flavors; that
   recursion does not end (RecursionError); no caller in the package passes None. *)
Definition cf_set_versions_opt (who now version : str) (flavors : option (list str)) (c : cfile)
  : res cfile :=
  match flavors with
  | None => Err Crash
  | Some l => Ok (cf_set_versions who now version l c)
  end.

(* ChainFile.removeVersion(flavors); None stands for every flavor of the chain file *)
Fixpoint cf_remove_versions (flavors : list str) (c : cfile) : cfile :=
  match flavors with
  | [] => c
  | f :: r => cf_remove_versions r (cf_remove_version f c)
  end.

Definition cf_remove_versions_opt (flavors : option (list str)) (c : cfile) : cfile :=
  match flavors with
  | None => cf_remove_versions (akeys (cf_info c)) c
  | Some l => cf_remove_versions l c
  end.

(* Database.assignTag: len(flavors) times, pop the first flavor and append it again when it is
   declared and does not occur in what is left *)
Fixpoint reduce_loop (n : nat) (l declared : list str) : list str :=
  match n with
  | 0 => l
  | S n' =>
      match l with
      | [] => []
      | f :: r => reduce_loop n' (if mem_str f declared && negb (mem_str f r) then r ++ [f] else r)
                              declared
      end
  end.

(* the flavors assignTag hands to setVersion: None and the empty list stand for every declared
   flavor *)
Definition assign_flavors (req : option (list str)) (declared : list str) : list str :=
  let l := match req with
           | None | Some [] => declared
           | Some l => l
           end in
  reduce_loop (length l) l declared.

(* Database.assignTag(tag, name, version, flavors) on the texts of the version file and of the
   chain file (None: the file does not exist): the new text of the chain file.
   NotFound stands for ProductNotFound (no such version, or none of the flavors is declared). *)
Definition db_assign_tag (who now : str) (name tag version : str) (req : option (list str))
                         (vftext cftext : option (list str)) : res (list str) :=
  bind (match vftext with
        | None => Ok []
        | Some ls => bind (vf_read None None ls) (fun r => Ok (akeys (vf_info r)))
        end) (fun declared =>
    match declared with
    | [] => Err NotFound
    | _ =>
        match assign_flavors req declared with
        | [] => Err NotFound
        | fls =>
            bind (match cftext with
                  | None => Ok {| cf_name := Some name; cf_tag := Some tag; cf_info := [] |}
                  | Some ls => cf_read (Some name) (Some tag) ls
                  end) (fun c => cf_lines (cf_set_versions who now version fls c))
        end
    end).

(* ---- several look-ups in one process *)

(* one query: product name, version, flavor *)
Definition query := (str * str * str)%type.

(* the version-file texts of a database, by product name and version *)
Definition dbtexts := list (str * str * list str).

Fixpoint text_of (n v : str) (d : dbtexts) : option (list str) :=
  match d with
  | [] => None
  | (n', v', ls) :: d' => if str_eqb n n' && str_eqb v v' then Some ls else text_of n v d'
  end.

(* Database.findProduct(name, version, flavor) on a database of texts at [root] *)
Definition db_find1 (ex : str -> bool) (root : str) (d : dbtexts) (q : query) : res (option product) :=
  let '(n, v, f) := q in
  match text_of n v d with
  | None => Ok None
  | Some ls => db_find ex None None f (Some root) (Some (path_join root s_ups_db)) ls
  end.

(* a process that asks one query after the other: nothing is carried from one look-up to the
   next *)
Definition db_find_seq (ex : str -> bool) (root : str) (d : dbtexts) (qs : list query)
  : list (res (option product)) := map (db_find1 ex root d) qs.
