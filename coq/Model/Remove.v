(* Model of Eups.remove / Eups._remove (property C14).

     Eups.remove    python/eups/Eups.py 3223-3306   -> [remove], [destroy]
     Eups._remove   python/eups/Eups.py 3308-3358   -> [collect], [collect_loop]

   The command works in two phases.  COLLECT (_remove): the product asked for and, with
   recursive, the declared dependencies of its table (Table.dependencies, not recursive; _remove
   recurses itself), each one checked against Uses.users when checkRecursive is on: any user
   other than the product named on the command line blocks unless force (so a product whose only
   other users are themselves being removed still blocks: the behaviour of the code, kept as it
   is; the property only demands a refusal when a SURVIVOR needs something).  Nothing is written
   in this phase.  DESTROY (remove): duplicates dropped (_set), then for every collected product
   Eups.undeclare followed by shutil.rmtree of its directory, unless that directory has already
   gone (removedDirs) or is a placeholder (none).

   State: the reader's view of the database [adb] of Model/Db.v (declarations and tags with the
   undeclare transition [ADelDecl] and its theorems; Eups.undeclare is Db's [Undeclare] command)
   plus the set of paths that exist under the stack root.  The dependency graph is the resolved
   [world] of Model/Graph.v, whose [uses_index] / [users] are Eups.uses / Uses.users.  Both are
   inputs: the world is what the table files denote in the database as it is before the command
   (the whole collection happens before the first write).

   Two flags select the code that is modelled:
     skip = true   dependencies that are not declared are left out of the list (fix
                   C14-remove-skip-undeclared); false = pinned tree: Table.dependencies lists an
                   unresolved dependency as a stub Product(name, version text), _remove appends it,
                   remove() then calls undeclare(stub) which raises after the products ordered before
                   the stub have been destroyed (D12).
     once = true   a product is followed once: _remove recurses into a dependency iff it is not in
                   the list [seen] of products already being collected (fix C14-remove-follow-once);
                   false = pinned tree: it recurses iff the NAME of the dependency differs from the name
                   of the product whose table is being read - no termination on a dependency cycle, and
                   the dependencies of another version of the same product are not followed.

     keep = true   a directory in which a declaration that remains is installed (or which holds such a directory) is
                   not deleted (fix C14-remove-keeps-shared-directory); false = the tree before: rmtree whatever else
                   lives there.

   Executable definitions only.  Not modelled: interactive mode, noaction, a userInfo handed in by
   the caller, products that are set up in the environment (undeclare then wants force). *)
From Eupsv Require Import Base.Base Model.Graph Model.Db.

Record rstate := mkR {
  rdb : adb;            (* declarations and tag assignments *)
  rfs : list str        (* the paths (directories and files) that exist under the stack root *)
}.

Record rconf := mkRC {
  rc_flavor  : str;     (* flavor of the Eups instance *)
  rc_default : str;     (* hooks.config.Eups.defaultProduct[name] *)
  rc_force   : bool
}.

(* ---------------------------------------------------------------- paths *)

Definition slash : ascii := "/"%char.

(* p is d or lies inside d *)
Definition under (d p : str) : bool := str_eqb p d || starts_with (d ++ [slash]) p.

(* shutil.rmtree(d) *)
Definition rmtree (d : str) (fs : list str) : list str := filter (fun p => negb (under d p)) fs.

(* utils.isRealFilename *)
Definition placeholder (d : str) : bool :=
  str_eqb d (lit "none") || str_eqb d (lit "???") || str_eqb d (lit "(none)").

(* ---------------------------------------------------------------- the collection *)

(* Eups.getProduct(name, version) during the collection, answered from the world: an explicit
   version is found iff it is declared; a bare name reaches _remove only as the stub of a table line
   that the walk could not resolve either (no version is tagged current) *)
Definition lookup (w : world) (n : str) (ov : option str) : option node :=
  match ov with
  | Some v => if declared w n v then Some (n, Some v, true) else None
  | None => None
  end.

(* Eups.findProduct(dep.name, dep.version) is not None *)
Definition is_declared (w : world) (d : node) : bool :=
  match nver d with Some v => declared w (nname d) v | None => false end.

(* tbl.dependencies(self): one entry per setupRequired / setupOptional line, in file order,
   unresolved ones as stubs; with the fix only the declared ones are kept *)
Definition kept_deps (skip : bool) (w : world) (p : node) : list node :=
  let ds := match node_table w p with Some es => map own_target es | None => [] end in
  if skip then filter (is_declared w) ds else ds.

Definition is_top (top : option (str * str)) (u : str * str) : bool :=
  match top with Some t => user_eqb u t | None => false end.

Section CollectLoop.
  Variables (once chk : bool) (idx : list ((str * str) * list entry)) (c : rconf) (top : option (str * str)).
  (* the recursive call _remove(name, version, recursive, ..., seen) *)
  Variable rec_call : list node -> str -> option str -> bool -> res (list node * list node).

  (* the in-use check of one product: any user other than the product named on the command line; with
     top = None (topProduct = topVersion = None: the product named is also declared in another stack or for
     a fall-back flavor, and that declaration stays) nobody is set aside *)
  Definition check_one (d : node) : res unit :=
    if chk then
      match users idx (nname d) (nver d) with
      | Err e => Err e
      | Ok us =>
          if existsb (fun u => negb (is_top top (cuser u))) us && negb (rc_force c)
          then Err Refused else Ok tt
      end
    else Ok tt.

  Definition follow (pname : str) (d : node) (seen : list node) : bool :=
    if once then negb (mem_node d seen) else negb (str_eqb (nname d) pname).

  (* for product, o, recursionDepth in deps: ... *)
  Fixpoint collect_loop (recursive : bool) (pname : str) (ds : list node) (seen : list node)
    : res (list node * list node) :=
    match ds with
    | [] => Ok ([], seen)
    | d :: r =>
        match check_one d with
        | Err e => Err e
        | Ok _ =>
            let sub := if recursive then rec_call seen (nname d) (nver d) (follow pname d seen)
                       else Ok ([], seen) in
            match sub with
            | Err e => Err e
            | Ok (l1, seen1) =>
                match collect_loop recursive pname r seen1 with
                | Err e => Err e
                | Ok (l2, seen2) => Ok (l1 ++ d :: l2, seen2)
                end
            end
        end
    end.
End CollectLoop.

(* _remove; python's recursion limit is the fuel (RecursionError = Err OutOfFuel) *)
Fixpoint collect (skip once chk : bool) (w : world) (idx : list ((str * str) * list entry)) (c : rconf)
         (top : option (str * str)) (fuel : nat) (seen : list node) (n : str) (ov : option str) (recursive : bool)
  : res (list node * list node) :=
  match fuel with
  | 0 => Err OutOfFuel
  | S f =>
      if str_eqb n (rc_default c) then Ok ([], seen)
      else match lookup w n ov with
           | None => Err NotFound
           | Some p =>
               collect_loop once chk idx c top (collect skip once chk w idx c top f) recursive n
                            (p :: (if recursive then kept_deps skip w p else [])) (p :: seen)
           end
  end.

(* ---------------------------------------------------------------- the destruction *)

(* Eups.undeclare(name, version) is the Undeclare command of Model/Db.v *)
Definition undeclare (c : rconf) (a : adb) (n : str) (ov : option str) : res adb :=
  astep_gen false a (Undeclare (mkOpts (rc_flavor c) None (rc_force c) false) n ov).

(* product.dir of the Product object made during the collection, i.e. in the database as it was *)
Definition product_dir (c : rconf) (a0 : adb) (p : node) : option str :=
  match nver p with
  | Some v => match find_exact a0 (apath a0) (nname p) v (rc_flavor c) with
              | Some (_, r) => Some (fst r)
              | None => None
              end
  | None => None
  end.

Definition odir_eqb (a b : option str) : bool :=
  match a, b with
  | Some x, Some y => str_eqb x y
  | None, None => true
  | _, _ => false
  end.

Definition mem_odir (d : option str) (l : list (option str)) : bool := existsb (odir_eqb d) l.

(* some declaration that is (still) there, in a stack of the path, for the running flavor or a fall-back
   flavor (Eups._findDeclarations()), is installed in dir or inside it *)
Definition in_use (c : rconf) (a : adb) (dir : str) : bool :=
  existsb (fun e : dkey * vrec =>
    let '(s, n, v, f) := fst e in
    mem_str s (apath a) && mem_str f (fallbacks (rc_flavor c)) &&
    match a_decl a s n v f with Some r => negb (placeholder (fst r)) && under dir (fst r) | None => false end) (adecls a).

(* what remove() does about the directory of one product: nothing when that directory has
   already gone (removedDirs); nothing either, and nothing remembered, when a declaration that remains in the
   database a1 (as it is after the undeclare) is installed in it (keep = true: fix
   C14-remove-keeps-shared-directory; false = the tree before it); else rmtree when it is a real file name, and it
   is remembered *)
Definition dir_step (keep : bool) (c : rconf) (a0 a1 : adb) (p : node) (removed : list (option str)) (fs : list str)
  : res (list (option str) * list str) :=
  let d := product_dir c a0 p in
  if mem_odir d removed then Ok (removed, fs)
  else match d with
       | None => Ok (d :: removed, fs)
       | Some dir =>
           if placeholder dir then Ok (d :: removed, fs)
           else if keep && in_use c a1 dir then Ok (removed, fs)
           else if mem_str dir fs then Ok (d :: removed, rmtree dir fs)
           else Err Crash                               (* rmtree: OSError -> RuntimeError *)
       end.

(* the loop of Eups.remove; the state travels with the outcome because an exception leaves
   behind whatever was done before it *)
Fixpoint destroy (keep : bool) (c : rconf) (a0 : adb) (ps : list node) (removed : list (option str)) (st : rstate)
  : res unit * rstate :=
  match ps with
  | [] => (Ok tt, st)
  | p :: r =>
      match undeclare c (rdb st) (nname p) (nver p) with
      | Err e => (Err e, st)
      | Ok a' =>
          match dir_step keep c a0 a' p removed (rfs st) with
          | Err e => (Err e, mkR a' (rfs st))
          | Ok (removed', fs') => destroy keep c a0 r removed' (mkR a' fs')
          end
      end
  end.

(* Eups.remove(name, version, recursive, checkRecursive) *)
Definition remove (skip once keep : bool) (fuel : nat) (w : world) (c : rconf) (st : rstate)
           (n v : str) (recursive chk : bool) : res unit * rstate :=
  match (if chk then uses_index fuel w else Ok []) with
  | Err e => (Err e, st)
  | Ok idx =>
      match collect skip once chk w idx c (Some (n, v)) fuel [] n (Some v) recursive with
      | Err e => (Err e, st)
      | Ok (l, _) => destroy keep c (rdb st) (uniq_nodes l) [] st
      end
  end.

(* the code with the fixes, and the pinned tree *)
Definition remove_fixed := remove true true true.
Definition remove_pinned := remove false false false.
