(* The whole eups remove command (property C14, extension): the command-line front end, the
   interactive protocol, and the state with several stacks and flavors.

     RemoveCmd.execute   python/eups/cmd.py  1452-1516  -> [cli_remove]
     Eups.remove         python/eups/Eups.py 3283-3372  -> [remove_x], [destroy_i], [prompt]
     Eups._remove        python/eups/Eups.py 3374-3424  -> Model/Remove.v [collect]
     Eups._findDeclarations / the top product set aside -> [decl_places], [top_of]

   Layered on Model/Remove.v, whose collection [collect] and directory step [dir_step] are used as
   they are.

   FRONT END.  eups remove [-R] [-N] [-F] [-i | --noInteractive] product version  becomes
   Eups(force=...).remove(product, version, recursive, checkRecursive = not noCheck, interactive);
   fewer than two arguments (and no -t) is exit status 2 before anything is looked at.  The help text
   of -i says default if -R; the code does not do that and neither does the model.  Not modelled: -t
   (that is eups undeclare of a tag), -n (C15).

   INTERACTIVE PROTOCOL.  The list of products is fixed before the first question (collection, in-use
   check).  For every product, in list order, the loop reads answers from standard input until one
   settles it: y / n / ! settle it and become the new default, the empty line stands for the
   default (y at the start), q ends the command at once (what was removed stays removed, status
   0), anything else is asked again; after ! nothing more is asked.  n leaves the product alone:
   not undeclared, directory kept and not remembered as removed.  Standard input running out is
   EOFError ([Err Undefined]) after what has been done so far.

   SEVERAL STACKS AND FLAVORS.  The state is the reader's view [adb] of Model/Db.v, keyed by stack
   and flavor, and the set of paths of all stacks (and of product directories outside them).  Two
   resolved worlds are inputs:
     ww  what _remove walks: the (name, version) that getProduct finds (running flavor, first stack
         on the path) with the lines of THAT declaration's table; a line counts as resolved when it
         denotes a version that the running flavor declares (the filter findProduct(dep) of _remove)
     wu  what Eups.uses reads: every (name, version) declared in any stack for the running flavor or a
         fall-back flavor, with the lines of all its declarations' tables (Uses.remember appends under
         the key name:version, which sees neither stack nor flavor).
   With one stack and one flavor ww = wu and [remove_x] without -i is [remove_fixed].

   The flag [xall] selects the code that is modelled:
     true   fix C14-remove-other-declarations: the users table is built from every declaration
            (one findProducts per stack), and the product named on the command line is set aside as
            a user only when it is declared once ([top_of])
     false  pinned tree: always set aside (and the harness hands in the world of findProducts(), one
            declaration per name, version and flavor).
   The flag [keep] is the one of Model/Remove.v (fix C14-remove-keeps-shared-directory: a directory that a
   remaining declaration is installed in is left alone). *)
From Eupsv Require Import Base.Base Model.Graph Model.Db Model.Remove.

(* ---------------------------------------------------------------- the front end *)

Record ropts := mkRO {
  ro_recursive   : bool;            (* -R *)
  ro_nocheck     : bool;            (* -N *)
  ro_force       : bool;            (* -F, goes to the Eups constructor *)
  ro_interactive : option bool      (* -i = Some true, --noInteractive = Some false, neither = None *)
}.

(* the arguments of Eups.remove *)
Record rcall := mkCall {
  k_name : str; k_version : str; k_recursive : bool; k_check : bool; k_interactive : bool
}.

Inductive front := Usage | Call (force : bool) (k : rcall).

Definition cli_remove (o : ropts) (args : list str) : front :=
  match args with
  | p :: v :: _ =>
      Call (ro_force o)
           (mkCall p v (ro_recursive o) (negb (ro_nocheck o))
                   (match ro_interactive o with Some b => b | None => false end))
  | _ => Usage
  end.

(* ---------------------------------------------------------------- the questions *)

Definition ans_y : str := lit "y".
Definition ans_n : str := lit "n".
Definition ans_all : str := lit "!".
Definition ans_q : str := lit "q".

Inductive verdict := VYes | VNo | VQuit | VEof.

(* the while loop around input(): default answer, answers still unread -> verdict, new default,
   answers left *)
Fixpoint prompt_loop (dflt : str) (answers : list str) : verdict * str * list str :=
  match answers with
  | [] => (VEof, dflt, [])
  | a :: r =>
      let yn := match a with [] => dflt | _ => a end in
      if str_eqb yn ans_y then (VYes, ans_y, r)
      else if str_eqb yn ans_n then (VNo, ans_n, r)
      else if str_eqb yn ans_all then (VYes, ans_all, r)
      else if str_eqb yn ans_q then (VQuit, dflt, r)
      else prompt_loop dflt r
  end.

(* yn = default_yn; while yn is not the exclamation mark: ... *)
Definition prompt (dflt : str) (answers : list str) : verdict * str * list str :=
  if str_eqb dflt ans_all then (VYes, dflt, answers) else prompt_loop dflt answers.

(* ---------------------------------------------------------------- the destruction, with questions *)

(* the loop of Eups.remove; interactive = false is [destroy] of Model/Remove.v *)
Fixpoint destroy_i (keep : bool) (c : rconf) (a0 : adb) (interactive : bool) (ps : list node) (dflt : str) (answers : list str)
         (removed : list (option str)) (st : rstate) : res unit * rstate :=
  match ps with
  | [] => (Ok tt, st)
  | p :: r =>
      let '(vd, dflt', answers') := if interactive then prompt dflt answers else (VYes, dflt, answers) in
      match vd with
      | VEof => (Err Undefined, st)                 (* EOFError out of input() *)
      | VQuit => (Ok tt, st)                        (* return *)
      | VNo => destroy_i keep c a0 interactive r dflt' answers' removed st
      | VYes =>
          match undeclare c (rdb st) (nname p) (nver p) with
          | Err e => (Err e, st)
          | Ok a' =>
              match dir_step keep c a0 a' p removed (rfs st) with
              | Err e => (Err e, mkR a' (rfs st))
              | Ok (removed', fs') => destroy_i keep c a0 interactive r dflt' answers' removed' (mkR a' fs')
              end
          end
      end
  end.

(* what the answers select, and how the questioning ends: the same loop without the state *)
Inductive ending := Done | Quit | Eof.

Fixpoint select (interactive : bool) (ps : list node) (dflt : str) (answers : list str) : list node * ending :=
  match ps with
  | [] => ([], Done)
  | p :: r =>
      let '(vd, dflt', answers') := if interactive then prompt dflt answers else (VYes, dflt, answers) in
      match vd with
      | VEof => ([], Eof)
      | VQuit => ([], Quit)
      | VNo => select interactive r dflt' answers'
      | VYes => let '(l, e) := select interactive r dflt' answers' in (p :: l, e)
      end
  end.

(* ---------------------------------------------------------------- several declarations of one version *)

(* the (stack, flavor) places where name n version v is declared, over EUPS_PATH and the running
   flavor with its fall-backs: Eups._findDeclarations(n, v) *)
Definition decl_places (c : rconf) (a : adb) (n v : str) : list (str * str) :=
  filter (fun sf => is_some (a_decl a (fst sf) n v (snd sf)))
         (list_prod (apath a) (fallbacks (rc_flavor c))).

(* topProduct, topVersion as handed to _remove *)
Definition top_of (xall : bool) (c : rconf) (a : adb) (n v : str) (chk : bool) : option (str * str) :=
  if xall && chk && Nat.ltb 1 (length (decl_places c a n v)) then None else Some (n, v).

(* ---------------------------------------------------------------- Eups.remove *)

Definition remove_x (xall keep : bool) (fuel : nat) (ww wu : world) (c : rconf) (st : rstate)
           (k : rcall) (answers : list str) : res unit * rstate :=
  let n := k_name k in
  let v := k_version k in
  match (if k_check k then uses_index fuel wu else Ok []) with
  | Err e => (Err e, st)
  | Ok idx =>
      match collect true true (k_check k) ww idx c (top_of xall c (rdb st) n v (k_check k)) fuel [] n (Some v)
                    (k_recursive k) with
      | Err e => (Err e, st)
      | Ok (l, _) => destroy_i keep c (rdb st) (k_interactive k) (uniq_nodes l) ans_y answers [] st
      end
  end.

(* the command line: exit status 2 without touching anything, or the call with force in the
   configuration of the Eups instance *)
Definition eups_remove (xall keep : bool) (fuel : nat) (ww wu : world) (flavor dflt_product : str) (st : rstate)
           (o : ropts) (args answers : list str) : option (res unit * rstate) :=
  match cli_remove o args with
  | Usage => None
  | Call force k => Some (remove_x xall keep fuel ww wu (mkRC flavor dflt_product force) st k answers)
  end.
