(* C03 - Version Resolution Order: read-only database view, Eups.selectVRO, Eups.findProductFromVRO,
   Eups._findTaggedProduct, _findLatestProduct, _findProductsByExpr, _selectPreferredProduct and the
   flavor / acceptance loops of Eups.setup (python/eups/Eups.py of the pinned tree, with the two C03
   repairs proposed in /verif/proposed_fixes applied: the entry path is compared as a whole word, and the
   per-instance product memo is keyed by the stack as well).
   Executable definitions only; no proofs here.  The specification lives in Model/ResolveSpec.v. *)
From Eupsv Require Import Base.Base.

(* ------------------------------------------------------------------ the database view *)

(* one stack of EUPS_PATH: its version records (name, version, flavor) and its chain entries
   (name, flavor, tag, version).  The first chain entry for (name, flavor, tag) is the one in force. *)
Record stackv := mkStack {
  st_id : str;
  st_decl : list (str * str * str);
  st_chain : list (str * str * str * str) }.

(* stacks in EUPS_PATH order *)
Definition dbv := list stackv.

(* a product as returned by a lookup: where it lives and what it is *)
Record found := mkFound { fd_stack : str; fd_name : str; fd_version : str; fd_flavor : str }.

Definition found_eqb (a b : found) : bool :=
  str_eqb (fd_stack a) (fd_stack b) && str_eqb (fd_name a) (fd_name b) &&
  str_eqb (fd_version a) (fd_version b) && str_eqb (fd_flavor a) (fd_flavor b).

Definition decl_is (n v f : str) (d : str * str * str) : bool :=
  match d with (n', v', f') => str_eqb n n' && str_eqb v v' && str_eqb f f' end.

(* the version file of n v exists in stack s and has a group for flavor f *)
Definition declared (s : stackv) (n v f : str) : bool := existsb (decl_is n v f) (st_decl s).

(* versions of n declared for flavor f in stack s, in listing order *)
Fixpoint versions_of (l : list (str * str * str)) (n f : str) : list str :=
  match l with
  | [] => []
  | (n', v', f') :: r =>
      if str_eqb n n' && str_eqb f f' then v' :: versions_of r n f else versions_of r n f
  end.
Definition versions_in (s : stackv) (n f : str) : list str := versions_of (st_decl s) n f.

(* ChainFile.getVersion: the version the chain of tag t names for flavor f *)
Fixpoint chain_lookup (l : list (str * str * str * str)) (n f t : str) : option str :=
  match l with
  | [] => None
  | (n', f', t', v') :: r =>
      if str_eqb n n' && str_eqb f f' && str_eqb t t' then Some v' else chain_lookup r n f t
  end.
Definition chain_version (s : stackv) (n f t : str) : option str := chain_lookup (st_chain s) n f t.

Definition found_in (s : stackv) (n v f : str) : found := mkFound (st_id s) n v f.

(* ------------------------------------------------------------------ VRO entries *)

Inductive entry :=
| EKeep | ECommandLine | EVersion | EVersionBang | EVersionExpr | EPath
| EType (s : str)          (* type:s *)
| EWarn (n : nat)          (* warn:n; a bare warn is read as warn:1, as selectVRO rewrites it *)
| ETag (t : str).          (* anything else: a tag name (or an unrecognised word) *)

Definition all_digits (x : str) : bool := nonempty x && forallb is_digit x.

Fixpoint nat_of_digits_acc (x : str) (acc : nat) : nat :=
  match x with
  | [] => acc
  | c :: r => nat_of_digits_acc r (10 * acc + (nat_of_ascii c - 48))
  end.
Definition nat_of_digits (x : str) : nat := nat_of_digits_acc x 0.

Fixpoint digits_fuel (fuel n : nat) (acc : str) : str :=
  match fuel with
  | 0 => acc
  | S k =>
      let d := ascii_of_nat (48 + Nat.modulo n 10) in
      if n <? 10 then d :: acc else digits_fuel k (Nat.div n 10) (d :: acc)
  end.
Definition nat_dec (n : nat) : str := digits_fuel (S n) n [].

Definition parse_entry (s : str) : entry :=
  if str_eqb s (lit "keep") then EKeep
  else if str_eqb s (lit "commandLine") then ECommandLine
  else if str_eqb s (lit "version") then EVersion
  else if str_eqb s (lit "version!") then EVersionBang
  else if str_eqb s (lit "versionExpr") then EVersionExpr
  else if str_eqb s (lit "path") then EPath
  else if str_eqb s (lit "warn") then EWarn 1
  else if starts_with (lit "type:") s && nonempty (skipn 5 s) then EType (skipn 5 s)
  else if starts_with (lit "warn:") s && all_digits (skipn 5 s) then EWarn (nat_of_digits (skipn 5 s))
  else ETag s.

Definition entry_str (e : entry) : str :=
  match e with
  | EKeep => lit "keep" | ECommandLine => lit "commandLine" | EVersion => lit "version"
  | EVersionBang => lit "version!" | EVersionExpr => lit "versionExpr" | EPath => lit "path"
  | EType s => lit "type:" ++ s
  | EWarn n => lit "warn:" ++ nat_dec n
  | ETag t => t
  end.

Definition entry_eqb (a b : entry) : bool :=
  match a, b with
  | EKeep, EKeep | ECommandLine, ECommandLine | EVersion, EVersion
  | EVersionBang, EVersionBang | EVersionExpr, EVersionExpr | EPath, EPath => true
  | EType s, EType s' => str_eqb s s'
  | EWarn n, EWarn n' => Nat.eqb n n'
  | ETag t, ETag t' => str_eqb t t'
  | _, _ => false
  end.

Fixpoint mem_entry (e : entry) (l : list entry) : bool :=
  match l with [] => false | x :: r => if entry_eqb e x then true else mem_entry e r end.

(* python list.index: position of the first occurrence *)
Fixpoint index_of (e : entry) (l : list entry) : option nat :=
  match l with
  | [] => None
  | x :: r => if entry_eqb e x then Some 0
              else match index_of e r with Some i => Some (S i) | None => None end
  end.

Definition is_version_like (e : entry) : bool :=
  match e with EVersion | EVersionBang | EVersionExpr => true | _ => false end.

(* the word before the first colon (python: split at the colon, first part) *)
Definition entry_base (e : entry) : str :=
  match e with
  | EType _ => lit "type"
  | EWarn _ => lit "warn"
  | ETag t => match split_on ":"%char t with h :: _ => h | [] => t end
  | _ => entry_str e
  end.

(* ------------------------------------------------------------------ configuration *)

(* what selectVRO and the walk read from hooks.config.Eups and from the tag registry built by
   Eups.__init__; the shipped values are in Generated/Config.v *)
Record config := mkConfig {
  cfg_vro : list (str * list str);   (* hooks.config.Eups.VRO: key -> entries (the value split at blanks) *)
  cfg_preferred : list str;          (* hooks.config.Eups.preferredTags *)
  cfg_global : list str;             (* global tags: hooks globalTags and the built-in latest *)
  cfg_user : list str;               (* user tags (the user name is always one) *)
  cfg_pseudo : list str }.           (* pseudo tags: commandLine keep path setup type version ... *)

(* Tags.isRecognized for an unqualified word; qualified names (user:x) are outside the model *)
Definition recognized (c : config) (t : str) : bool :=
  negb (mem_ascii ":"%char t) && mem_str t (cfg_global c ++ cfg_user c ++ cfg_pseudo c).

Definition global_or_user (c : config) (t : str) : bool := mem_str t (cfg_global c ++ cfg_user c).

(* ------------------------------------------------------------------ selectVRO *)

Record opts := mkOpts {
  o_keep : bool;              (* --keep *)
  o_exact : bool;             (* --exact (Eups(exact_version=True)) *)
  o_inexact : bool;           (* --inexact *)
  o_tags : list str;          (* -t, in command-line order *)
  o_posttags : list str;      (* -T *)
  o_productdir : bool;        (* -r given *)
  o_vnamed : bool }.          (* a version was named on the command line *)

(* position after the last entry satisfying p; acc when there is none *)
Fixpoint where_after (p : entry -> bool) (l : list entry) (i : nat) (acc : option nat) : option nat :=
  match l with
  | [] => acc
  | e :: r => where_after p r (S i) (if p e then Some (S i) else acc)
  end.

Definition insert_at (w : nat) (xs l : list entry) : list entry := firstn w l ++ xs ++ skipn w l.

Definition is_cmdline_or_type (e : entry) : bool :=
  match e with ECommandLine | EType _ => true | _ => false end.

(* removal of duplicates; warnings may repeat *)
Fixpoint dedupe (seen : list entry) (l : list entry) : list entry :=
  match l with
  | [] => []
  | e :: r =>
      if mem_entry e seen then dedupe seen r
      else match e with
           | EWarn _ => e :: dedupe seen r
           | _ => e :: dedupe (e :: seen) r
           end
  end.

(* Eups.__mergeWarnings: a run of consecutive warn:n becomes warn:min *)
Definition flush_warn (cur : option nat) : list entry :=
  match cur with Some m => [EWarn m] | None => [] end.
Fixpoint merge_warn (cur : option nat) (l : list entry) : list entry :=
  match l with
  | [] => flush_warn cur
  | EWarn n :: r => merge_warn (Some (match cur with Some m => Nat.min m n | None => n end)) r
  | e :: r => flush_warn cur ++ e :: merge_warn None r
  end.

(* python: re.search of ^warn:[01] - the decimal level starts with 0 or 1 *)
Definition warn_lead01 (e : entry) : bool :=
  match e with
  | EWarn n => match nat_dec n with c :: _ => (nat_of_ascii c =? 48) || (nat_of_ascii c =? 49) | [] => false end
  | _ => false
  end.

(* Eups.makeVroExact: global and user tags that were not named with -t (and unrecognised words) move
   to the end *)
Fixpoint exact_split (c : config) (cmdline : list str) (l : list entry)
         (kept moved : list entry) (did_move : bool) : list entry * list entry * bool :=
  match l with
  | [] => (kept, moved, did_move)
  | v :: r =>
      let v0 := entry_base v in
      if negb (recognized c v0) || (negb (mem_str v0 cmdline) && global_or_user c v0)
      then exact_split c cmdline r kept (if mem_entry v moved then moved else moved ++ [v]) did_move
      else exact_split c cmdline r (kept ++ [v]) moved (match moved with [] => did_move | _ => true end)
  end.

Definition make_exact (c : config) (cmdline : list str) (l : list entry) : list entry :=
  match exact_split c cmdline l [] [] false with
  | (kept, [], _) => kept
  | (kept, moved, did_move) =>
      (if did_move && negb (existsb warn_lead01 kept) then kept ++ [EWarn 1] else kept) ++ moved
  end.

(* Eups._kindlySetPreferredTags (not strict): unsupported words are dropped - and when there is one,
   so is every entry that is not a recognised word as a whole (type:exact, warn:1); an empty result
   leaves the previous list in place *)
Definition base_recognized (c : config) (e : entry) : bool := recognized c (entry_base e).
Definition whole_recognized (c : config) (e : entry) : bool :=
  match e with EType _ | EWarn _ => false | _ => recognized c (entry_str e) end.

Definition kindly_set (c : config) (l old : list entry) : list entry :=
  let tags := if forallb (base_recognized c) l then l
              else filter (whole_recognized c) (filter (base_recognized c) l) in
  match tags with [] => old | _ => tags end.

(* getPreferredTags() of a fresh Eups, before selectVRO *)
Definition initial_preferred (c : config) : list entry :=
  kindly_set c (map parse_entry (cfg_preferred c)) [].

Definition remove_type_exact (l : list entry) : list entry :=
  filter (fun e => negb (entry_eqb e (EType (lit "exact")))) l.

(* Eups.selectVRO (no --vro, no -z dictionaries); the result is getVRO() = getPreferredTags() afterwards *)
Definition select_vro (c : config) (o : opts) : res (list entry) :=
  let key0 :=
    match find (fun t => amem t (cfg_vro c)) (o_tags o) with
    | Some t => t
    | None => if o_productdir o then lit "path" else if o_vnamed o then lit "commandLine" else lit "default"
    end in
  let key := if amem key0 (cfg_vro c) then Some key0
             else if amem (lit "default") (cfg_vro c) then Some (lit "default") else None in
  match key with
  | None => Err Crash                                   (* RuntimeError: unable to look up the VRO *)
  | Some k =>
      let base := match alookup k (cfg_vro c) with Some l => map parse_entry l | None => [] end in
      let v1 := if o_keep o then EKeep :: base else base in
      let pre := map parse_entry (o_tags o) in
      let w1 := match where_after is_cmdline_or_type v1 0 None with Some w => w | None => 0 end in
      let v2 := match pre with [] => v1 | _ => insert_at w1 pre v1 end in
      let post := map parse_entry (o_posttags o) in
      let r3 :=
        match post with
        | [] => Ok v2
        | _ => match where_after is_version_like v2 0 None with
               | Some w => Ok (insert_at w post v2)
               | None => match pre with
                         | [] => Err Crash              (* UnboundLocalError: where *)
                         | _ => Ok (insert_at w1 post v2)
                         end
               end
        end in
      match r3 with
      | Err e => Err e
      | Ok v3 =>
          let v4 := merge_warn None (dedupe [] v3) in
          let v5 := if o_exact o then make_exact c (o_tags o) v4 else v4 in
          let v6 := if o_inexact o then remove_type_exact v5 else v5 in
          Ok (kindly_set c v6 (initial_preferred c))
      end
  end.

(* ------------------------------------------------------------------ requests *)

(* what findProductFromVRO is asked: name, version (a name, or a relational expression, or nothing)
   and the optional bracketed expression of a table file line *)
Record request := mkRequest { rq_name : str; rq_version : option str; rq_expr : option str }.

Fixpoint has_eqeq (x : str) : bool :=
  match x with
  | a :: ((b :: _) as r) => (ascii_eqb a "="%char && ascii_eqb b "="%char) || has_eqeq r
  | _ => false
  end.

(* Eups.isLegalRelativeVersion: the text contains one of  <  <=  >  >=  ==  *)
Definition is_expr (x : str) : bool :=
  mem_ascii "<"%char x || mem_ascii ">"%char x || has_eqeq x.

(* python truthiness of an optional string *)
Definition truthy (o : option str) : option str :=
  match o with Some (c :: r) => Some (c :: r) | _ => None end.

(* why a product was chosen: the VRO word and, for version entries, the version or expression *)
Definition reason := (entry * option str)%type.

(* ------------------------------------------------------------------ look-ups *)

Section Lookups.
  (* hooks.version_cmp and Eups.version_match are modelled by C10; here they are parameters *)
  Variable vcmp : str -> str -> comparison.
  Variable vmatch : str -> str -> bool.      (* version, expression text *)

  (* first stack on the path declaring n v for flavor f *)
  Fixpoint find_version (db : dbv) (n v f : str) : option found :=
    match db with
    | [] => None
    | s :: r => if declared s n v f then Some (found_in s n v f) else find_version r n v f
    end.

  (* Eups._findTaggedProduct for an ordinary tag: first stack whose chain has the flavor and whose
     version record exists *)
  Fixpoint find_chain_tagged (db : dbv) (n t f : str) : option found :=
    match db with
    | [] => None
    | s :: r =>
        match chain_version s n f t with
        | Some v => if declared s n v f then Some (found_in s n v f) else find_chain_tagged r n t f
        | None => find_chain_tagged r n t f
        end
    end.

  (* python: vers.sort(version_cmp); vers[-1] - the last of the greatest elements *)
  Definition last_max (l : list str) : option str :=
    match l with
    | [] => None
    | x :: r => Some (fold_left (fun best y => match vcmp y best with Lt => best | _ => y end) r x)
    end.

  Definition stack_latest (s : stackv) (n f : str) : option found :=
    match last_max (versions_in s n f) with
    | Some v => Some (found_in s n v f)
    | None => None
    end.

  (* Eups._findLatestProduct: the latest of each stack; a later stack wins only when strictly newer *)
  Fixpoint find_latest_from (out : option found) (db : dbv) (n f : str) : option found :=
    match db with
    | [] => out
    | s :: r =>
        match stack_latest s n f with
        | None => find_latest_from out r n f
        | Some l =>
            match out with
            | None => find_latest_from (Some l) r n f
            | Some o =>
                match vcmp (fd_version l) (fd_version o) with
                | Gt => find_latest_from (Some l) r n f
                | _ => find_latest_from out r n f
                end
            end
        end
    end.
  Definition find_latest (db : dbv) (n f : str) : option found := find_latest_from None db n f.

  (* Eups._findProductsByExpr: matching versions of every stack, a version name counted once *)
  Fixpoint add_new (s : stackv) (n f : str) (vs : list str) (out : list found) : list found :=
    match vs with
    | [] => out
    | v :: r =>
        if existsb (fun p => str_eqb (fd_version p) v) out then add_new s n f r out
        else add_new s n f r (out ++ [found_in s n v f])
    end.
  Fixpoint find_by_expr_from (out : list found) (db : dbv) (n x f : str) : list found :=
    match db with
    | [] => out
    | s :: r =>
        find_by_expr_from (add_new s n f (filter (fun v => vmatch v x) (versions_in s n f)) out) r n x f
    end.
  Definition find_by_expr (db : dbv) (n x f : str) : list found := find_by_expr_from [] db n x f.

  (* Eups._selectPreferredProduct(products, [latest]) *)
  Definition select_latest (cands : list found) : option found :=
    match last_max (map fd_version cands) with
    | None => None
    | Some v => find (fun p => str_eqb (fd_version p) v) cands
    end.

  (* Eups._findTaggedProduct *)
  Definition find_tagged (db : dbv) (n t f : str) : option found :=
    if str_eqb t (lit "latest") then find_latest db n f
    else if str_eqb t (lit "setup") then None          (* the environment is not part of this model *)
    else find_chain_tagged db n t f.

  (* ---------------------------------------------------------------- findProductFromVRO *)

  Inductive step :=
  | Continue
  | Stop (r : option (found * reason)).      (* break, with or without a product *)

  Definition tag_step (db : dbv) (n f : str) (e : entry) (t : str) : step :=
    match find_tagged db n t f with
    | Some p => Stop (Some (p, (e, None)))
    | None => Continue
    end.

  (* the search for an explicitly named version that ends the version / version! / versionExpr branch *)
  Definition explicit_step (db : dbv) (n v f : str) (depth : nat) (later : list entry) : step :=
    match find_version db n v f with
    | Some p => Stop (Some (p, ((if depth =? 0 then ECommandLine else EVersion), Some v)))
    | None => if existsb is_version_like later then Continue else Stop None
    end.

  Definition version_step (db : dbv) (rq : request) (f : str) (depth : nat)
             (e : entry) (later : list entry) : step :=
    match truthy (rq_version rq) with
    | None => Continue
    | Some v =>
        let n := rq_name rq in
        if is_expr v && negb (entry_eqb e EVersionExpr) then
          if mem_entry EVersionExpr later then Continue else Stop None
        else
          let vexpr := if is_expr v then Some v else truthy (rq_expr rq) in
          match (if entry_eqb e EVersionExpr then vexpr else None) with
          | Some x =>
              if is_expr x then
                match select_latest (find_by_expr db n x f) with
                | Some p => Stop (Some (p, (EVersionExpr, Some x)))
                | None => explicit_step db n v f depth later
                end
              else explicit_step db n v f depth later
          | None => explicit_step db n v f depth later
          end
    end.

  (* one iteration of the loop over the VRO.  prev = alreadySetupProducts.get(name) *)
  Definition vro_step (c : config) (db : dbv) (prev : option (found * option reason))
             (rq : request) (f : str) (depth : nat) (e : entry) (later : list entry) : step :=
    match e with
    | EPath => Continue
    | EKeep =>
        if 0 <? depth then
          match prev with
          | Some (p, _) => Stop (Some (p, (EKeep, None)))
          | None => Continue
          end
        else if recognized c (lit "keep") then tag_step db (rq_name rq) f e (lit "keep") else Continue
    | ECommandLine =>
        match prev with
        | Some (p, Some (ECommandLine, x)) => Stop (Some (p, (ECommandLine, x)))
        | _ => Continue
        end
    | EVersion | EVersionBang | EVersionExpr => version_step db rq f depth e later
    | EWarn _ => Continue
    | ETag t => if recognized c t then tag_step db (rq_name rq) f e t else Continue
    | EType _ => Continue
    end.

  (* the loop: the product, the reason, and the entry at which the loop stopped *)
  Fixpoint vro_loop (c : config) (db : dbv) (prev : option (found * option reason))
           (rq : request) (f : str) (depth : nat) (l : list entry) : option (found * reason * entry) :=
    match l with
    | [] => None
    | e :: later =>
        match vro_step c db prev rq f depth e later with
        | Continue => vro_loop c db prev rq f depth later
        | Stop (Some (p, r)) => Some (p, r, e)
        | Stop None => None
        end
    end.

  Definition gt_index (a b : option nat) : bool :=
    match a, b with Some i, Some j => j <? i | _, _ => false end.

  (* Eups.findProductFromVRO(name, version, versionExpr, flavor, recursionDepth, vro) *)
  Definition find_from_vro (c : config) (db : dbv) (prev : option (found * option reason))
             (f : str) (depth : nat) (vro : list entry) (rq : request) : option (found * reason) :=
    match vro_loop c db prev rq f depth vro with
    | None => None
    | Some (p, r, e0) =>
        match prev with
        | Some (op, Some (otag, ox)) =>
            (* an earlier choice made through a better-ranked entry stands *)
            if mem_entry otag vro && gt_index (index_of e0 vro) (index_of otag vro)
            then Some (op, (otag, ox)) else Some (p, r)
        | _ => Some (p, r)
        end
    end.

  (* ---------------------------------------------------------------- the loops of Eups.setup *)

  Definition opt_str_eqb (a : str) (b : option str) : bool :=
    match b with Some x => str_eqb a x | None => false end.

  (* the while loop: walk; fall back on what is already set up; at the top level insist on an
     explicitly named version and resume after the entry that gave another one *)
  Fixpoint accept_loop (fuel : nat) (c : config) (db : dbv) (keep : bool)
           (prev : option (found * option reason)) (f : str) (depth : nat)
           (vro : list entry) (rq : request) : res (option (found * option reason)) :=
    match fuel with
    | 0 => Err OutOfFuel
    | S k =>
        match vro with
        | [] => Ok None
        | _ =>
            let cand : option (found * option reason) :=
              match find_from_vro c db prev f depth vro rq with
              | Some (p, r) => Some (p, Some r)
              | None =>
                  match prev with
                  | Some (op, _) =>
                      if keep || opt_str_eqb (fd_version op) (rq_version rq) then Some (op, None) else None
                  | None => None
                  end
              end in
            match cand with
            | None => Ok None
            | Some (p, r) =>
                match truthy (rq_version rq) with
                | Some v =>
                    if (depth =? 0) && negb (is_expr v) && negb (str_eqb (fd_version p) v) then
                      match r with
                      | None => Err Crash                       (* TypeError: vroReason is None *)
                      | Some (tag, _) =>
                          match index_of tag vro with
                          | None => Err Crash                   (* ValueError *)
                          | Some i => accept_loop k c db keep prev f depth (skipn (S i) vro) rq
                          end
                      end
                    else Ok (Some (p, r))
                | None => Ok (Some (p, r))
                end
            end
        end
    end.

  Fixpoint flavor_loop (c : config) (db : dbv) (keep : bool) (prev : option (found * option reason))
           (flavors : list str) (depth : nat) (vro : list entry) (rq : request)
    : res (option (found * option reason)) :=
    match flavors with
    | [] => Ok None
    | f :: fs =>
        match accept_loop (S (length vro)) c db keep prev f depth vro rq with
        | Err e => Err e
        | Ok (Some x) => Ok (Some x)
        | Ok None => flavor_loop c db keep prev fs depth vro rq
        end
    end.

  (* the resolution part of Eups.setup(name, version, versionExpr, recursionDepth) in forward mode:
     flavors = the native flavor followed by its fallbacks; vro = getPreferredTags() *)
  Definition resolve_request (c : config) (db : dbv) (keep : bool)
             (prev : option (found * option reason)) (flavors : list str) (depth : nat)
             (vro : list entry) (rq : request) : res (option (found * option reason)) :=
    flavor_loop c db keep prev flavors depth vro rq.
End Lookups.

(* the behaviour of the unrepaired walk: an entry that is a substring of the word path (p, a, t, h, pa,
   at, th, pat, ath, the empty word) is skipped like path itself, because the code tests
   membership in a parenthesised string, not in a one-element tuple.  Skipping an entry and replacing it by
   path are the same thing, so the pinned walk is the repaired walk on the VRO rewritten by this map. *)
Fixpoint is_infix (x y : str) : bool :=
  starts_with x y || match y with [] => false | _ :: r => is_infix x r end.
Definition pinned_path_quirk (e : entry) : entry :=
  match e with ETag t => if is_infix t (lit "path") then EPath else e | _ => e end.

(* ------------------------------------------------------------------ a simple comparator *)

(* dotted numeric names (1.0, 1.10, 2.0.1): compared component by component as numbers, a proper
   prefix is older.  Used for extraction and examples only; the real comparator is the subject of C10. *)
Definition digits_only (x : str) : str := filter is_digit x.
Definition vparts (v : str) : list nat := map (fun p => nat_of_digits (digits_only p)) (split_on "."%char v).

Fixpoint cmp_parts (a b : list nat) : comparison :=
  match a, b with
  | [], [] => Eq
  | [], _ :: _ => Lt
  | _ :: _, [] => Gt
  | x :: a', y :: b' => match Nat.compare x y with Eq => cmp_parts a' b' | c => c end
  end.
Definition vcmp_simple (a b : str) : comparison := cmp_parts (vparts a) (vparts b).

Fixpoint drop_spaces (x : str) : str :=
  match x with c :: r => if is_space c then drop_spaces r else x | [] => [] end.
Definition strip (x : str) : str := rev (drop_spaces (rev (drop_spaces x))).

(* one relational term:  op version  with op among  <  <=  ==  >=  > *)
Definition vmatch_simple (v x : str) : bool :=
  let x := strip x in
  let c := fun w => vcmp_simple v (strip w) in
  match x with
  | "<"%char :: "="%char :: w => match c w with Gt => false | _ => true end
  | ">"%char :: "="%char :: w => match c w with Lt => false | _ => true end
  | "="%char :: "="%char :: w => match c w with Eq => true | _ => false end
  | "<"%char :: w => match c w with Lt => true | _ => false end
  | ">"%char :: w => match c w with Gt => true | _ => false end
  | _ => false
  end.
