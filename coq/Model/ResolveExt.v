(* C03, extension - the parts of the resolution that Model/Resolve.v leaves out:

     user tags      a tag of the user group: Database.getChainFile looks in the product directory of the stack
                    first and, for a user tag, in the directory that holds the user's assignments for that stack
                    (EUPS_USERDATA/_caches_/stack/product/tag.chain) next;
     --vro          Eups(vro=words): Eups.selectVRO with userVRO set - the words are the VRO, -t is refused,
                    keep is still put in front, -T tags are still inserted after the last version-like entry
                    (and raise when there is none), duplicates and warnings are still cleaned, makeVroExact and
                    --inexact are skipped, _kindlySetPreferredTags still filters;
     LOCAL:         findProductFromVRO: a named version LOCAL:dir that no stack declares yields a product made from
                    the directory when the directory exists (reason: path from version; commandLine at depth 0);
                    -r dir selects the VRO under the key path; the entry path is passed over;
     tag files      a VRO word that names a file (Eups._kindlySetPreferredTags keeps the words file:name and name
                    when the file exists; findProductFromVRO asks os.path.isfile before it asks the tag registry):
                    Eups._findTaggedProductFromFile reads lines  product version ...  and the version of the first
                    line for the product is looked up as an explicit version; when no stack declares it the walk
                    RAISES (RuntimeError; there is no --force in this model).

   Not modelled here (the model answers Err Undefined): setupRequired(...) lines of a tag file, a tag file that
   names a relational expression or a LOCAL: version, the tilde in file:~/name.
   Executable definitions only; no proofs here.  The specification is at the end. *)
From Eupsv Require Import Base.Base Model.Resolve Model.ResolveSpec.

(* ------------------------------------------------------------------ the database view with the user's tags *)

(* one stack: what Model/Resolve.v knows of it, and the chain entries (name, flavor, tag, version) found in the
   user's tag directory for this stack *)
Record stackx := mkStackx { sx_base : stackv; sx_user : list (str * str * str * str) }.
Definition dbx := list stackx.
Definition base_db (d : dbx) : dbv := map sx_base d.

(* Tag.isUser for the tag the registry returns for the word t *)
Definition is_user_tag (c : config) (t : str) : bool := mem_str t (cfg_user c).

(* the chain file  tag.chain  exists in a product directory: some entry (for any flavor) came from it *)
Definition chain_file_is (n t : str) (x : str * str * str * str) : bool :=
  match x with (n', _, t', _) => str_eqb n n' && str_eqb t t' end.
Definition has_chain_file (l : list (str * str * str * str)) (n t : str) : bool := existsb (chain_file_is n t) l.

(* Database.getTaggedVersion(tag, name, flavor, searchUserDB=True): getChainFile returns the file of the stack when
   it exists (whatever flavors it holds); otherwise, for a user tag, the file of the user's directory *)
Definition chain_version_x (c : config) (sx : stackx) (n f t : str) : option str :=
  if has_chain_file (st_chain (sx_base sx)) n t then chain_version (sx_base sx) n f t
  else if is_user_tag c t then chain_lookup (sx_user sx) n f t
  else None.

(* Eups._findTaggedProduct for an ordinary or a user tag *)
Fixpoint find_chain_tagged_x (c : config) (d : dbx) (n t f : str) : option found :=
  match d with
  | [] => None
  | sx :: r =>
      match chain_version_x c sx n f t with
      | Some v => if declared (sx_base sx) n v f then Some (found_in (sx_base sx) n v f)
                  else find_chain_tagged_x c r n t f
      | None => find_chain_tagged_x c r n t f
      end
  end.

(* the same stacks seen by Model/Resolve.v: the user's entries that can be reached (the tag is a user tag and the
   stack has no chain file of that name for the product) are appended to the chain of the stack *)
Definition reachable_user (c : config) (own : list (str * str * str * str)) (x : str * str * str * str) : bool :=
  match x with (n, _, t, _) => is_user_tag c t && negb (has_chain_file own n t) end.
Definition flat_stack (c : config) (sx : stackx) : stackv :=
  mkStack (st_id (sx_base sx)) (st_decl (sx_base sx))
          (st_chain (sx_base sx) ++ filter (reachable_user c (st_chain (sx_base sx))) (sx_user sx)).
Definition flatten (c : config) (d : dbx) : dbv := map (flat_stack c) d.

(* ------------------------------------------------------------------ the world of one command *)

(* the stacks, the directories that exist (for LOCAL: versions) and the files that VRO words may name, with their
   lines *)
Record world := mkWorld { w_db : dbx; w_dirs : list str; w_files : list (str * list str) }.

Definition is_file (files : list (str * list str)) (x : str) : bool := amem x files.

(* ------------------------------------------------------------------ tag files *)

Fixpoint drop_while (p : ascii -> bool) (x : str) : str :=
  match x with c :: r => if p c then drop_while p r else x | [] => [] end.

Definition is_bar_or_space (ch : ascii) : bool := is_space ch || ascii_eqb ch "|"%char.

(* python: re.sub of leading bars and blanks, then of trailing blanks *)
Definition tf_clean (line : str) : str :=
  rev (drop_while is_space (rev (drop_while is_bar_or_space line))).

(* python: str.split() - the maximal runs of non-blank characters *)
Fixpoint ws_fields_acc (x cur : str) : list str :=
  match x with
  | [] => match cur with [] => [] | _ => [rev cur] end
  | ch :: r =>
      if is_space ch then match cur with [] => ws_fields_acc r [] | _ => rev cur :: ws_fields_acc r [] end
      else ws_fields_acc r (ch :: cur)
  end.
Definition ws_fields (x : str) : list str := ws_fields_acc x [].

(* the version the file names for product n: the first line  n version ...;  empty lines and comments are passed
   over, a line with one field raises TagNotRecognized, setupRequired lines are outside the model *)
Fixpoint tf_lookup (lines : list str) (n : str) : res (option str) :=
  match lines with
  | [] => Ok None
  | l :: r =>
      match tf_clean l with
      | [] => tf_lookup r n
      | ch :: l' =>
          if ascii_eqb ch "#"%char then tf_lookup r n
          else if starts_with (lit "setupRequired(") (ch :: l') then Err Undefined
          else match ws_fields (ch :: l') with
               | p :: v :: _ => if str_eqb p n then Ok (Some v) else tf_lookup r n
               | _ => Err Crash
               end
      end
  end.

Definition local_prefix : str := lit "LOCAL:".
Definition is_local (v : str) : bool := starts_with local_prefix v.
Definition local_dir (v : str) : str := skipn 6 v.

(* the product made for a LOCAL: version: it belongs to no stack and has no flavor *)
Definition local_found (n v : str) : found := mkFound [] n v [].

Section WalkX.
  Variable vcmp : str -> str -> comparison.
  Variable vmatch : str -> str -> bool.

  Definition find_tagged_x (c : config) (d : dbx) (n t f : str) : option found :=
    if str_eqb t (lit "latest") then find_latest vcmp (base_db d) n f
    else if str_eqb t (lit "setup") then None
    else find_chain_tagged_x c d n t f.

  Definition tag_step_x (c : config) (d : dbx) (n f : str) (e : entry) (t : str) : step :=
    match find_tagged_x c d n t f with
    | Some p => Stop (Some (p, (e, None)))
    | None => Continue
    end.

  (* Eups._findTaggedProductFromFile followed by vroReason = [vroTag, None] *)
  Definition file_step (w : world) (n f : str) (e : entry) (lines : list str) : res step :=
    match tf_lookup lines n with
    | Err k => Err k
    | Ok None => Ok Continue
    | Ok (Some v) =>
        if is_expr v then Err Undefined
        else match find_version (base_db (w_db w)) n v f with
             | Some p => Ok (Stop (Some (p, (e, None))))
             | None => if is_local v then Err Undefined else Err Crash     (* RuntimeError: Unable to find product *)
             end
    end.

  (* the search for an explicitly named version, with the LOCAL: case that follows it in the code *)
  Definition explicit_step_x (w : world) (n v f : str) (depth : nat) (later : list entry) : step :=
    match find_version (base_db (w_db w)) n v f with
    | Some p => Stop (Some (p, ((if depth =? 0 then ECommandLine else EVersion), Some v)))
    | None =>
        if is_local v && mem_str (local_dir v) (w_dirs w) then
          Stop (Some (local_found n v,
                      ((if depth =? 0 then ECommandLine else ETag (lit "path from version")), Some v)))
        else if existsb is_version_like later then Continue else Stop None
    end.

  Definition version_step_x (w : world) (rq : request) (f : str) (depth : nat)
             (e : entry) (later : list entry) : step :=
    match truthy (rq_version rq) with
    | None => Continue
    | Some v =>
        let n := rq_name rq in
        if is_expr v && negb (entry_eqb e EVersionExpr) then
          if mem_entry EVersionExpr later then Continue else Stop None
        else
          let vexpr := if is_expr v then Some v else truthy (rq_expr rq) in
          match (if entry_eqb e EVersionExpr then vexpr else None) with
          | Some x =>
              if is_expr x then
                match select_latest vcmp (find_by_expr vmatch (base_db (w_db w)) n x f) with
                | Some p => Stop (Some (p, (EVersionExpr, Some x)))
                | None => explicit_step_x w n v f depth later
                end
              else explicit_step_x w n v f depth later
          | None => explicit_step_x w n v f depth later
          end
    end.

  (* the branch  isRecognized(word) or isfile(word):  the file is asked first *)
  Definition word_step (c : config) (w : world) (n f : str) (e : entry) (word : str) (known : bool) : res step :=
    match alookup word (w_files w) with
    | Some lines => file_step w n f e lines
    | None => Ok (if known then tag_step_x c (w_db w) n f e word else Continue)
    end.

  (* one iteration of the loop of findProductFromVRO *)
  Definition vro_step_x (c : config) (w : world) (prev : option (found * option reason))
             (rq : request) (f : str) (depth : nat) (e : entry) (later : list entry) : res step :=
    match e with
    | EPath => Ok Continue
    | EKeep =>
        if 0 <? depth then
          Ok (match prev with
              | Some (p, _) => Stop (Some (p, (EKeep, None)))
              | None => Continue
              end)
        else word_step c w (rq_name rq) f e (lit "keep") (recognized c (lit "keep"))
    | ECommandLine =>
        Ok (match prev with
            | Some (p, Some (ECommandLine, x)) => Stop (Some (p, (ECommandLine, x)))
            | _ => Continue
            end)
    | EVersion | EVersionBang | EVersionExpr => Ok (version_step_x w rq f depth e later)
    | EWarn _ => Ok Continue
    | ETag t => word_step c w (rq_name rq) f e t (recognized c t)
    | EType _ => word_step c w (rq_name rq) f e (entry_str e) false
    end.

  Fixpoint vro_loop_x (c : config) (w : world) (prev : option (found * option reason))
           (rq : request) (f : str) (depth : nat) (l : list entry) : res (option (found * reason * entry)) :=
    match l with
    | [] => Ok None
    | e :: later =>
        match vro_step_x c w prev rq f depth e later with
        | Err k => Err k
        | Ok Continue => vro_loop_x c w prev rq f depth later
        | Ok (Stop (Some (p, r))) => Ok (Some (p, r, e))
        | Ok (Stop None) => Ok None
        end
    end.

  (* Eups.findProductFromVRO in a world with user tags, tag files and directories *)
  Definition find_from_vro_x (c : config) (w : world) (prev : option (found * option reason))
             (f : str) (depth : nat) (vro : list entry) (rq : request) : res (option (found * reason)) :=
    match vro_loop_x c w prev rq f depth vro with
    | Err k => Err k
    | Ok None => Ok None
    | Ok (Some (p, r, e0)) =>
        match prev with
        | Some (op, Some (otag, ox)) =>
            if mem_entry otag vro && gt_index (index_of e0 vro) (index_of otag vro)
            then Ok (Some (op, (otag, ox))) else Ok (Some (p, r))
        | _ => Ok (Some (p, r))
        end
    end.

  (* ---------------------------------------------------------------- the loops of Eups.setup over any walk *)

  Fixpoint accept_loop_g (walk : list entry -> res (option (found * reason))) (fuel : nat) (keep : bool)
           (prev : option (found * option reason)) (depth : nat) (vro : list entry) (rq : request)
    : res (option (found * option reason)) :=
    match fuel with
    | 0 => Err OutOfFuel
    | S k =>
        match vro with
        | [] => Ok None
        | _ =>
            match walk vro with
            | Err e => Err e
            | Ok found0 =>
                let cand : option (found * option reason) :=
                  match found0 with
                  | Some (p, r) => Some (p, Some r)
                  | None =>
                      match prev with
                      | Some (op, _) =>
                          if keep || opt_str_eqb (fd_version op) (rq_version rq) then Some (op, None) else None
                      | None => None
                      end
                  end in
                match cand with
                | None => Ok None
                | Some (p, r) =>
                    match truthy (rq_version rq) with
                    | Some v =>
                        if (depth =? 0) && negb (is_expr v) && negb (str_eqb (fd_version p) v) then
                          match r with
                          | None => Err Crash
                          | Some (tag, _) =>
                              match index_of tag vro with
                              | None => Err Crash
                              | Some i => accept_loop_g walk k keep prev depth (skipn (S i) vro) rq
                              end
                          end
                        else Ok (Some (p, r))
                    | None => Ok (Some (p, r))
                    end
                end
            end
        end
    end.

  Fixpoint flavor_loop_x (c : config) (w : world) (keep : bool) (prev : option (found * option reason))
           (flavors : list str) (depth : nat) (vro : list entry) (rq : request)
    : res (option (found * option reason)) :=
    match flavors with
    | [] => Ok None
    | f :: fs =>
        match accept_loop_g (fun l => find_from_vro_x c w prev f depth l rq) (S (length vro)) keep prev depth vro rq with
        | Err e => Err e
        | Ok (Some x) => Ok (Some x)
        | Ok None => flavor_loop_x c w keep prev fs depth vro rq
        end
    end.

  Definition resolve_request_x (c : config) (w : world) (keep : bool)
             (prev : option (found * option reason)) (flavors : list str) (depth : nat)
             (vro : list entry) (rq : request) : res (option (found * option reason)) :=
    flavor_loop_x c w keep prev flavors depth vro rq.
End WalkX.

(* ------------------------------------------------------------------ selectVRO with --vro and file words *)

(* Eups._kindlySetPreferredTags, word by word: file:name becomes name when the file exists; a word with a colon is
   judged by what stands before the colon; a plain word must be a registered tag or an existing file.
   None: the word goes to the list of unsupported words *)
Definition kindly_word (c : config) (files : list (str * list str)) (e : entry) : option entry :=
  match e with
  | ETag t =>
      if starts_with (lit "file:") t then
        (if is_file files (skipn 5 t) then Some (ETag (skipn 5 t)) else None)
      else if base_recognized c e then Some e
      else if negb (mem_ascii ":"%char t) && is_file files t then Some e
      else None
  | _ => if base_recognized c e then Some e else None
  end.

Fixpoint somes {A} (l : list (option A)) : list A :=
  match l with [] => [] | Some a :: r => a :: somes r | None :: r => somes r end.

Definition kindly_set_x (c : config) (files : list (str * list str)) (l old : list entry) : list entry :=
  let ks := map (kindly_word c files) l in
  let tags := if forallb (fun k => match k with Some _ => true | None => false end) ks then somes ks
              else filter (whole_recognized c) (somes ks) in
  match tags with [] => old | _ => tags end.

Definition initial_preferred_x (c : config) (files : list (str * list str)) : list entry :=
  kindly_set_x c files (map parse_entry (cfg_preferred c)) [].

(* Eups.makeVroExact with the repair proposed in proposed_fixes/C03-exact-keeps-tagfile.diff: a word named with -t
   stays where selectVRO put it, whether it is a registered tag or a tag file (listed under its whole name when it
   was given as file:name).  The pinned code protected registered tags only - Model/Resolve.v make_exact - and moved
   a tag file behind the version entries. *)
Fixpoint exact_split_x (c : config) (cmdline : list str) (l : list entry)
         (kept moved : list entry) (did_move : bool) : list entry * list entry * bool :=
  match l with
  | [] => (kept, moved, did_move)
  | v :: r =>
      let v0 := entry_base v in
      if negb (mem_str v0 cmdline || mem_str (entry_str v) cmdline) &&
         (negb (recognized c v0) || global_or_user c v0)
      then exact_split_x c cmdline r kept (if mem_entry v moved then moved else moved ++ [v]) did_move
      else exact_split_x c cmdline r (kept ++ [v]) moved (match moved with [] => did_move | _ => true end)
  end.

Definition make_exact_x (c : config) (cmdline : list str) (l : list entry) : list entry :=
  match exact_split_x c cmdline l [] [] false with
  | (kept, [], _) => kept
  | (kept, moved, did_move) =>
      (if did_move && negb (existsb warn_lead01 kept) then kept ++ [EWarn 1] else kept) ++ moved
  end.

(* Eups.selectVRO.  uservro = the words of --vro (Eups(vro=...)); None or no word: the configured VRO *)
Definition select_vro_x (c : config) (files : list (str * list str)) (o : opts) (uservro : option (list str))
  : res (list entry) :=
  match uservro with
  | Some (w0 :: ws) =>
      match o_tags o with
      | _ :: _ => Err Crash                 (* RuntimeError: both a commandline VRO and a commandline tag *)
      | [] =>
          let base := map parse_entry (w0 :: ws) in
          let v1 := if o_keep o then EKeep :: base else base in
          let post := map parse_entry (o_posttags o) in
          let r3 :=
            match post with
            | [] => Ok v1
            | _ => match where_after is_version_like v1 0 None with
                   | Some w => Ok (insert_at w post v1)
                   | None => Err Crash      (* UnboundLocalError: where *)
                   end
            end in
          match r3 with
          | Err e => Err e
          | Ok v3 => Ok (kindly_set_x c files (merge_warn None (dedupe [] v3)) (initial_preferred_x c files))
          end
      end
  | _ =>
      let key0 :=
        match find (fun t => amem t (cfg_vro c)) (o_tags o) with
        | Some t => t
        | None => if o_productdir o then lit "path" else if o_vnamed o then lit "commandLine" else lit "default"
        end in
      let key := if amem key0 (cfg_vro c) then Some key0
                 else if amem (lit "default") (cfg_vro c) then Some (lit "default") else None in
      match key with
      | None => Err Crash
      | Some k =>
          let base := match alookup k (cfg_vro c) with Some l => map parse_entry l | None => [] end in
          let v1 := if o_keep o then EKeep :: base else base in
          let pre := map parse_entry (o_tags o) in
          let w1 := match where_after is_cmdline_or_type v1 0 None with Some w => w | None => 0 end in
          let v2 := match pre with [] => v1 | _ => insert_at w1 pre v1 end in
          let post := map parse_entry (o_posttags o) in
          let r3 :=
            match post with
            | [] => Ok v2
            | _ => match where_after is_version_like v2 0 None with
                   | Some w => Ok (insert_at w post v2)
                   | None => match pre with
                             | [] => Err Crash
                             | _ => Ok (insert_at w1 post v2)
                             end
                   end
            end in
          match r3 with
          | Err e => Err e
          | Ok v3 =>
              let v4 := merge_warn None (dedupe [] v3) in
              let v5 := if o_exact o then make_exact_x c (o_tags o) v4 else v4 in
              let v6 := if o_inexact o then remove_type_exact v5 else v5 in
              Ok (kindly_set_x c files v6 (initial_preferred_x c files))
          end
      end
  end.

(* the last act of Eups.selectVRO is findProductFromVRO of the empty product name (to exercise the type: entries):
   it finds nothing, but it reads every tag file on the VRO, and a malformed line raises there *)
Definition select_vro_w (vcmp : str -> str -> comparison) (vmatch : str -> str -> bool)
           (c : config) (w : world) (o : opts) (uservro : option (list str)) (f : str) : res (list entry) :=
  match select_vro_x c (w_files w) o uservro with
  | Err k => Err k
  | Ok vro =>
      match find_from_vro_x vcmp vmatch c w None f 0 vro (mkRequest [] None None) with
      | Err k => Err k
      | Ok _ => Ok vro
      end
  end.

(* ------------------------------------------------------------------ the designation rule, extended *)
(* Written from the property text and the item list, not from the code:
     - a tag entry that is a user tag yields the version the tag names in the first stack on the path for which the
       user's tag directory (or, when the stack itself holds a chain file of that name, that file) names a version
       whose record exists in that stack for the flavor;
     - an entry that names a file yields the version the file lists for the product, taken from the first stack
       declaring it; when the file lists the product and no stack declares that version the walk fails hard
       (an error, not a fall through to later entries); when the file does not list the product the entry is
       passed over;
     - a request that names LOCAL:dir and that no stack declares is answered from the directory when it exists;
       otherwise it fails like any other named version;
     - everything else as in Model/ResolveSpec.v. *)
Section SpecX.
  Variable vcmp : str -> str -> comparison.
  Variable vmatch : str -> str -> bool.

  Definition tag_designates_x (c : config) (d : dbx) (n t f : str) : option found :=
    first_some (fun sx => match chain_version_x c sx n f t with
                          | Some v => if declared (sx_base sx) n v f then Some (found_in (sx_base sx) n v f) else None
                          | None => None
                          end) d.

  (* the named version: from the first stack declaring it, else from the directory of a LOCAL: name *)
  Definition named_designates_x (w : world) (n v f : str) : option found :=
    match version_designates (base_db (w_db w)) n v f with
    | Some p => Some p
    | None => if is_local v && mem_str (local_dir v) (w_dirs w) then Some (local_found n v) else None
    end.

  Definition file_clause (w : world) (n f : str) (lines : list str) : res outcome :=
    match tf_lookup lines n with
    | Err k => Err k
    | Ok None => Ok Next
    | Ok (Some v) =>
        if is_expr v then Err Undefined
        else match version_designates (base_db (w_db w)) n v f with
             | Some p => Ok (Yield p)
             | None => if is_local v then Err Undefined else Err Crash
             end
    end.

  Definition word_clause (c : config) (w : world) (n f : str) (word : str) (known : bool) : res outcome :=
    match alookup word (w_files w) with
    | Some lines => file_clause w n f lines
    | None =>
        Ok (if known then
              if str_eqb word (lit "latest") then of_option (highest vcmp (candidates (base_db (w_db w)) n f))
              else if str_eqb word (lit "setup") then Next
              else of_option (tag_designates_x c (w_db w) n word f)
            else Next)
    end.

  Definition clause_x (c : config) (w : world) (n : str) (vr : vrequest) (f : str)
             (e : entry) (later : list entry) : res outcome :=
    let db := base_db (w_db w) in
    match e with
    | ETag t => word_clause c w n f t (recognized c t)
    | EType _ => word_clause c w n f (entry_str e) false
    | EVersion | EVersionBang =>
        Ok (match vr with
            | Bare => Next
            | Rel _ => if mem_entry EVersionExpr later then Next else Fail
            | Named v _ => or_fail (named_designates_x w n v f) later
            end)
    | EVersionExpr =>
        Ok (match vr with
            | Bare => Next
            | Rel x => or_fail (expr_designates vcmp vmatch db n x f) later
            | Named v ox =>
                match (match ox with Some x => expr_designates vcmp vmatch db n x f | None => None end) with
                | Some p => Yield p
                | None => or_fail (named_designates_x w n v f) later
                end
            end)
    | EKeep | ECommandLine | EPath | EWarn _ => Ok Next
    end.

  Fixpoint designates_in_x (c : config) (w : world) (n : str) (vr : vrequest) (f : str)
           (vro : list entry) : res (option found) :=
    match vro with
    | [] => Ok None
    | e :: later =>
        match clause_x c w n vr f e later with
        | Err k => Err k
        | Ok (Yield p) => Ok (Some p)
        | Ok Fail => Ok None
        | Ok Next => designates_in_x c w n vr f later
        end
    end.
End SpecX.

(* hypotheses: the stacks are well formed as in Model/ResolveSpec.v and the user's directory holds no chain file
   named keep (keep is a pseudo tag; eups refuses to assign it) *)
Definition wf_dbx (d : dbx) : bool :=
  wf_db (base_db d) && forallb (fun sx => negb (existsb (chain_tag_is (lit "keep")) (sx_user sx))) d.

(* a world with stacks only *)
Definition plain_world (d : dbx) : world := mkWorld d [] [].

Definition res_map {A B} (g : A -> B) (r : res A) : res B :=
  match r with Ok a => Ok (g a) | Err k => Err k end.
