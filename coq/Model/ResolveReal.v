(* C03 + C10 (and the composed setup model of C01 / C02 / C04): the version resolver of Model/Resolve.v and the
   composed request of Model/SetupFull.v with the comparator and the matcher of Model/VersionCompare.v in the
   place of the parameters vcmp / vmatch - hooks.version_cmp as Eups._findLatestProduct, _selectPreferredProduct
   and the sort calls use it (sorting mode), Eups.version_match as _findProductsByExpr uses it.

   The resolver takes total functions; the comparison of C10 can fail (a name that starts with a sign makes
   _splitVersion raise, a relational operator at the very end of an expression makes version_match raise).
   real_domain says when no call the resolver can make fails; outside it the instantiated resolver answers
   Err Undefined and the harness counts the case instead of comparing it.

   Second half: what the resolver does with distinct names that compare equal (1.0 / 1_0 / 1.00 / 01.0 are one
   key), written down independently of the code of the look-ups:
     latest      the first stack on the path that holds a greatest name wins; inside it the LAST greatest name
                 in listing order (python: stable sort, then the last element)
     expression  the matching names are collected along the path, a name counted once at its first appearance;
                 the LAST greatest of that list wins - so a LATER stack wins a tie between different
                 spellings - and the product returned is the first declaration of that name
   (listing order: Database.findProducts sorts the version files of a product as strings; the cache keeps the
   order in which it met them - see the header of Proofs/ResolveReal.v.)
   Executable definitions only. *)
From Eupsv Require Import Base.Base Model.VersionCompare Model.VersionKey Model.PathAlg Model.Setup
     Model.Resolve Model.ResolveSpec Model.SetupFull.

(* ------------------------------------------------------------------ the comparator and the matcher of C10 *)

(* hooks.version_cmp(a, b) as a total function: the sign; an exception reads as Eq (excluded by real_domain) *)
Definition vcmp_real (a b : str) : comparison :=
  match version_cmp a b with Ok c => c | Err _ => Eq end.

(* Eups.version_match(v, expr) is true; an exception reads as no match (excluded by real_domain) *)
Definition vmatch_real (v x : str) : bool :=
  match version_match v x with Ok b => b | Err _ => false end.

(* every comparison of v against the expression x is defined *)
Definition expr_defined (x : str) (vs : list str) : bool :=
  forallb (fun v => match version_match v x with Ok _ => true | Err _ => false end) vs.

Definition opt_expr_defined (o : option str) (vs : list str) : bool :=
  match o with
  | Some x => if Resolve.is_expr x then expr_defined x vs else true
  | None => true
  end.

(* the requests for which no comparison the resolver makes can raise: every name declared for the product
   is accepted by C10, and the expressions of the request evaluate against each of them *)
Definition real_domain (db : dbv) (rq : request) : bool :=
  let vs := names_of db (rq_name rq) in
  forallb accepts vs && opt_expr_defined (rq_version rq) vs && opt_expr_defined (rq_expr rq) vs.

(* ------------------------------------------------------------------ the resolver of C03 with them *)

Definition find_from_vro_real := find_from_vro vcmp_real vmatch_real.
Definition designates_in_real := designates_in vcmp_real vmatch_real.
Definition designates_real := designates vcmp_real vmatch_real.

Definition resolve_real (c : Resolve.config) (db : dbv) (keep : bool) (prev : option (found * option reason))
           (flavors : list str) (depth : nat) (vro : list entry) (rq : request)
  : res (option (found * option reason)) :=
  if real_domain db rq then resolve_request vcmp_real vmatch_real c db keep prev flavors depth vro rq
  else Err Undefined.

Definition walk_real (c : Resolve.config) (db : dbv) (prev : option (found * option reason))
           (f : str) (depth : nat) (vro : list entry) (rq : request) : res (option (found * reason)) :=
  if real_domain db rq then Ok (find_from_vro vcmp_real vmatch_real c db prev f depth vro rq)
  else Err Undefined.

(* ------------------------------------------------------------------ hypotheses on version names *)

(* a comparator that is reflexive, whose answer flips with its arguments, and whose not-greater is transitive:
   total_order_on of Model/ResolveSpec.v without the clause  equal -> same name *)
Definition total_preorder_on (vcmp : str -> str -> comparison) (l : list str) : Prop :=
  (forall x, In x l -> vcmp x x = Eq) /\
  (forall x y, In x l -> In y l -> vcmp y x = CompOpp (vcmp x y)) /\
  (forall x y z, In x l -> In y l -> In z l -> vcmp x y <> Gt -> vcmp y z <> Gt -> vcmp x z <> Gt).

(* conventional names (C10: conv), no two of them spelling the same key *)
Definition key_injectiveb (l : list str) : bool :=
  forallb (fun x => forallb (fun y =>
    match key_compare (key x) (key y) with Eq => str_eqb x y | _ => true end) l) l.
Definition conv_names (l : list str) : bool := forallb conv l.
Definition real_names_ok (l : list str) : bool := conv_names l && key_injectiveb l.

(* ------------------------------------------------------------------ ties: which of several greatest names *)

(* v is a greatest element of l *)
Definition is_max (vcmp : str -> str -> comparison) (l : list str) (v : str) : bool :=
  forallb (fun w => match vcmp w v with Gt => false | _ => true end) l.

(* the last greatest element of s, greatest being judged against all of l *)
Definition last_greatest (vcmp : str -> str -> comparison) (l s : list str) : option str :=
  find (is_max vcmp l) (rev s).

(* the tag latest *)
Definition latest_tie (vcmp : str -> str -> comparison) (db : dbv) (n f : str) : option found :=
  let all := map fd_version (candidates db n f) in
  first_some (fun s => match last_greatest vcmp all (versions_in s n f) with
                       | Some v => Some (found_in s n v f)
                       | None => None
                       end) db.

(* a relational expression *)
Definition expr_tie (vcmp : str -> str -> comparison) (vmatch : str -> str -> bool)
           (db : dbv) (n x f : str) : option found :=
  let m := filter (fun p => vmatch (fd_version p) x) (candidates db n f) in
  let names := uniq (map fd_version m) in
  match last_greatest vcmp names names with
  | Some v => find (fun p => str_eqb (fd_version p) v) m
  | None => None
  end.

(* ------------------------------------------------------------------ the composed request of C01 / C02 / C04 *)

Definition request_full_real := request_full vcmp_real vmatch_real.
Definition setup_full_real := setup_full vcmp_real vmatch_real.

Definition info_exprs (li : lineinfo) : list str :=
  (match li_version li with Some v => if Resolve.is_expr v then [v] else [] | None => [] end) ++
  (match li_expr li with Some x => if Resolve.is_expr x then [x] else [] | None => [] end).

(* every declared version is accepted by C10 and every expression of a table line (and of the command line)
   evaluates against every declared version *)
Definition full_domain (fw : fworld) (version : option str) : bool :=
  let vs := map p_version (fw_products fw) in
  forallb accepts vs &&
  forallb (fun x => expr_defined x vs)
          (flat_map (fun e => flat_map info_exprs (snd e)) (fw_lines fw) ++
           info_exprs {| li_version := version; li_expr := None |}).

Definition request_full_real_checked (fw : fworld) (cfg : Setup.config) (rc : Resolve.config) (flavors : list str)
           (fuel : nat) (st : state) (name : str) (version : option str) (fwd just : bool)
  : res (option state * list decision) :=
  if full_domain fw version then request_full_real fw cfg rc flavors fuel st name version fwd just
  else Err Undefined.

(* the version names of every product of the world are conventional and no two of one product spell the same key *)
Definition fw_real_ok (cfg : Setup.config) (fw : fworld) : bool :=
  forallb (fun n => real_names_ok (names_of (db_of cfg fw) n)) (map p_name (fw_products fw)).

(* ------------------------------------------------------------------ one stack whose listings are sorted *)

(* Database.findProducts lists the version files of a product sorted as strings.  In ONE stack with such listings the
   rule - the last of the greatest names - is: the greatest in the order of C10 refined, among spellings of one key, by
   the order of the strings; that refined order is a total order on conventional names whatever their spelling. *)
Definition vcmp_sorted (a b : str) : comparison :=
  match vcmp_real a b with Eq => str_compare a b | c => c end.

Fixpoint str_sorted (l : list str) : bool :=
  match l with
  | a :: ((b :: _) as r) => (match str_compare a b with Lt => true | _ => false end) && str_sorted r
  | _ => true
  end.

(* every listing (per product and flavor) of every stack is strictly increasing *)
Definition db_sorted (db : dbv) : bool :=
  forallb (fun s => forallb (fun d => match d with (n, _, f) => str_sorted (versions_in s n f) end) (st_decl s)) db.

Definition fw_conv (fw : fworld) : bool := forallb conv (map p_version (fw_products fw)).
