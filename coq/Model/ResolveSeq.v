(* C03 - histories: the database view changes between two resolutions put to one long-lived Eups instance.

   The resolver of Model/Resolve.v is a function of the database view.  The code keeps per-instance state
   (the product cache self.versions, memos) between calls, and the calls that change the database go through the
   same instance: Eups.assignTag, Eups.unassignTag, Eups.declare, Eups.undeclare (python/eups/Eups.py) on top of
   Database.assignTag / unassignTag / declare / undeclare (python/eups/db/Database.py).  This file models their
   effect on the view, for the flavor of the instance (the first of its flavor list), so that a history
      resolve, change, resolve, ...
   can be stated: every answer is the resolver applied to the view as it is after the changes made so far.

   A call that raises or refuses (product not found, tag not assigned) leaves the view as it was.
   Executable definitions only; no proofs here. *)
From Eupsv Require Import Base.Base Model.Resolve.

(* ------------------------------------------------------------------ updates of one stack *)

Definition chain_key_is (n f t : str) (x : str * str * str * str) : bool :=
  match x with (n', f', t', _) => str_eqb n n' && str_eqb f f' && str_eqb t t' end.

(* ChainFile.removeVersion(flavor) and write: the tag names nothing for this product and flavor *)
Definition drop_chain (s : stackv) (n f t : str) : stackv :=
  mkStack (st_id s) (st_decl s) (filter (fun x => negb (chain_key_is n f t x)) (st_chain s)).

(* ChainFile.setVersion(version, [flavor]) and write: the tag names v, whatever it named before *)
Definition set_chain (s : stackv) (n f t v : str) : stackv :=
  mkStack (st_id s) (st_decl s) ((n, f, t, v) :: filter (fun x => negb (chain_key_is n f t x)) (st_chain s)).

(* VersionFile.addFlavor and write *)
Definition add_decl (s : stackv) (n v f : str) : stackv :=
  if declared s n v f then s else mkStack (st_id s) (st_decl s ++ [(n, v, f)]) (st_chain s).

Definition opt_is (v : str) (o : option str) : bool :=
  match o with Some x => str_eqb v x | None => false end.

(* Database.undeclare: every tag that names this version for the flavor is unassigned for the flavor, then the
   flavor leaves the version file *)
Definition undeclare_in (s : stackv) (n v f : str) : stackv :=
  mkStack (st_id s)
          (filter (fun d => negb (decl_is n v f d)) (st_decl s))
          (filter (fun x => match x with
                            | (n', f', t', _) =>
                                negb (str_eqb n n' && str_eqb f f' && opt_is v (chain_lookup (st_chain s) n f t'))
                            end) (st_chain s)).

(* the tag names a version of the product whose record exists in this stack: Eups.findTaggedProduct(n, t, stack) *)
Definition carries (s : stackv) (n f t : str) : bool :=
  match chain_version s n f t with Some v => declared s n v f | None => false end.

(* ------------------------------------------------------------------ the calls *)

(* the first stack on the path satisfying p is replaced by its image; None when there is none *)
Fixpoint update_first (p : stackv -> bool) (g : stackv -> stackv) (db : dbv) : option dbv :=
  match db with
  | [] => None
  | s :: r => if p s then Some (g s :: r)
              else match update_first p g r with Some r' => Some (s :: r') | None => None end
  end.

Definition or_unchanged (db : dbv) (o : option dbv) : dbv := match o with Some d => d | None => db end.

(* an optional stack argument (eupsPathDir) restricts the search to that stack *)
Definition in_stack (st : option str) (s : stackv) : bool :=
  match st with None => true | Some i => str_eqb (st_id s) i end.

Inductive mut :=
| MAssign (t n v : str) (st : option str)                  (* Eups.assignTag(t, n, v, st) *)
| MUnassign (t n : str) (v : option str) (st : option str)  (* Eups.unassignTag(t, n, v, st) *)
| MDeclare (n v st : str) (t : option str)                 (* Eups.declare(n, v, none, st, none, tag=t) *)
| MUndeclare (n v : str) (st : option str).                (* Eups.undeclare(n, v, st) *)

(* no version of the product is known for any flavor of the instance: Eups.findProducts(n) is empty *)
Definition unknown_product (flavors : list str) (db : dbv) (n : str) : bool :=
  forallb (fun s => forallb (fun fl => match versions_in s n fl with [] => true | _ => false end) flavors) db.

(* the flavor of the instance: the first of its flavor list *)
Definition hd_flavor (flavors : list str) : str := match flavors with x :: _ => x | [] => [] end.

Definition apply_mut (flavors : list str) (db : dbv) (m : mut) : dbv :=
  let f := hd_flavor flavors in
  match m with
  | MAssign t n v st =>
      (* getProduct(n, v, st): the first stack declaring n v for the flavor; the tag is written there *)
      or_unchanged db (update_first (fun s => in_stack st s && declared s n v f)
                                    (fun s => set_chain s n f t v) db)
  | MUnassign t n (Some v) st =>
      (* findProduct(n, v, st); nothing happens unless that product carries the tag *)
      or_unchanged db (update_first (fun s => in_stack st s && declared s n v f)
                                    (fun s => if opt_is v (chain_version s n f t) then drop_chain s n f t else s) db)
  | MUnassign t n None None =>
      (* findProduct(n, tag): the first stack in which the tag names an existing version *)
      or_unchanged db (update_first (fun s => carries s n f t) (fun s => drop_chain s n f t) db)
  | MUnassign t n None (Some i) =>
      or_unchanged db (update_first (fun s => str_eqb (st_id s) i) (fun s => drop_chain s n f t) db)
  | MDeclare n v i ot =>
      if existsb (fun s => str_eqb (st_id s) i) db then
        (* the first version ever declared of a product becomes current *)
        let ot := match ot with
                  | Some t => Some t
                  | None => if unknown_product flavors db n then Some (lit "current") else None
                  end in
        match ot with
        | None => map (fun s => if str_eqb (st_id s) i then add_decl s n v f else s) db
        | Some t =>
            (* the tag is assigned in the stack of the declaration and removed from every other stack in which
               it names an existing version *)
            map (fun s => if str_eqb (st_id s) i then set_chain (add_decl s n v f) n f t v
                          else if carries s n f t then drop_chain s n f t else s) db
        end
      else db
  | MUndeclare n v st =>
      or_unchanged db (update_first (fun s => in_stack st s && declared s n v f)
                                    (fun s => undeclare_in s n v f) db)
  end.

(* the view after a list of changes, oldest first *)
Definition view_after (flavors : list str) (db : dbv) (ms : list mut) : dbv :=
  fold_left (apply_mut flavors) ms db.

(* ------------------------------------------------------------------ histories *)

Section History.
  Variable vcmp : str -> str -> comparison.
  Variable vmatch : str -> str -> bool.

  (* what a long-lived instance is asked between two changes *)
  Inductive question :=
  | QWalk (f : str) (depth : nat) (rq : request)          (* findProductFromVRO *)
  | QTagged (n t f : str)                                 (* findTaggedProduct *)
  | QVersion (n v f : str)                                (* findProduct(n, v) *)
  | QSetup (keep : bool) (depth : nat) (rq : request).    (* the resolution part of Eups.setup *)

  Inductive answer :=
  | AWalk (r : option (found * reason))
  | AFound (r : option found)
  | ASetup (r : res (option (found * option reason))).

  Definition answer_on (c : config) (flavors : list str) (vro : list entry) (db : dbv) (q : question) : answer :=
    match q with
    | QWalk f depth rq => AWalk (find_from_vro vcmp vmatch c db None f depth vro rq)
    | QTagged n t f => AFound (find_tagged vcmp db n t f)
    | QVersion n v f => AFound (find_version db n v f)
    | QSetup keep depth rq => ASetup (resolve_request vcmp vmatch c db keep None flavors depth vro rq)
    end.

  Inductive event := Ask (q : question) | Change (m : mut).

  (* the answers of a history put to one instance, in order: each is given on the view as it is then *)
  Fixpoint run_history (c : config) (flavors : list str) (vro : list entry) (db : dbv) (h : list event)
    : list answer :=
    match h with
    | [] => []
    | Ask q :: r => answer_on c flavors vro db q :: run_history c flavors vro db r
    | Change m :: r => run_history c flavors vro (apply_mut flavors db m) r
    end.

  Fixpoint changes_of (h : list event) : list mut :=
    match h with
    | [] => []
    | Ask _ :: r => changes_of r
    | Change m :: r => m :: changes_of r
    end.
End History.

(* ------------------------------------------------------------------ sessions: several live instances *)

(* One process may hold several Eups objects at a time, each built for its own flavor (Eups(flavor=...)) and with its
   own options (selectVRO).  What an instance may look at is its own flavor followed by the configured fallbacks of
   that flavor (utils.Flavor.getFallbackFlavors(self.flavor, includeMe=True)): a list that belongs to the instance.
   Building another instance - whatever its flavor - changes neither the database nor that list.  A session is a
   sequence of constructions and questions; every question is answered from the view and the asked instance's own
   flavor list and VRO. *)
Section Sessions.
  Variable vcmp : str -> str -> comparison.
  Variable vmatch : str -> str -> bool.

  Record instance := mkInst { i_flavors : list str; i_vro : list entry }.

  Inductive sevent :=
  | SBuild (k : nat)                      (* instance number k of the session is constructed *)
  | SAsk (k : nat) (q : question).        (* a question put to instance number k *)

  (* the answers of a session, each with the number of the instance that gave it *)
  Fixpoint run_session (c : config) (insts : list instance) (db : dbv) (h : list sevent) : list (nat * answer) :=
    match h with
    | [] => []
    | SBuild _ :: r => run_session c insts db r
    | SAsk k q :: r =>
        match nth_error insts k with
        | Some i => (k, answer_on vcmp vmatch c (i_flavors i) (i_vro i) db q) :: run_session c insts db r
        | None => run_session c insts db r
        end
    end.

  (* the questions put to instance k, in order *)
  Fixpoint asks_of (k : nat) (h : list sevent) : list question :=
    match h with
    | [] => []
    | SBuild _ :: r => asks_of k r
    | SAsk j q :: r => if Nat.eqb j k then q :: asks_of k r else asks_of k r
    end.

  Definition answers_to (k : nat) (l : list (nat * answer)) : list answer :=
    map snd (filter (fun x => Nat.eqb (fst x) k) l).
End Sessions.
