(* C03 - the designation rule, written from the property text (DESIGN.md, C03, Spec.), not from the code.

   Reading the VRO from left to right for one flavor:
     - a tag entry yields the version the tag names in the first stack on the path whose chain has the
       flavor and whose version record exists; the tag latest yields the highest declared version over
       all stacks, the earlier stack winning a tie;
     - a version entry is skipped when no version is named, yields the named version from the first
       stack declaring it, and otherwise ends the walk in failure unless a later version-like entry
       can still apply; when an expression is named instead, it defers to a later versionExpr entry
       and fails if there is none;
     - a versionExpr entry is skipped when nothing is named, yields the highest declared version
       satisfying the expression over all stacks (ties to the earlier stack), else the explicitly named
       version, and otherwise ends the walk in failure;
     - commandLine, keep, path, type: and warn entries yield nothing for a product that has not been
       chosen before;
     - at depth 0 a result whose version differs from an explicitly named one is discarded and the
       walk resumes after the entry that produced it;
     - the whole walk is done for the native flavor first and for each fallback flavor only if it
       failed.
   Definitions only. *)
From Eupsv Require Import Base.Base Model.Resolve.

Section Spec.
  Variable vcmp : str -> str -> comparison.
  Variable vmatch : str -> str -> bool.

  (* what the request names *)
  Inductive vrequest :=
  | Bare                                   (* no version *)
  | Named (v : str) (x : option str)       (* an explicit version, perhaps with a bracketed expression *)
  | Rel (x : str).                         (* a relational expression *)

  Definition classify (rq : request) : vrequest :=
    match rq_version rq with
    | None | Some [] => Bare
    | Some v =>
        if is_expr v then Rel v
        else Named v (match rq_expr rq with
                      | Some x => if nonempty x && is_expr x then Some x else None
                      | None => None
                      end)
    end.

  Fixpoint first_some {A B} (g : A -> option B) (l : list A) : option B :=
    match l with
    | [] => None
    | a :: r => match g a with Some b => Some b | None => first_some g r end
    end.

  (* every declaration of n for flavor f, stacks in path order *)
  Definition candidates (db : dbv) (n f : str) : list found :=
    flat_map (fun s => map (fun v => found_in s n v f) (versions_in s n f)) db.

  (* the highest version of a candidate list; of equally high ones the earliest *)
  Definition higher (best p : found) : found :=
    match vcmp (fd_version p) (fd_version best) with Gt => p | _ => best end.
  Definition highest (l : list found) : option found :=
    match l with [] => None | p :: r => Some (fold_left higher r p) end.

  Definition tag_designates (db : dbv) (n t f : str) : option found :=
    first_some (fun s => match chain_version s n f t with
                         | Some v => if declared s n v f then Some (found_in s n v f) else None
                         | None => None
                         end) db.

  Definition version_designates (db : dbv) (n v f : str) : option found :=
    first_some (fun s => if declared s n v f then Some (found_in s n v f) else None) db.

  Definition expr_designates (db : dbv) (n x f : str) : option found :=
    highest (filter (fun p => vmatch (fd_version p) x) (candidates db n f)).

  Inductive outcome := Yield (p : found) | Fail | Next.

  Definition of_option (o : option found) : outcome :=
    match o with Some p => Yield p | None => Next end.

  Definition or_fail (o : option found) (later : list entry) : outcome :=
    match o with
    | Some p => Yield p
    | None => if existsb is_version_like later then Next else Fail
    end.

  (* one clause per entry kind *)
  Definition clause (c : config) (db : dbv) (n : str) (vr : vrequest) (f : str)
             (e : entry) (later : list entry) : outcome :=
    match e with
    | ETag t =>
        if recognized c t then
          if str_eqb t (lit "latest") then of_option (highest (candidates db n f))
          else if str_eqb t (lit "setup") then Next
          else of_option (tag_designates db n t f)
        else Next
    | EVersion | EVersionBang =>
        match vr with
        | Bare => Next
        | Rel _ => if mem_entry EVersionExpr later then Next else Fail
        | Named v _ => or_fail (version_designates db n v f) later
        end
    | EVersionExpr =>
        match vr with
        | Bare => Next
        | Rel x => or_fail (expr_designates db n x f) later
        | Named v ox =>
            match (match ox with Some x => expr_designates db n x f | None => None end) with
            | Some p => Yield p
            | None => or_fail (version_designates db n v f) later
            end
        end
    | EKeep | ECommandLine | EPath | EType _ | EWarn _ => Next
    end.

  (* the plain walk for one flavor *)
  Fixpoint designates_in (c : config) (db : dbv) (n : str) (vr : vrequest) (f : str)
           (vro : list entry) : option found :=
    match vro with
    | [] => None
    | e :: later =>
        match clause c db n vr f e later with
        | Yield p => Some p
        | Fail => None
        | Next => designates_in c db n vr f later
        end
    end.

  (* is the product acceptable to a top-level request *)
  Definition acceptable (vr : vrequest) (depth : nat) (p : found) : bool :=
    match vr with
    | Named v _ => negb (depth =? 0) || str_eqb (fd_version p) v
    | _ => true
    end.

  (* the walk with the top-level rule: an unacceptable result is discarded and the walk resumes after
     the entry that produced it *)
  Fixpoint designates_top (c : config) (db : dbv) (n : str) (vr : vrequest) (f : str) (depth : nat)
           (vro : list entry) : option found :=
    match vro with
    | [] => None
    | e :: later =>
        match clause c db n vr f e later with
        | Yield p => if acceptable vr depth p then Some p else designates_top c db n vr f depth later
        | Fail => None
        | Next => designates_top c db n vr f depth later
        end
    end.

  (* native flavor first, each fallback only after a failure *)
  Definition designates (c : config) (db : dbv) (flavors : list str) (depth : nat)
             (vro : list entry) (rq : request) : option found :=
    first_some (fun f => designates_top c db (rq_name rq) (classify rq) f depth vro) flavors.
End Spec.

(* ------------------------------------------------------------------ hypotheses of the theorems *)

(* version names are not themselves relational expressions, and no chain file carries the name of the
   pseudo tag keep (eups refuses to assign reserved tags) *)
Definition chain_tag_is (t : str) (x : str * str * str * str) : bool :=
  match x with (_, _, t', _) => str_eqb t t' end.
Definition wf_stack (s : stackv) : bool :=
  forallb (fun d => match d with (_, v, _) => negb (is_expr v) end) (st_decl s) &&
  negb (existsb (chain_tag_is (lit "keep")) (st_chain s)).
Definition wf_db (db : dbv) : bool := forallb wf_stack db.

(* every version name of product n that the database declares, over all stacks and flavors *)
Definition names_of (db : dbv) (n : str) : list str :=
  flat_map (fun s => flat_map (fun d => match d with (n', v, _) => if str_eqb n n' then [v] else [] end)
                              (st_decl s)) db.

(* the comparator is a total order on a set of names: comparing equal means being the same name,
   swapping the arguments flips the answer, and not-greater is transitive *)
Definition total_order_on (vcmp : str -> str -> comparison) (l : list str) : Prop :=
  (forall x, In x l -> vcmp x x = Eq) /\
  (forall x y, In x l -> In y l -> vcmp x y = Eq -> x = y) /\
  (forall x y, In x l -> In y l -> vcmp y x = CompOpp (vcmp x y)) /\
  (forall x y z, In x l -> In y l -> In z l -> vcmp x y <> Gt -> vcmp y z <> Gt -> vcmp x z <> Gt).

(* a decidable form of total_order_on, for concrete name lists *)
Definition cmp_eqb (a b : comparison) : bool :=
  match a, b with Eq, Eq | Lt, Lt | Gt, Gt => true | _, _ => false end.
Definition total_orderb (vcmp : str -> str -> comparison) (l : list str) : bool :=
  forallb (fun x => cmp_eqb (vcmp x x) Eq) l &&
  forallb (fun x => forallb (fun y =>
    (match vcmp x y with Eq => str_eqb x y | _ => true end) &&
    cmp_eqb (vcmp y x) (CompOpp (vcmp x y))) l) l &&
  forallb (fun x => forallb (fun y => forallb (fun z =>
    cmp_eqb (vcmp x y) Gt || cmp_eqb (vcmp y z) Gt || negb (cmp_eqb (vcmp x z) Gt)) l) l) l.

(* entries that never produce a product that has not been chosen before *)
Definition is_inert (e : entry) : bool :=
  match e with EKeep | ECommandLine | EPath | EType _ | EWarn _ => true | _ => false end.
