(* C11 - small, total building blocks that model the uses of python's re module made by
   VersionParser.py and table.py (re.sub of a pattern that never matches the empty string,
   anchored prefix tests, greedy final-delimiter search).  Executable definitions only. *)
From Eupsv Require Import Base.Base.

(* python \s on ASCII text: 9-13, 28-31, 32 (files are assumed to be ASCII) *)
Definition is_pyspace (c : ascii) : bool :=
  let n := nat_of_ascii c in is_space c || ((28 <=? n) && (n <=? 31)).

Definition chr (n : nat) : ascii := ascii_of_nat n.
Definition c_dq : ascii := chr 34.       (* double quote *)
Definition c_sq : ascii := chr 39.       (* single quote *)
Definition c_sp : ascii := chr 32.
Definition c_comma : ascii := chr 44.
Definition c_lp : ascii := chr 40.
Definition c_rp : ascii := chr 41.
Definition c_lb : ascii := chr 123.      (* left brace *)
Definition c_rb : ascii := chr 125.      (* right brace *)
Definition c_semi : ascii := chr 59.
Definition c_hash : ascii := chr 35.
Definition c_bsl : ascii := chr 92.
Definition c_nl : ascii := chr 10.
Definition c_eq : ascii := chr 61.
Definition c_dollar : ascii := chr 36.
Definition c_colon : ascii := chr 58.
Definition c_01 : ascii := chr 1.
Definition c_02 : ascii := chr 2.
Definition c_03 : ascii := chr 3.

Definition is_c (x c : ascii) : bool := ascii_eqb c x.

(* re.sub(pattern, repl, s) for a pattern that cannot match the empty string:
   [m suffix] says whether the pattern matches at the start of the suffix and if so
   returns the replacement text and (length of the match - 1); the scan resumes after
   the match, otherwise the character is copied and the scan moves on by one. *)
Fixpoint scan (m : str -> option (str * nat)) (skip : nat) (s : str) : str :=
  match s with
  | [] => []
  | c :: r =>
      match skip with
      | S k => scan m k r
      | O => match m s with
             | Some (out, n) => out ++ scan m n r
             | None => c :: scan m 0 r
             end
      end
  end.

Definition resub (m : str -> option (str * nat)) (s : str) : str := scan m 0 s.

(* longest prefix of characters satisfying p, and the rest *)
Fixpoint span (p : ascii -> bool) (s : str) : str * str :=
  match s with
  | [] => ([], [])
  | c :: r => if p c then let '(a, b) := span p r in (c :: a, b) else ([], s)
  end.

Fixpoint drop_while (p : ascii -> bool) (s : str) : str :=
  match s with
  | [] => []
  | c :: r => if p c then drop_while p r else s
  end.

Definition drop_ws (s : str) : str := drop_while is_pyspace s.
Definition all_ws (s : str) : bool := forallb is_pyspace s.

(* split at the LAST occurrence of c: a greedy dot-star group followed by a literal c *)
Fixpoint split_last (c : ascii) (s : str) : option (str * str) :=
  match s with
  | [] => None
  | x :: r =>
      match split_last c r with
      | Some (a, b) => Some (x :: a, b)
      | None => if ascii_eqb x c then Some ([], r) else None
      end
  end.

(* case-insensitive literal prefix (pattern letters given in lower case): the rest *)
Fixpoint ci_prefix (p s : str) : option str :=
  match p, s with
  | [], _ => Some s
  | a :: p', b :: s' => if ascii_eqb a (lower_ascii b) then ci_prefix p' s' else None
  | _ :: _, [] => None
  end.

(* case-sensitive literal prefix: the rest *)
Fixpoint cs_prefix (p s : str) : option str :=
  match p, s with
  | [], _ => Some s
  | a :: p', b :: s' => if ascii_eqb a b then cs_prefix p' s' else None
  | _ :: _, [] => None
  end.

(* python: s.replace(old, new) / re.sub of a literal, for a non-empty literal *)
Definition lit_match (old new : str) (s : str) : option (str * nat) :=
  match old with
  | [] => None
  | _ :: _ => match cs_prefix old s with
              | Some _ => Some (new, length old - 1)
              | None => None
              end
  end.
Definition replace_all (old new s : str) : str := resub (lit_match old new) s.

(* re.sub of the pattern ^dq dot-star dq$ by its group (dq = the double quote), on a string without newlines *)
Definition strip_dq (s : str) : str :=
  match s with
  | q :: r =>
      if ascii_eqb q c_dq then
        match rev r with
        | q' :: m => if ascii_eqb q' c_dq then rev m else s
        | [] => s
        end
      else s
  | [] => s
  end.

(* char-wise re.sub of one character by another *)
Definition map_char (a b : ascii) (s : str) : str :=
  map (fun c => if ascii_eqb c a then b else c) s.

(* python: the non-empty pieces of re.split on a character class *)
Fixpoint split_set_go (p : ascii -> bool) (acc : str) (s : str) : list str :=
  match s with
  | [] => match acc with [] => [] | _ => [acc] end
  | c :: r =>
      if p c then match acc with [] => split_set_go p [] r | _ => acc :: split_set_go p [] r end
      else split_set_go p (acc ++ [c]) r
  end.
Definition split_set (p : ascii -> bool) (s : str) : list str := split_set_go p [] s.
