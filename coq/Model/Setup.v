(* Model of Eups.setup / unsetup (Eups.py 1755-2098), unsetupSetupProduct, findSetupProduct /
   findSetupVersion, and Action.execute / execute_setupRequired (table.py 762-1043) for C01, C02, C04.

   Scope: one stack, one flavor, declared products only (no setup -r, no --force, no tablefile
   override, no extra directories).  The *choice of version* (block B of DESIGN Appendix E.1:
   findProductFromVRO, the flavor loop, the top-level acceptance loop, the already-set-up
   fall-back) is not part of this model: it enters as a stream of decisions, one per forward
   call of setup, so that every theorem holds for every resolver; C03 models the resolver.
   Executable definitions only. *)
From Eupsv Require Import Base.Base Model.PathAlg.

Inductive action :=
| ASetup (optional : bool) (name : str) (just : bool)     (* setupRequired / setupOptional, -j flag *)
| APath (append : bool) (var value : str) (d : ascii)     (* envPrepend / envAppend, value already expanded for PRODUCT_DIR *)
| ASet (var value : str)                                  (* envSet *)
| AUnset (var : str)                                      (* envUnset *)
| AAlias (name value : str)                               (* addAlias *)
| ANone.                                                  (* print, prodDir, setupEnv, declareOptions *)

Record product := { p_name : str; p_version : str; p_dir : str; p_actions : list action }.
Definition world := list product.

Fixpoint find_pv (w : world) (name version : str) : option product :=
  match w with
  | [] => None
  | p :: w' => if str_eqb (p_name p) name && str_eqb (p_version p) version then Some p else find_pv w' name version
  end.

Record config := { c_flavor : str; c_root : str; c_max_depth : option nat;   (* None: max_depth = -1 *)
                   c_keep : bool;                                            (* --keep *)
                   c_flavors : list (str * str * str) }.   (* (name, version, flavor) of the products declared under
                                                              another flavor than c_flavor (the fall-back flavor generic) *)

(* the flavor a declared version was found under: what Eups.setup writes behind -f *)
Fixpoint flavor_in (l : list (str * str * str)) (name version : str) : option str :=
  match l with
  | [] => None
  | (n, v, f) :: l' => if str_eqb n name && str_eqb v version then Some f else flavor_in l' name version
  end.
Definition flavor_of (cfg : config) (name version : str) : str :=
  match flavor_in (c_flavors cfg) name version with Some f => f | None => c_flavor cfg end.

Record state := { s_env : amap str; s_aliases : amap str }.

Definition upper_ascii (c : ascii) : ascii :=
  if is_lower c then ascii_of_nat (nat_of_ascii c - 32) else c.
Definition upper_str (x : str) : str := map upper_ascii x.

Definition setup_var (name : str) : str := lit "SETUP_" ++ upper_str name.
Definition dir_var (name : str) : str := upper_str name ++ lit "_DIR".
Definition extra_var (name : str) : str := upper_str name ++ lit "_DIR_EXTRA".

Definition c_space : ascii := " "%char.

(* utils.encodePath: spaces become the marker -+- ; only used on the stack root *)
Fixpoint encode_path (x : str) : str :=
  match x with
  | [] => []
  | c :: r => if ascii_eqb c c_space then lit "-+-" ++ encode_path r else c :: encode_path r
  end.

(* "name version -f flavor -Z root" *)
Definition setup_string (cfg : config) (name version : str) : str :=
  name ++ [c_space] ++ version ++ lit " -f " ++ flavor_of cfg name version ++ lit " -Z " ++ encode_path (c_root cfg).

(* findSetupVersion: the version recorded in a SETUP_ value (python str.split(), second word
   unless it is -f; "setup" when absent) *)
Definition words (x : str) : list str := filter nonempty (split_on c_space x).
Definition recorded_version (value : str) : option str :=
  match words value with
  | [] => None
  | [_] => Some (lit "setup")
  | _ :: v :: _ => if str_eqb v (lit "-f") then Some (lit "setup") else Some v
  end.

(* Eups.findSetupProduct: the declared product that the environment says is set up *)
Definition find_setup_product (w : world) (e : amap str) (name : str) : option product :=
  match alookup (setup_var name) e with
  | None => None
  | Some value =>
      match recorded_version value with
      | None => None
      | Some v => find_pv w name v
      end
  end.

(* one decision per forward call: the version chosen for the requested name, or None = not found *)
Definition decision := option str.

Inductive result :=
| RDone (ok : bool) (st : state) (ds : list decision)
| RRaise (st : state) (ds : list decision)         (* a python exception propagates *)
| RFuel                                            (* out of fuel *)
| RBad.                                            (* the decision stream names an undeclared product / ran out *)

Definition set_env (st : state) (k v : str) : state := {| s_env := aset k v (s_env st); s_aliases := s_aliases st |}.
Definition unset_env (st : state) (k : str) : state := {| s_env := aremove k (s_env st); s_aliases := s_aliases st |}.
Definition with_env (st : state) (e : amap str) : state := {| s_env := e; s_aliases := s_aliases st |}.

(* the non-setup actions *)
Definition exec_simple (fwd : bool) (a : action) (st : state) : res state :=
  match a with
  | APath ap var v d =>
      match env_prepend ap fwd var v d (s_env st) with
      | Ok (Some e') => Ok (with_env st e')
      | Ok None => Ok st
      | Err x => Err x
      end
  | ASet k v =>
      match env_set fwd k v (s_env st) with
      | Ok (Some e') => Ok (with_env st e')
      | Ok None => Ok st
      | Err x => Err x
      end
  | AUnset k =>
      match env_unset fwd k (s_env st) with
      | Ok (Some e') => Ok (with_env st e')
      | Ok None => Ok st
      | Err x => Err x
      end
  | AAlias k v =>
      Ok {| s_env := s_env st; s_aliases := if fwd then aset k v (s_aliases st) else aremove k (s_aliases st) |}
  | _ => Ok st
  end.

Section Setup.
Variable w : world.
Variable cfg : config.

(* is a dependency action at child depth d cut off?  (Action.execute: noRecursion or
   recursionDepth == max_depth + 1) *)
Definition cut_off (just : bool) (child_depth : nat) : bool :=
  just || match c_max_depth cfg with
          | Some m => Nat.eqb child_depth (S m)
          | None => false
          end.

(* the type of Eups.setup as the actions see it *)
Definition setup_fn := state -> list decision -> str -> bool -> nat -> bool -> result.

(* the loop over the actions of a table (Eups.setup 2065-2072 with Action.execute and
   execute_setupRequired); [rec] is Eups.setup itself *)
Fixpoint run_actions (rec : setup_fn) (fwd : bool) (depth : nat) (just : bool)
                     (acts : list action) (st : state) (ds : list decision) : result :=
  match acts with
  | [] => RDone true st ds
  | a :: acts' =>
      match a with
      | ASetup optional nm jst =>
          if cut_off just (S depth) then run_actions rec fwd depth just acts' st ds else
          (* pushStack env saves the environment and the aliases; popStack env after a failure puts both back
             (the code after the fix: a failed dependency restores the aliases as well as the environment;
             before it the aliases defined below the failed dependency stayed): the loop goes on, or raises,
             from the state it had before the dependency *)
          match rec st ds nm fwd (S depth) jst with
          | RDone true st' ds' => run_actions rec fwd depth just acts' st' ds'
          | RDone false _ ds' =>
              if fwd && negb optional then RRaise st ds' else run_actions rec fwd depth just acts' st ds'
          | RRaise _ ds' =>
              if fwd && negb optional then RRaise st ds' else run_actions rec fwd depth just acts' st ds'
          | other => other
          end
      | _ =>
          match exec_simple fwd a st with
          | Ok st' => run_actions rec fwd depth just acts' st' ds
          | Err _ => RRaise st ds
          end
      end
  end.

(* is the product the environment records for this name the one being asked for?  (Eups.setup 1997-1998) *)
Definition same_product (p : product) (sprod : option product) : bool :=
  match sprod with
  | Some sp => nonempty (p_version sp) && nonempty (p_version p) &&
               (str_eqb (p_version p) (p_version sp) || str_eqb (p_dir p) (p_dir sp))
  | None => false
  end.

Definition set_product_vars (st : state) (name : str) (p : product) : state :=
  set_env (set_env st (dir_var name) (p_dir p)) (setup_var name) (setup_string cfg name (p_version p)).
Definition unset_product_vars (st : state) (name : str) : state :=
  unset_env (unset_env (unset_env st (dir_var name)) (setup_var name)) (extra_var name).

(* one level of Eups.setup, [rec] being the function for the nested calls *)
Definition setup_step (rec : setup_fn) (st : state) (ds : list decision)
                      (name : str) (fwd : bool) (depth : nat) (just : bool) : result :=
  if fwd then
    match ds with
    | [] => RBad
    | None :: ds1 => RDone false st ds1                       (* product not found *)
    | Some v :: ds1 =>
        match find_pv w name v with
        | None => RBad
        | Some p =>
            let sprod := find_setup_product w (s_env st) name in
            if same_product p sprod && negb (Nat.eqb depth 0) then RDone true st ds1 else
            (* unsetupSetupProduct: unsetup whatever version is set up, at the same depth; under --keep
               without its dependencies *)
            let r0 := match sprod with
                      | Some _ => rec st ds1 name false depth (just || c_keep cfg)
                      | None => RDone true st ds1
                      end in
            match r0 with
            | RDone _ st1 ds2 => run_actions rec true depth just (p_actions p) (set_product_vars st1 name p) ds2
            | other => other
            end
        end
    end
  else
    match find_setup_product w (s_env st) name with
    | None => RDone false st ds                              (* I can't unsetup it as it isn't setup *)
    | Some sp => run_actions rec false depth just (p_actions sp) (unset_product_vars st name) ds
    end.

Fixpoint setup (fuel : nat) : setup_fn :=
  match fuel with
  | O => fun _ _ _ _ _ _ => RFuel
  | S fuel' => setup_step (setup fuel')
  end.

(* a top-level request: Some final state when the command succeeds, None when it fails (nothing is emitted) *)
Definition request (fuel : nat) (st : state) (ds : list decision) (name : str) (fwd just : bool) : res (option state) :=
  match setup fuel st ds name fwd 0 just with
  | RDone true st' _ => Ok (Some st')
  | RDone false _ _ => Ok None
  | RRaise _ _ => Ok None
  | RFuel => Err OutOfFuel
  | RBad => Err Crash
  end.

End Setup.
