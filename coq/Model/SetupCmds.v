(* C02 - the COMMAND LIST of eups.app.setup for the pair  setup X ; unsetup X  (observe_at of C02: command list
   returned by eups.app.setup).  The environment each of the two eups processes computes is the one of
   Model/Setup.v; what app.setup turns it into - export N=V for every new or changed variable (an EMPTIED variable
   is exported empty), unset N for every variable that is gone - is the emitter of Model/Shell.v (C05), and the
   shell that sources the two texts one after the other is sh_chain of Model/ShellSession.v.
   Scope: a product other than eups, the sh family, the environment part of the list (alias commands are shell
   function definitions, outside the shell fragment of Model/Shell.v: the harness reads them).
   Executable definitions only. *)
From Eupsv Require Import Base.Base Model.PathAlg Model.Setup.
From Eupsv Require Model.Shell Model.ShellSession.

(* the two calls: setup X left the state st1, unsetup X (a new process, started from the environment of st1)
   left st2 *)
Definition setup_calls (st1 st2 : state) : list ShellSession.apicall :=
  [ShellSession.Call false true (s_env st1) [] []; ShellSession.Call false false (s_env st2) [] []].

(* the two texts the shell is given, the first computed against the environment e0 the user had *)
Definition command_texts (e0 : amap str) (st1 st2 : state) : res (list str) :=
  bind (ShellSession.api_session e0 (setup_calls st1 st2)) (fun steps => Ok (map snd steps)).

(* the environment of the shell that started with e0 and sourced both *)
Definition shell_after (e0 : amap str) (st1 st2 : state) : res (amap str) :=
  bind (command_texts e0 st1 st2) (fun texts => ShellSession.sh_chain texts e0).

(* the hypotheses of C05 at both calls (names are identifiers, changed values lie in the alphabet of the claim)
   and: neither call removes one of the four variables app.setup refuses to unset *)
Definition cmds_in_claim (e0 : amap str) (st1 st2 : state) : bool :=
  ShellSession.session_in_claim e0 (setup_calls st1 st2) && ShellSession.session_keeps e0 (setup_calls st1 st2).
