(* The composed model: Eups.setup (Model/Setup.v) with the version resolver of Model/Resolve.v in place
   of the stream of decisions.  Same control flow as Setup.setup; every forward call computes its own
   decision by Resolve.resolve_request on a database view derived from the world, and the model carries
   what the resolver reads besides the database:

     already   Eups.alreadySetupProducts (name -> (product, vroReason)).  A fresh Eups starts with the
               empty dictionary (Eups.py 234); the top-level forward call resolves against that and THEN
               rebuilds it from the SETUP_ variables of the environment (1931-1939: every product that
               findSetupProduct finds, with reason None) and enters the product it chose; every forward
               call that really sets a product up enters it again (2058).  The call that finds its product
               already set up returns before that line.  A failing dependency restores the environment
               and the aliases (popStack env) but NOT this dictionary.
     vro       Eups.preferredTags.  Action.processArgs (table.py 885-938) builds, for every dependency
               line, requestedVRO = the current list, with keep prepended when keep is in it (so under
               --keep the list grows by one keep per level); execute_setupRequired installs it for the
               nested call and restores the previous one afterwards, so it is a parameter here.

   Restrictions (besides those of Model/Setup.v: one stack, one flavor of declarations, declared
   products only): dependency lines of the forms  name / name version / name version [expr] /
   name [expr] / name relational-expression, each with or without -j; no -t, no --vro, no -k, no -f, no -r
   on a line.  What processArgs makes of the words after the name (vers, versExpr) is given per line in
   fw_lines; the action type of Model/Setup.v is unchanged.

   Two simplifications that no call site can observe: (1) an exception raised by the resolution loops
   (TypeError / ValueError of the acceptance loop, only at depth 0 and only with an entry for the
   product in alreadySetupProducts or without commandLine in the VRO) is reported like not-found:
   execute_setupRequired catches every exception and treats it as failure, and a failing command emits
   nothing either way; (2) alreadySetupProducts is keyed by the requested name instead of product.name:
   the resolver only returns products looked up under that name or taken from the entry of that name.
   Executable definitions only. *)
From Eupsv Require Import Base.Base Model.PathAlg Model.Setup Model.Resolve.

(* what processArgs passes to Eups.setup for one dependency line (and the command line for the request) *)
Record lineinfo := { li_version : option str; li_expr : option str }.
Definition no_info : lineinfo := {| li_version := None; li_expr := None |}.

(* the world of Model/Setup.v with, in parallel, the request information of every table line
   (one entry per action, in table order; entries of non-dependency actions are ignored) and the
   chain files of the stack: (product name, tag, version) *)
Record fworld := {
  fw_products : world;
  fw_lines : list (str * str * list lineinfo);
  fw_tags : list (str * str * str) }.

Fixpoint find_lines (l : list (str * str * list lineinfo)) (name version : str) : list lineinfo :=
  match l with
  | [] => []
  | (n, v, li) :: r => if str_eqb n name && str_eqb v version then li else find_lines r name version
  end.

Definition lines_of (fw : fworld) (p : product) : list lineinfo :=
  find_lines (fw_lines fw) (p_name p) (p_version p).

(* the database view of the resolver: one stack, the declared (name, version) pairs of the world for
   the one flavor, the chain entries of fw_tags *)
Definition decl_of (cfg : Setup.config) (p : product) : str * str * str :=
  (p_name p, p_version p, flavor_of cfg (p_name p) (p_version p)).
Definition chain_of (cfg : Setup.config) (x : str * str * str) : str * str * str * str :=
  match x with (n, t, v) => (n, flavor_of cfg n v, t, v) end.
Definition db_of (cfg : Setup.config) (fw : fworld) : dbv :=
  [mkStack (c_root cfg) (map (decl_of cfg) (fw_products fw)) (map (chain_of cfg) (fw_tags fw))].

(* the Product object of a declared product *)
Definition found_of (cfg : Setup.config) (p : product) : found :=
  mkFound (c_root cfg) (p_name p) (p_version p) (flavor_of cfg (p_name p) (p_version p)).

Definition already := amap (found * option reason).

(* Eups.getSetupProducts as used at depth 0: every product name the environment records, reason None *)
Fixpoint rebuild_from (w : world) (cfg : Setup.config) (names : list str) (e : amap str) : already :=
  match names with
  | [] => []
  | n :: r =>
      match find_setup_product w e n with
      | Some q => (n, (found_of cfg q, None)) :: rebuild_from w cfg r e
      | None => rebuild_from w cfg r e
      end
  end.
Definition rebuild (w : world) (cfg : Setup.config) (e : amap str) : already :=
  rebuild_from w cfg (uniq (map p_name w)) e.

(* processArgs: keep is prepended to the list handed to the nested call when the current list has it *)
Definition child_vro (vro : list entry) : list entry :=
  if mem_entry EKeep vro then EKeep :: vro else vro.

(* results carry the dictionary (it survives failures) and the decisions taken, in call order *)
Inductive fresult :=
| FDone (ok : bool) (st : state) (al : already) (tr : list decision)
| FRaise (st : state) (al : already) (tr : list decision)     (* a python exception propagates *)
| FFuel (tr : list decision)
| FBad (tr : list decision).                                  (* the resolver chose a product the world does not declare *)

Definition with_trace (pre : list decision) (r : fresult) : fresult :=
  match r with
  | FDone ok st al tr => FDone ok st al (pre ++ tr)
  | FRaise st al tr => FRaise st al (pre ++ tr)
  | FFuel tr => FFuel (pre ++ tr)
  | FBad tr => FBad (pre ++ tr)
  end.

Definition trace_of (r : fresult) : list decision :=
  match r with FDone _ _ _ tr | FRaise _ _ tr | FFuel tr | FBad tr => tr end.

(* forgetting the dictionary and the trace: the result of Model/Setup.v, [rest] being the unread decisions *)
Definition erase (rest : list decision) (r : fresult) : result :=
  match r with
  | FDone ok st _ _ => RDone ok st rest
  | FRaise st _ _ => RRaise st rest
  | FFuel _ => RFuel
  | FBad _ => RBad
  end.

Section Full.
Variable vcmp : str -> str -> comparison.      (* hooks.version_cmp *)
Variable vmatch : str -> str -> bool.           (* Eups.version_match *)
Variable fw : fworld.
Variable cfg : Setup.config.
Variable rc : Resolve.config.
Variable flavors : list str.                    (* the native flavor followed by its fallbacks *)

Definition full_fn := state -> already -> list entry -> str -> lineinfo -> bool -> nat -> bool -> fresult.

(* the loop over the actions of a table; [infos] runs in parallel with [acts] *)
Fixpoint run_actions_full (rec : full_fn) (fwd : bool) (depth : nat) (just : bool) (vro : list entry)
                          (acts : list action) (infos : list lineinfo) (st : state) (al : already) : fresult :=
  match acts with
  | [] => FDone true st al []
  | a :: acts' =>
      let li := hd no_info infos in
      let infos' := tl infos in
      match a with
      | ASetup optional nm jst =>
          if cut_off cfg just (S depth) then run_actions_full rec fwd depth just vro acts' infos' st al else
          (* pushStack env, pushStack vro; after a failure popStack env puts the environment and the aliases
             back: the state is the one before the dependency - but the dictionary stays *)
          match rec st al (child_vro vro) nm li fwd (S depth) jst with
          | FDone true st' al' tr => with_trace tr (run_actions_full rec fwd depth just vro acts' infos' st' al')
          | FDone false _ al' tr =>
              if fwd && negb optional then FRaise st al' tr
              else with_trace tr (run_actions_full rec fwd depth just vro acts' infos' st al')
          | FRaise _ al' tr =>
              if fwd && negb optional then FRaise st al' tr
              else with_trace tr (run_actions_full rec fwd depth just vro acts' infos' st al')
          | other => other
          end
      | _ =>
          match exec_simple fwd a st with
          | Ok st' => run_actions_full rec fwd depth just vro acts' infos' st' al
          | Err _ => FRaise st al []
          end
      end
  end.

(* one level of Eups.setup *)
Definition setup_full_step (rec : full_fn) (st : state) (al : already) (vro : list entry) (name : str)
                           (li : lineinfo) (fwd : bool) (depth : nat) (just : bool) : fresult :=
  let w := fw_products fw in
  if fwd then
    let rq := mkRequest name (li_version li) (li_expr li) in
    match resolve_request vcmp vmatch rc (db_of cfg fw) (c_keep cfg) (alookup name al) flavors depth vro rq with
    | Err _ => FDone false st al [None]                        (* see the header: reported like not-found *)
    | Ok None => FDone false st al [None]
    | Ok (Some (fd, why)) =>
        let v := fd_version fd in
        (* 1931-1939: at the top level the dictionary is rebuilt from the environment *)
        let al1 := if depth =? 0 then aset name (fd, why) (rebuild w cfg (s_env st)) else al in
        match find_pv w name v with
        | None => FBad [Some v]
        | Some p =>
            let sprod := find_setup_product w (s_env st) name in
            if same_product p sprod && negb (depth =? 0) then FDone true st al1 [Some v] else
            let r0 := match sprod with
                      | Some _ => rec st al1 vro name no_info false depth (just || c_keep cfg)
                      | None => FDone true st al1 []
                      end in
            match r0 with
            | FDone _ st1 al2 tr0 =>
                with_trace (Some v :: tr0)
                  (run_actions_full rec true depth just vro (p_actions p) (lines_of fw p)
                                    (set_product_vars cfg st1 name p) (aset name (fd, why) al2))   (* 2058 *)
            | other => with_trace [Some v] other
            end
        end
    end
  else
    match find_setup_product w (s_env st) name with
    | None => FDone false st al []
    | Some sp => run_actions_full rec false depth just vro (p_actions sp) (lines_of fw sp)
                                  (unset_product_vars st name) al
    end.

Fixpoint setup_full (fuel : nat) : full_fn :=
  match fuel with
  | O => fun _ _ _ _ _ _ _ _ => FFuel []
  | S fuel' => setup_full_step (setup_full fuel')
  end.

(* a whole command in a fresh process: Eups(keep, max_depth), selectVRO(None, None, version, None), then
   Eups.setup(name, version, fwd, noRecursion=just).  No -t / -T, no --exact / --inexact option. *)
Definition request_opts (version : option str) : opts :=
  mkOpts (c_keep cfg) false false [] [] false (match version with Some _ => true | None => false end).

Definition request_full (fuel : nat) (st : state) (name : str) (version : option str) (fwd just : bool)
  : res (option state * list decision) :=
  match select_vro rc (request_opts version) with
  | Err e => Err e
  | Ok vro =>
      match setup_full fuel st [] vro name {| li_version := version; li_expr := None |} fwd 0 just with
      | FDone true st' _ tr => Ok (Some st', tr)
      | FDone false _ _ tr => Ok (None, tr)
      | FRaise _ _ tr => Ok (None, tr)
      | FFuel _ => Err OutOfFuel
      | FBad _ => Err Crash
      end
  end.

End Full.

(* the instance that is extracted: the dotted-numeric comparator of Model/Resolve.v *)
Definition request_full_simple := request_full vcmp_simple vmatch_simple.
Definition setup_full_simple := setup_full vcmp_simple vmatch_simple.
