(* Eups.setup / unsetup with SEVERAL STACKS on EUPS_PATH (C01, C02, C04): the model of Model/Setup.v in which
   every declaration carries the stack it lives in.

   What the stack changes in the code, and is modelled here:
     - Eups.setup (Eups.py 2065-2073) writes SETUP_NAME = name version -f flavor -Z encodePath(product.stackRoot()):
       the stack the product was FOUND in, and the flavor it was found under;
     - Eups.findSetupVersion (716-781) reads the value back word by word: the name, the version (unless the next
       word is -f), -f flavor, -Z or -z and utils.decodePath of the next word; words left over raise RuntimeError;
     - Eups.findSetupProduct (1555-1577) looks the product up with findProduct(name, version,
       eupsPathDirs=[that stack], flavor=that flavor): in the database of THAT stack - whether or not the stack is
       among the ones the running command selected (-Z / -z restrict Eups.path, not this look-up: _readDatabase
       answers from the database files for a stack that has no cache) - and under THAT flavor;
     - unsetupSetupProduct and the unsetup branch of Eups.setup undo the table of the product so found;
     - the already-set-up test compares versions or directories (2029), whatever the stacks: the same version
       found in another stack than the recorded one counts as already set up below the top level.
   A declaration is identified by (name, version, stack); the same name and version may be declared in two stacks
   with different directories, flavors and tables.  A decision of the resolver names the version AND the stack.

   The one-stack model is the special case in which every declaration has the root c_root cfg and the flavor
   flavor_of cfg name version (embed, below; Proofs/SetupMSEmbed.v).  Of the configuration only c_max_depth and
   c_keep are read here: root and flavor are fields of the declaration.

   Not modelled (as in Model/Setup.v): setup -r, --force, -m tablefile, the extra directory, a version word that
   is also a tag name.  A SETUP_ value with words left over (RuntimeError in the code) or without -Z (the look-up
   is made in no stack and finds nothing) reads as not set up.
   Executable definitions only. *)
From Eupsv Require Import Base.Base Model.PathAlg Model.Setup.

Record mproduct := { mp_name : str; mp_version : str; mp_root : str; mp_flavor : str;
                     mp_dir : str; mp_actions : list action }.
Definition mworld := list mproduct.

(* what a decision of the resolver says: the version and the stack it was found in *)
Record vref := mkVref { vr_version : str; vr_root : str }.

Definition mp_is (name : str) (k : vref) (p : mproduct) : bool :=
  str_eqb (mp_name p) name && str_eqb (mp_version p) (vr_version k) && str_eqb (mp_root p) (vr_root k).

Fixpoint find_pvr (w : mworld) (name : str) (k : vref) : option mproduct :=
  match w with
  | [] => None
  | p :: w' => if mp_is name k p then Some p else find_pvr w' name k
  end.

(* utils.decodePath: every marker -+- (leftmost first, not overlapping) becomes a blank *)
Fixpoint decode_path (x : str) : str :=
  match x with
  | "-"%char :: (("+"%char :: "-"%char :: r) as t) => c_space :: decode_path r
  | c :: r => c :: decode_path r
  | [] => []
  end.

(* name version -f flavor -Z root-of-the-stack-found *)
Definition ms_setup_string (p : mproduct) : str :=
  mp_name p ++ [c_space] ++ mp_version p ++ lit " -f " ++ mp_flavor p ++ lit " -Z " ++ encode_path (mp_root p).

Definition is_dash_f (x : str) : bool := str_eqb x (lit "-f").
Definition is_dash_z (x : str) : bool := str_eqb x (lit "-Z") || str_eqb x (lit "-z").

(* findSetupVersion on the words after the product name: version, flavor, eupsPathDir; None: words left over *)
Definition recorded_args (args : list str) : option (str * option str * option str) :=
  let va := match args with
            | x :: r => if is_dash_f x then (lit "setup", args) else (x, r)
            | [] => (lit "setup", [])
            end in
  let fa := match snd va with
            | x :: y :: r => if is_dash_f x then (Some y, r) else (None, snd va)
            | _ => (None, snd va)
            end in
  let za := match snd fa with
            | x :: y :: r => if is_dash_z x then (Some (decode_path y), r) else (None, snd fa)
            | _ => (None, snd fa)
            end in
  match snd za with
  | [] => Some (fst va, fst fa, fst za)
  | _ => None
  end.

Definition recorded_fields (value : str) : option (str * option str * option str) :=
  match words value with
  | [] => None
  | _ :: args => recorded_args args
  end.

(* Eups.findSetupProduct: the declaration, in the recorded stack and under the recorded flavor, of the recorded
   version ([native]: Eups.flavor, used when the value has no -f) *)
Definition mfind_setup_product (w : mworld) (native : str) (e : amap str) (name : str) : option mproduct :=
  match alookup (setup_var name) e with
  | None => None
  | Some value =>
      match recorded_fields value with
      | Some (v, f, Some root) =>
          match find_pvr w name (mkVref v root) with
          | Some p => if str_eqb (mp_flavor p) (match f with Some x => x | None => native end) then Some p else None
          | None => None
          end
      | _ => None
      end
  end.

Definition mdecision := option vref.

Inductive mresult :=
| MDone (ok : bool) (st : state) (ds : list mdecision)
| MRaise (st : state) (ds : list mdecision)
| MFuel
| MBad.

Section SetupMS.
Variable w : mworld.
Variable cfg : config.

Definition msetup_fn := state -> list mdecision -> str -> bool -> nat -> bool -> mresult.

(* the loop over the actions of a table: Setup.run_actions for the other decision type *)
Fixpoint mrun_actions (rec : msetup_fn) (fwd : bool) (depth : nat) (just : bool)
                      (acts : list action) (st : state) (ds : list mdecision) : mresult :=
  match acts with
  | [] => MDone true st ds
  | a :: acts' =>
      match a with
      | ASetup optional nm jst =>
          if cut_off cfg just (S depth) then mrun_actions rec fwd depth just acts' st ds else
          match rec st ds nm fwd (S depth) jst with
          | MDone true st' ds' => mrun_actions rec fwd depth just acts' st' ds'
          | MDone false _ ds' =>
              if fwd && negb optional then MRaise st ds' else mrun_actions rec fwd depth just acts' st ds'
          | MRaise _ ds' =>
              if fwd && negb optional then MRaise st ds' else mrun_actions rec fwd depth just acts' st ds'
          | other => other
          end
      | _ =>
          match exec_simple fwd a st with
          | Ok st' => mrun_actions rec fwd depth just acts' st' ds
          | Err _ => MRaise st ds
          end
      end
  end.

(* Eups.setup 2028-2029: versions or directories, not stacks *)
Definition msame_product (p : mproduct) (sprod : option mproduct) : bool :=
  match sprod with
  | Some sp => nonempty (mp_version sp) && nonempty (mp_version p) &&
               (str_eqb (mp_version p) (mp_version sp) || str_eqb (mp_dir p) (mp_dir sp))
  | None => false
  end.

Definition mset_product_vars (st : state) (name : str) (p : mproduct) : state :=
  set_env (set_env st (dir_var name) (mp_dir p)) (setup_var name) (ms_setup_string p).

Definition msetup_step (rec : msetup_fn) (st : state) (ds : list mdecision)
                       (name : str) (fwd : bool) (depth : nat) (just : bool) : mresult :=
  if fwd then
    match ds with
    | [] => MBad
    | None :: ds1 => MDone false st ds1
    | Some k :: ds1 =>
        match find_pvr w name k with
        | None => MBad
        | Some p =>
            (* findSetupProduct: in the stack SETUP_NAME records, which need not be the stack of p *)
            let sprod := mfind_setup_product w (c_flavor cfg) (s_env st) name in
            if msame_product p sprod && negb (Nat.eqb depth 0) then MDone true st ds1 else
            let r0 := match sprod with
                      | Some _ => rec st ds1 name false depth (just || c_keep cfg)
                      | None => MDone true st ds1
                      end in
            match r0 with
            | MDone _ st1 ds2 => mrun_actions rec true depth just (mp_actions p) (mset_product_vars st1 name p) ds2
            | other => other
            end
        end
    end
  else
    match mfind_setup_product w (c_flavor cfg) (s_env st) name with
    | None => MDone false st ds
    | Some sp => mrun_actions rec false depth just (mp_actions sp) (unset_product_vars st name) ds
    end.

Fixpoint msetup (fuel : nat) : msetup_fn :=
  match fuel with
  | O => fun _ _ _ _ _ _ => MFuel
  | S fuel' => msetup_step (msetup fuel')
  end.

Definition mrequest (fuel : nat) (st : state) (ds : list mdecision) (name : str) (fwd just : bool) : res (option state) :=
  match msetup fuel st ds name fwd 0 just with
  | MDone true st' _ => Ok (Some st')
  | MDone false _ _ => Ok None
  | MRaise _ _ => Ok None
  | MFuel => Err OutOfFuel
  | MBad => Err Crash
  end.

End SetupMS.

(* ---------------------------------------------------------------- the one-stack world as a special case *)

Definition embed_product (cfg : config) (p : product) : mproduct :=
  {| mp_name := p_name p; mp_version := p_version p; mp_root := c_root cfg;
     mp_flavor := flavor_of cfg (p_name p) (p_version p); mp_dir := p_dir p; mp_actions := p_actions p |}.
Definition embed (cfg : config) (w : world) : mworld := map (embed_product cfg) w.

Definition embed_decision (cfg : config) (d : decision) : mdecision :=
  match d with Some v => Some (mkVref v (c_root cfg)) | None => None end.

Definition embed_result (cfg : config) (r : result) : mresult :=
  match r with
  | RDone ok st ds => MDone ok st (map (embed_decision cfg) ds)
  | RRaise st ds => MRaise st (map (embed_decision cfg) ds)
  | RFuel => MFuel
  | RBad => MBad
  end.
