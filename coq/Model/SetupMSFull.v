(* The composed model with SEVERAL STACKS: Eups.setup on declarations that carry their stack (Model/SetupMS.v)
   with the version resolver of Model/Resolve.v in place of the stream of decisions.  Same control flow as
   Model/SetupFull.v; what the stacks change:

     - the database view of the resolver has one stackv per stack THE COMMAND SELECTED, in EUPS_PATH order
       (mfw_path: Eups.path after -Z / -z, Eups.setEupsPath), each with the declarations and the chain files of
       that stack.  The declarations of a stack that is not selected stay in the world: findSetupProduct still
       finds a product that SETUP_NAME records there (Model/SetupMS.v);
     - the decision of a forward call is the version AND the stack of the product the resolver returned
       (fd_version, fd_stack), and that stack is what Eups.setup writes behind -Z;
     - alreadySetupProducts is rebuilt at the top level from every SETUP_ variable, each product looked up in the
       stack its variable records.

   Restrictions: those of Model/SetupFull.v (dependency-line forms, no -t / --vro on a line); a chain entry gives
   its flavor explicitly (the flavor of the declaration it names).
   Executable definitions only. *)
From Eupsv Require Import Base.Base Model.PathAlg Model.Setup Model.SetupMS Model.Resolve Model.SetupFull.

Record mfworld := {
  mfw_products : mworld;
  mfw_lines : list (str * vref * list lineinfo);          (* name, version and stack, one entry per action *)
  mfw_tags : list (str * (str * str * str * str));        (* stack, (name, flavor, tag, version): the chain files *)
  mfw_path : list str }.                                  (* the selected stacks, in EUPS_PATH order *)

Definition vref_eqb (a b : vref) : bool :=
  str_eqb (vr_version a) (vr_version b) && str_eqb (vr_root a) (vr_root b).

Fixpoint mfind_lines (l : list (str * vref * list lineinfo)) (name : str) (k : vref) : list lineinfo :=
  match l with
  | [] => []
  | (n, k', li) :: r => if str_eqb n name && vref_eqb k' k then li else mfind_lines r name k
  end.

Definition mlines_of (fw : mfworld) (p : mproduct) : list lineinfo :=
  mfind_lines (mfw_lines fw) (mp_name p) (mkVref (mp_version p) (mp_root p)).

(* one stack of the database view *)
Definition mdecl_of (p : mproduct) : str * str * str := (mp_name p, mp_version p, mp_flavor p).
Definition stack_view (fw : mfworld) (root : str) : stackv :=
  mkStack root
          (map mdecl_of (filter (fun p => str_eqb (mp_root p) root) (mfw_products fw)))
          (map snd (filter (fun x => str_eqb (fst x) root) (mfw_tags fw))).
Definition mdb_of (fw : mfworld) : dbv := map (stack_view fw) (mfw_path fw).

(* the Product object of a declared product *)
Definition mfound_of (p : mproduct) : found := mkFound (mp_root p) (mp_name p) (mp_version p) (mp_flavor p).

Fixpoint mrebuild_from (w : mworld) (native : str) (names : list str) (e : amap str) : already :=
  match names with
  | [] => []
  | n :: r =>
      match mfind_setup_product w native e n with
      | Some q => (n, (mfound_of q, None)) :: mrebuild_from w native r e
      | None => mrebuild_from w native r e
      end
  end.
Definition mrebuild (w : mworld) (native : str) (e : amap str) : already :=
  mrebuild_from w native (uniq (map mp_name w)) e.

Inductive mfresult :=
| MFDone (ok : bool) (st : state) (al : already) (tr : list mdecision)
| MFRaise (st : state) (al : already) (tr : list mdecision)
| MFFuel (tr : list mdecision)
| MFBad (tr : list mdecision).

Definition mwith_trace (pre : list mdecision) (r : mfresult) : mfresult :=
  match r with
  | MFDone ok st al tr => MFDone ok st al (pre ++ tr)
  | MFRaise st al tr => MFRaise st al (pre ++ tr)
  | MFFuel tr => MFFuel (pre ++ tr)
  | MFBad tr => MFBad (pre ++ tr)
  end.

Definition mtrace_of (r : mfresult) : list mdecision :=
  match r with MFDone _ _ _ tr | MFRaise _ _ tr | MFFuel tr | MFBad tr => tr end.

Definition merase (rest : list mdecision) (r : mfresult) : mresult :=
  match r with
  | MFDone ok st _ _ => MDone ok st rest
  | MFRaise st _ _ => MRaise st rest
  | MFFuel _ => MFuel
  | MFBad _ => MBad
  end.

(* the decision a product found by the resolver stands for *)
Definition vref_of (fd : found) : vref := mkVref (fd_version fd) (fd_stack fd).

Section FullMS.
Variable vcmp : str -> str -> comparison.
Variable vmatch : str -> str -> bool.
Variable fw : mfworld.
Variable cfg : Setup.config.
Variable rc : Resolve.config.
Variable flavors : list str.

Definition mfull_fn := state -> already -> list entry -> str -> lineinfo -> bool -> nat -> bool -> mfresult.

Fixpoint mrun_actions_full (rec : mfull_fn) (fwd : bool) (depth : nat) (just : bool) (vro : list entry)
                           (acts : list action) (infos : list lineinfo) (st : state) (al : already) : mfresult :=
  match acts with
  | [] => MFDone true st al []
  | a :: acts' =>
      let li := hd no_info infos in
      let infos' := tl infos in
      match a with
      | ASetup optional nm jst =>
          if cut_off cfg just (S depth) then mrun_actions_full rec fwd depth just vro acts' infos' st al else
          match rec st al (child_vro vro) nm li fwd (S depth) jst with
          | MFDone true st' al' tr => mwith_trace tr (mrun_actions_full rec fwd depth just vro acts' infos' st' al')
          | MFDone false _ al' tr =>
              if fwd && negb optional then MFRaise st al' tr
              else mwith_trace tr (mrun_actions_full rec fwd depth just vro acts' infos' st al')
          | MFRaise _ al' tr =>
              if fwd && negb optional then MFRaise st al' tr
              else mwith_trace tr (mrun_actions_full rec fwd depth just vro acts' infos' st al')
          | other => other
          end
      | _ =>
          match exec_simple fwd a st with
          | Ok st' => mrun_actions_full rec fwd depth just vro acts' infos' st' al
          | Err _ => MFRaise st al []
          end
      end
  end.

Definition msetup_full_step (rec : mfull_fn) (st : state) (al : already) (vro : list entry) (name : str)
                            (li : lineinfo) (fwd : bool) (depth : nat) (just : bool) : mfresult :=
  let w := mfw_products fw in
  if fwd then
    let rq := mkRequest name (li_version li) (li_expr li) in
    match resolve_request vcmp vmatch rc (mdb_of fw) (c_keep cfg) (alookup name al) flavors depth vro rq with
    | Err _ => MFDone false st al [None]
    | Ok None => MFDone false st al [None]
    | Ok (Some (fd, why)) =>
        let v := vref_of fd in
        let al1 := if depth =? 0 then aset name (fd, why) (mrebuild w (c_flavor cfg) (s_env st)) else al in
        match find_pvr w name v with
        | None => MFBad [Some v]
        | Some p =>
            let sprod := mfind_setup_product w (c_flavor cfg) (s_env st) name in
            if msame_product p sprod && negb (depth =? 0) then MFDone true st al1 [Some v] else
            let r0 := match sprod with
                      | Some _ => rec st al1 vro name no_info false depth (just || c_keep cfg)
                      | None => MFDone true st al1 []
                      end in
            match r0 with
            | MFDone _ st1 al2 tr0 =>
                mwith_trace (Some v :: tr0)
                  (mrun_actions_full rec true depth just vro (mp_actions p) (mlines_of fw p)
                                     (mset_product_vars st1 name p) (aset name (fd, why) al2))
            | other => mwith_trace [Some v] other
            end
        end
    end
  else
    match mfind_setup_product w (c_flavor cfg) (s_env st) name with
    | None => MFDone false st al []
    | Some sp => mrun_actions_full rec false depth just vro (mp_actions sp) (mlines_of fw sp)
                                   (unset_product_vars st name) al
    end.

Fixpoint msetup_full (fuel : nat) : mfull_fn :=
  match fuel with
  | O => fun _ _ _ _ _ _ _ _ => MFFuel []
  | S fuel' => msetup_full_step (msetup_full fuel')
  end.

(* a whole command in a fresh process, the stacks of mfw_path selected *)
Definition mrequest_full (fuel : nat) (st : state) (name : str) (version : option str) (fwd just : bool)
  : res (option state * list mdecision) :=
  match select_vro rc (request_opts cfg version) with
  | Err e => Err e
  | Ok vro =>
      match msetup_full fuel st [] vro name {| li_version := version; li_expr := None |} fwd 0 just with
      | MFDone true st' _ tr => Ok (Some st', tr)
      | MFDone false _ _ tr => Ok (None, tr)
      | MFRaise _ _ tr => Ok (None, tr)
      | MFFuel _ => Err OutOfFuel
      | MFBad _ => Err Crash
      end
  end.

End FullMS.

Definition mrequest_full_simple := mrequest_full vcmp_simple vmatch_simple.
Definition msetup_full_simple := msetup_full vcmp_simple vmatch_simple.
