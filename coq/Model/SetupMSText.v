(* The setup model with several stacks run from table TEXTS: Model/SetupText.v (C11's table_actions, the implicit
   product line, Table.expandEupsVariables, the command kinds, processArgs) in front of Model/SetupMS.v.

   What the stack changes: Table.expandEupsVariables replaces PRODUCTS (and its older synonym UPS_DB, rewritten to
   PRODUCTS/ups_db by _rewrite) by product.stackRoot() - the root of the stack THE PRODUCT WAS FOUND IN, not the
   first stack of EUPS_PATH - and the extra directory lives in that stack's database; PRODUCT_FLAVOR is the flavor
   the declaration was found under.  Two declarations of one name and version in two stacks get different actions
   from the same text.
   Executable definitions only. *)
From Eupsv Require Import Base.Base Model.PathAlg Model.Setup Model.SetupMS Model.Rx Model.Cond Model.Args
  Model.Legacy Model.Blocks Model.TableSpec Model.SetupText.

Record mtproduct := mkMtproduct { mt_name : str; mt_version : str; mt_root : str; mt_flavor : str;
                                  mt_dir : str; mt_text : str }.
Definition mtext_world := list mtproduct.

Definition mpinfo_for (tp : mtproduct) : pinfo :=
  mkPinfo (mt_name tp) (mt_version tp) (mt_flavor tp) (mt_dir tp) (mt_root tp) (mt_dir tp ++ lit "/ups")
          (mt_root tp ++ lit "/ups_db/" ++ mt_flavor tp ++ c_slash :: mt_name tp ++ c_slash :: mt_version tp).

(* the declaration of Model/SetupMS.v; its table is read for the flavor it is declared under *)
Definition mproduct_of_text (tc : tconfig) (tp : mtproduct) : res mproduct :=
  let pi := mpinfo_for tp in
  if negb (pinfo_ok pi) then Err Refused else
  bind (table_setup_actions tc pi (mt_flavor tp) (mt_text tp)) (fun acts =>
    Ok {| mp_name := mt_name tp; mp_version := mt_version tp; mp_root := mt_root tp; mp_flavor := mt_flavor tp;
          mp_dir := mt_dir tp; mp_actions := acts |}).

Definition mworld_of_text (tc : tconfig) (tw : mtext_world) : res mworld := map_res (mproduct_of_text tc) tw.

Definition msetup_text (cfg : config) (tc : tconfig) (tw : mtext_world) (fuel : nat) (st : state)
                       (ds : list mdecision) (name : str) (fwd : bool) (depth : nat) (just : bool) : res mresult :=
  bind (mworld_of_text tc tw) (fun w => Ok (msetup w cfg fuel st ds name fwd depth just)).

Definition mrequest_text (cfg : config) (tc : tconfig) (tw : mtext_world) (fuel : nat) (st : state)
                         (ds : list mdecision) (name : str) (fwd just : bool) : res (option state) :=
  bind (mworld_of_text tc tw) (fun w => mrequest w cfg fuel st ds name fwd just).

(* the one-stack text world as a special case *)
Definition embed_tproduct (cfg : config) (tp : tproduct) : mtproduct :=
  mkMtproduct (t_name tp) (t_version tp) (c_root cfg) (flavor_of cfg (t_name tp) (t_version tp)) (t_dir tp) (t_text tp).
