(* The decision procedure of Model/SetupWf.v for worlds with several stacks: the hypotheses WF
   (Proofs/SetupMSFrame.v) and WF2 (Proofs/SetupMSInv.v) of the multi-stack setup theorems.  Same fields; a
   declaration is identified by name, version and stack (keys), and the words field also asks for a one-word
   flavor and a stack root that utils.decodePath gives back from utils.encodePath.  Soundness:
   Proofs/SetupMSWf.v.  Executable definitions only. *)
From Eupsv Require Import Base.Base Model.PathAlg Proofs.PathAlg Model.Setup Model.SetupMS.

(* ---------------------------------------------------------------- what a table contributes *)

Definition mpath_entries (p : mproduct) : list (str * str * ascii) :=
  flat_map (fun a => match a with APath _ var v d => [(var, v, d)] | _ => [] end) (mp_actions p).
Definition mset_entries (p : mproduct) : list (str * str) :=
  flat_map (fun a => match a with ASet k v => [(k, v)] | _ => [] end) (mp_actions p).
Definition mdep_targets (p : mproduct) : list str :=
  flat_map (fun a => match a with ASetup _ n _ => [n] | _ => [] end) (mp_actions p).
Definition melem_pairs (p : mproduct) : list (str * str) :=
  map (fun x => (fst (fst x), snd (fst x))) (mpath_entries p).

Definition mall_paths (w : mworld) : list (str * str * ascii) := flat_map mpath_entries w.
Definition mall_sets (w : mworld) : list (str * str) := flat_map mset_entries w.

(* ---------------------------------------------------------------- the instantiation *)

Fixpoint mfirst_delim (var : str) (l : list (str * str * ascii)) : option ascii :=
  match l with
  | [] => None
  | x :: l' => if str_eqb (fst (fst x)) var then Some (snd x) else mfirst_delim var l'
  end.

(* the delimiter of the first path action on that variable in the mworld *)
Definition mdl_of (w : mworld) (var : str) : ascii :=
  match mfirst_delim var (mall_paths w) with
  | Some d => d
  | None => ":"%char
  end.

(* position of the name in the order; length of the order when absent *)
Fixpoint mrank_of (order : list str) (n : str) : nat :=
  match order with
  | [] => 0
  | x :: r => if str_eqb x n then 0 else S (mrank_of r n)
  end.

(* ---------------------------------------------------------------- helpers *)

Definition mpair_eqb (a b : str * str) : bool := str_eqb (fst a) (fst b) && str_eqb (snd a) (snd b).
Definition mdisjoint_str (a b : list str) : bool := forallb (fun x => negb (mem_str x b)) a.
Definition mdisjoint_pair (a b : list (str * str)) : bool :=
  forallb (fun x => negb (existsb (mpair_eqb x) b)) a.

(* a sound syntactic test for the variables eups reserves for some mproduct name:
   SETUP_<NAME>, <NAME>_DIR, <NAME>_DIR_EXTRA *)
Definition mmaybe_reserved (k : str) : bool :=
  starts_with (lit "SETUP_") k || ends_with (lit "_DIR") k || ends_with (lit "_DIR_EXTRA") k.

Definition mword_ok (x : str) : bool := nonempty x && negb (mem_ascii c_space x).

(* ---------------------------------------------------------------- the fields of WF *)

Definition maction_ok (w : mworld) (a : action) : bool :=
  match a with
  | APath _ var v d => wf_delim d && wf_elem d v && ascii_eqb d (mdl_of w var)
  | ASet _ v => nonempty v && negb (mem_ascii c_dollar v)
  | AUnset _ => false
  | _ => true
  end.
Definition mcheck_actions (w : mworld) : bool := forallb (fun p => forallb (maction_ok w) (mp_actions p)) w.

Definition mpath_vars (w : mworld) : list str := map (fun x => fst (fst x)) (mall_paths w).
Definition mset_vars (w : mworld) : list str := map fst (mall_sets w).

Definition mcheck_vars (w : mworld) : bool :=
  forallb (fun k => negb (mem_str k (mset_vars w)) && negb (mmaybe_reserved k)) (mpath_vars w) &&
  forallb (fun k => negb (mmaybe_reserved k)) (mset_vars w).

(* ---------------------------------------------------------------- the fields of WF2 *)

Definition mcheck_rank (w : mworld) (order : list str) : bool :=
  forallb (fun p => forallb (fun m => Nat.ltb (mrank_of order m) (mrank_of order (mp_name p))) (mdep_targets p)) w.

(* the names the mworld speaks about *)
Definition mknown_names (w : mworld) : list str := uniq (flat_map (fun p => mp_name p :: mdep_targets p) w).

Definition mown_vars (w : mworld) (n : str) : list str :=
  [setup_var n; dir_var n; extra_var n] ++
  map fst (mall_sets (filter (fun p => str_eqb (mp_name p) n) w)).

Definition mcheck_var_apart (w : mworld) : bool :=
  let names := mknown_names w in
  forallb (fun n => forallb (fun m => str_eqb n m || mdisjoint_str (mown_vars w n) (mown_vars w m)) names) names.

Definition mcheck_elem_apart (w : mworld) : bool :=
  forallb (fun p => forallb (fun q => str_eqb (mp_name p) (mp_name q) ||
                                       mdisjoint_pair (melem_pairs p) (melem_pairs q)) w) w.

Definition mcheck_versions (w : mworld) : bool :=
  forallb (fun p => forallb (fun q => negb (str_eqb (mp_name p) (mp_name q)) ||
                                       (str_eqb (mp_version p) (mp_version q) && str_eqb (mp_root p) (mp_root q)) ||
                                       (mdisjoint_pair (melem_pairs p) (melem_pairs q) &&
                                        mdisjoint_pair (mset_entries p) (mset_entries q))) w) w.

Definition mcheck_set_once (w : mworld) : bool :=
  forallb (fun p => forallb (fun a => forallb (fun b => negb (str_eqb (fst a) (fst b)) || str_eqb (snd a) (snd b))
                                                (mset_entries p)) (mset_entries p)) w.

Fixpoint mcheck_keys (w : mworld) : bool :=
  match w with
  | [] => true
  | p :: w' => negb (existsb (fun q => str_eqb (mp_name q) (mp_name p) && str_eqb (mp_version q) (mp_version p) &&
                                       str_eqb (mp_root q) (mp_root p)) w') &&
               mcheck_keys w'
  end.

Definition mcheck_words (w : mworld) : bool :=
  forallb (fun p => mword_ok (mp_name p) && mword_ok (mp_version p) && negb (str_eqb (mp_version p) (lit "-f")) &&
                    mword_ok (mp_flavor p) && nonempty (mp_root p) &&
                    str_eqb (decode_path (encode_path (mp_root p))) (mp_root p)) w.

(* the individual verdicts, in a fixed order (for the harness: which field fails) *)
Definition mwf2_fields (w : mworld) (order : list str) : list bool :=
  [mcheck_actions w; mcheck_vars w; mcheck_rank w order; mcheck_var_apart w; mcheck_elem_apart w;
   mcheck_versions w; mcheck_set_once w; mcheck_keys w; mcheck_words w].

Definition mwf2_check (w : mworld) (order : list str) : bool :=
  mcheck_actions w && mcheck_vars w && mcheck_rank w order && mcheck_var_apart w && mcheck_elem_apart w &&
  mcheck_versions w && mcheck_set_once w && mcheck_keys w && mcheck_words w.
