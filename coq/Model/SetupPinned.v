(* Eups.setup as it was BEFORE the fix proposed_fixes/C02-failed-dependency-restores-aliases (finding D36):
   popStack env after a failed dependency restored os.environ only, so the aliases defined by the tables read
   below the failed dependency stayed in Eups.aliases.  Same as Model/Setup.v except for the two failure
   branches of the action loop.  Used only for the witness alias_residue_refuted_pinned of Props/C02.v. *)
From Eupsv Require Import Base.Base Model.PathAlg Model.Setup.

Section Pinned.
Variable w : world.
Variable cfg : config.

Fixpoint run_actions_pinned (rec : setup_fn) (fwd : bool) (depth : nat) (just : bool)
                            (acts : list action) (st : state) (ds : list decision) : result :=
  match acts with
  | [] => RDone true st ds
  | a :: acts' =>
      match a with
      | ASetup optional nm jst =>
          if cut_off cfg just (S depth) then run_actions_pinned rec fwd depth just acts' st ds else
          let saved := s_env st in
          match rec st ds nm fwd (S depth) jst with
          | RDone true st' ds' => run_actions_pinned rec fwd depth just acts' st' ds'
          | RDone false st' ds' =>
              let st'' := with_env st' saved in                 (* the aliases of st' stay *)
              if fwd && negb optional then RRaise st'' ds' else run_actions_pinned rec fwd depth just acts' st'' ds'
          | RRaise st' ds' =>
              let st'' := with_env st' saved in
              if fwd && negb optional then RRaise st'' ds' else run_actions_pinned rec fwd depth just acts' st'' ds'
          | other => other
          end
      | _ =>
          match exec_simple fwd a st with
          | Ok st' => run_actions_pinned rec fwd depth just acts' st' ds
          | Err _ => RRaise st ds
          end
      end
  end.

Definition setup_step_pinned (rec : setup_fn) (st : state) (ds : list decision)
                             (name : str) (fwd : bool) (depth : nat) (just : bool) : result :=
  if fwd then
    match ds with
    | [] => RBad
    | None :: ds1 => RDone false st ds1
    | Some v :: ds1 =>
        match find_pv w name v with
        | None => RBad
        | Some p =>
            let sprod := find_setup_product w (s_env st) name in
            if same_product p sprod && negb (Nat.eqb depth 0) then RDone true st ds1 else
            let r0 := match sprod with
                      | Some _ => rec st ds1 name false depth (just || c_keep cfg)
                      | None => RDone true st ds1
                      end in
            match r0 with
            | RDone _ st1 ds2 => run_actions_pinned rec true depth just (p_actions p) (set_product_vars cfg st1 name p) ds2
            | other => other
            end
        end
    end
  else
    match find_setup_product w (s_env st) name with
    | None => RDone false st ds
    | Some sp => run_actions_pinned rec false depth just (p_actions sp) (unset_product_vars st name) ds
    end.

Fixpoint setup_pinned (fuel : nat) : setup_fn :=
  match fuel with
  | O => fun _ _ _ _ _ _ => RFuel
  | S fuel' => setup_step_pinned (setup_pinned fuel')
  end.

End Pinned.
