(* One Eups object serving several requests (the python interface: selectVRO and Eups.setup once per request).
   The object carries Eups.alreadySetupProducts from one request to the next.
     reset = true    the code after the repair of D63: the table is emptied at the start of every top-level
                     forward request (Eups.setup, fwd and recursionDepth == 0), as in a fresh object
     reset = false   the code before: the top-level product is resolved against the table the previous
                     request left (the rebuild from the environment comes after the resolution)
   A request answers like Model/SetupFull.v request_full and hands the table on. *)
From Eupsv Require Import Base.Base Model.PathAlg Model.Setup Model.Resolve Model.SetupFull.

Section Session.
Variable vcmp : str -> str -> comparison.
Variable vmatch : str -> str -> bool.
Variable fw : fworld.
Variable cfg : Setup.config.
Variable rc : Resolve.config.
Variable flavors : list str.

Definition outcome := res (option state * list decision).

Definition instance_request (reset : bool) (fuel : nat) (al : already) (st : state) (name : str)
                            (version : option str) (fwd just : bool) : outcome * already :=
  match select_vro rc (request_opts cfg version) with
  | Err e => (Err e, al)
  | Ok vro =>
      let al0 := if reset && fwd then [] else al in
      match setup_full vcmp vmatch fw cfg rc flavors fuel st al0 vro name
                       {| li_version := version; li_expr := None |} fwd 0 just with
      | FDone true st' al' tr => (Ok (Some st', tr), al')
      | FDone false _ al' tr => (Ok (None, tr), al')
      | FRaise _ al' tr => (Ok (None, tr), al')
      | FFuel _ => (Err OutOfFuel, al)
      | FBad _ => (Err Crash, al)
      end
  end.

(* a request of a session: name, version, forward, just *)
Definition srequest := (str * option str * bool * bool)%type.

(* the environment a request starts from is the one the last successful request left *)
Definition next_state (st : state) (o : outcome) : state :=
  match o with Ok (Some st', _) => st' | _ => st end.

(* all the requests on ONE object *)
Fixpoint session_run (reset : bool) (fuel : nat) (al : already) (st : state) (rqs : list srequest) : list outcome :=
  match rqs with
  | [] => []
  | (name, version, fwd, just) :: rest =>
      let '(o, al') := instance_request reset fuel al st name version fwd just in
      o :: session_run reset fuel al' (next_state st o) rest
  end.

(* one fresh object per request: what the command line tool does *)
Fixpoint fresh_run (fuel : nat) (st : state) (rqs : list srequest) : list outcome :=
  match rqs with
  | [] => []
  | (name, version, fwd, just) :: rest =>
      let o := request_full vcmp vmatch fw cfg rc flavors fuel st name version fwd just in
      o :: fresh_run fuel (next_state st o) rest
  end.

End Session.
