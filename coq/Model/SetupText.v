(* The setup model run from table TEXTS: composition of the table-file parser model of C11
   (Model/Blocks.v: table_actions = Table._read after _rewrite, then Table.actions) with the setup model
   of C01 / C02 / C04 (Model/Setup.v).

   What lies between the two in the code, and is modelled here:
     - Product.getTable: Table(tablepath, product, addDefaultProduct=None).expandEupsVariables(product);
       with addDefaultProduct not False, _read ends the table with one more block, always selected: the
       implicit product (hooks.config.Eups.defaultProduct), setupRequired, optional and silent
       (table.py 458-469);
     - Table.expandEupsVariables (table.py 163-251): every argument of every action is rewritten, in
       this order: PRODUCTS (the stack root, when there is one); the FIRST of the four spellings
       dollar-brace PRODUCT_DIR, dollar-question-brace PRODUCT_DIR, and the same two with _DIR_EXTRA, found
       by re.search decides which ONE spelling is replaced (all its occurrences; the other spellings
       stay); the spelled-out NAME_DIR of the product itself; PRODUCT_FLAVOR; PRODUCT_NAME;
       PRODUCT_VERSION; UPS_DIR (directory of the table file).  The older synonyms (PROD_DIR, UPS_DB ...)
       were rewritten line by line by _rewrite already (Model/Legacy.v synonyms);
     - Eups.setup: table.actions(setupFlavor, setupType=self.setupType), then Action.execute on each
       action: the command kinds, and Action.processArgs for the words of a dependency line.

   A construct that Model/Setup.v cannot express makes the translation answer Err Refused (the table is
   outside the composed model), never a guessed action:
     - a dependency line with -r (a directory instead of a declared product), with -n or naming the
       product eups (version check only), without a product name (processArgs raises), with an option
       that lacks its value (IndexError); unsetupRequired / unsetupOptional;
     - a delimiter of envPrepend / envAppend that is not one character, or is a character that is special
       in a regular expression (the code builds patterns from it);
     - addAlias or print without argument (IndexError when executed);
     - dollar-question-brace PRODUCT_DIR_EXTRA (replaced or not according to os.path.exists);
     - a subscripted EUPS_PATH reference (replaced from the environment of the moment the table is loaded);
     - a product name with a character other than letters, digits, underscore, minus (the pattern for
       NAME_DIR is built from the name without escaping), or a backslash in the name, version, flavor,
       directory or stack root (re.sub would read it as a template escape).
   Eups.setup reads the table for setupFlavor: when setting up, the flavor the product was found under (a
   product declared under the fall-back flavor generic is read with flavor generic, whatever the running
   flavor); when unsetting up, the flavor that SETUP_NAME records behind -f, which is the same one.  This is
   the code after the repair proposed_fixes/C01-unsetup-reads-table-for-recorded-flavor; before it unsetup
   read the table for the RUNNING flavor, so that a table with a condition on the flavor was undone by other
   commands than the ones executed (world_of_text_pinned_unsetup; unsetup_flavor_refuted_pinned in
   Props/C01.v).
   Assumptions: the table file of a declared product is dir/ups/name.table, the database directory is
   root/ups_db (then Product.stackRoot is the root).
   Executable definitions only. *)
From Eupsv Require Import Base.Base Model.PathAlg Model.Setup Model.Rx Model.Cond Model.Args Model.Legacy
  Model.Blocks Model.TableSpec.

(* ---------------------------------------------------------------- Table.expandEupsVariables *)

(* what the function reads of the Product and of the Table *)
Record pinfo := mkPinfo {
  pi_name : str; pi_version : str; pi_flavor : str; pi_dir : str;
  pi_root : str;        (* product.stackRoot() *)
  pi_ups : str;         (* os.path.dirname(table.file) *)
  pi_extra : str }.     (* product.extraProductDir() *)

Definition c_slash : ascii := "/"%char.
Definition c_quest : ascii := "?"%char.

(* is one of the four spellings at the head of s?  (optional, extra) *)
Definition pdir_at (s : str) : option (bool * bool) :=
  match cs_prefix (lit "${PRODUCT_DIR}") s with
  | Some _ => Some (false, false)
  | None =>
  match cs_prefix (lit "$?{PRODUCT_DIR}") s with
  | Some _ => Some (true, false)
  | None =>
  match cs_prefix (lit "${PRODUCT_DIR_EXTRA}") s with
  | Some _ => Some (false, true)
  | None =>
  match cs_prefix (lit "$?{PRODUCT_DIR_EXTRA}") s with
  | Some _ => Some (true, true)
  | None => None
  end end end end.

(* re.search: the leftmost match *)
Fixpoint find_pdir (s : str) : option (bool * bool) :=
  match pdir_at s with
  | Some r => Some r
  | None => match s with [] => None | _ :: r => find_pdir r end
  end.

(* mat.group(1) *)
Definition pdir_spelling (optional extra : bool) : str :=
  Rx.c_dollar :: (if optional then [c_quest] else []) ++ lit "{PRODUCT_DIR" ++ (if extra then lit "_EXTRA" else []) ++ lit "}".

(* dollar brace EUPS_PATH [ digits ] brace somewhere in s *)
Definition eups_path_at (s : str) : bool :=
  match cs_prefix (lit "${EUPS_PATH[") s with
  | Some r =>
      match Rx.span is_digit r with
      | (_ :: _, r') => match cs_prefix (lit "]}") r' with Some _ => true | None => false end
      | ([], _) => false
      end
  | None => false
  end.
Fixpoint eups_path_sub (s : str) : bool :=
  eups_path_at s || match s with [] => false | _ :: r => eups_path_sub r end.

Definition sub_if (c : bool) (old new s : str) : str := if c then replace_all old new s else s.

(* the body of the innermost loop: one argument *)
Definition expand_arg (pi : pinfo) (v0 : str) : res str :=
  let v1 := sub_if (nonempty (pi_root pi)) (lit "${PRODUCTS}") (pi_root pi) v0 in
  bind (match find_pdir v1 with
        | None => Ok v1
        | Some (optional, extra) =>
            let var := pdir_spelling optional extra in
            if extra then
              if optional then Err Refused                    (* os.path.exists decides *)
              else Ok (sub_if (nonempty (pi_extra pi)) var (pi_extra pi) v1)
            else if optional && str_eqb (pi_dir pi) (lit "none") then Ok v1
            else Ok (sub_if (nonempty (pi_dir pi)) var (pi_dir pi) v1)
        end) (fun v2 =>
  let v3 := sub_if (nonempty (pi_dir pi)) (lit "${" ++ dir_var (pi_name pi) ++ lit "}") (pi_dir pi) v2 in
  let v4 := sub_if (nonempty (pi_flavor pi)) (lit "${PRODUCT_FLAVOR}") (pi_flavor pi) v3 in
  let v5 := replace_all (lit "${PRODUCT_NAME}") (pi_name pi) v4 in
  let v6 := sub_if (nonempty (pi_version pi)) (lit "${PRODUCT_VERSION}") (pi_version pi) v5 in
  let v7 := replace_all (lit "${UPS_DIR}") (pi_ups pi) v6 in
  if eups_path_sub v7 then Err Refused else Ok v7).

Fixpoint map_res {A B} (f : A -> res B) (l : list A) : res (list B) :=
  match l with
  | [] => Ok []
  | a :: r => bind (f a) (fun b => bind (map_res f r) (fun bs => Ok (b :: bs)))
  end.

Definition expand_args (pi : pinfo) (args : list str) : res (list str) := map_res (expand_arg pi) args.

(* the replacement texts are used as re.sub templates, the product name as a pattern *)
Definition no_bsl (s : str) : bool := negb (mem_ascii c_bsl s).
Definition name_char (c : ascii) : bool := is_word c || ascii_eqb c "-"%char.
Definition pinfo_ok (pi : pinfo) : bool :=
  forallb name_char (pi_name pi) && no_bsl (pi_version pi) && no_bsl (pi_flavor pi)
  && no_bsl (pi_dir pi) && no_bsl (pi_root pi) && no_bsl (pi_ups pi) && no_bsl (pi_extra pi).

(* ---------------------------------------------------------------- Action.processArgs *)

Record depargs := mkDep {
  d_words : list str;      (* the words that are not options: product name, then the version words *)
  d_just : bool; d_noaction : bool; d_external : bool; d_dir : bool }.

Definition dep0 : depargs := mkDep [] false false false false.

Definition dash (x : str) : bool := match x with c :: _ => ascii_eqb c "-"%char | [] => false end.
Definition is1 (x : str) (a : string) : bool := str_eqb x (lit a).
Arguments is1 x a%string.
(* python: x in s for two strings (the code tests membership in a parenthesised string for --external
   and --vro: the parentheses do not make tuples, the tests are substring tests) *)
Definition substring_of (x : str) (s : string) : bool := contains x (lit s).
Arguments substring_of x s%string.

(* the while loop; the option value is _args[i + 1]: IndexError when it is missing *)
Fixpoint dep_loop (fuel : nat) (args : list str) (d : depargs) : res depargs :=
  match fuel with
  | O => Err OutOfFuel
  | S fuel' =>
  match args with
  | [] => Ok d
  | x :: r =>
      let skip_value (d' : depargs) :=
          match r with [] => Err Refused | _ :: r' => dep_loop fuel' r' d' end in
      if dash x then
        if is1 x "-f" || is1 x "--flavor" then skip_value d
        else if is1 x "-j" || is1 x "--just" then
          dep_loop fuel' r (mkDep (d_words d) true (d_noaction d) (d_external d) (d_dir d))
        else if is1 x "-k" || is1 x "--keep" then dep_loop fuel' r d
        else if is1 x "-n" || is1 x "--noaction" then
          dep_loop fuel' r (mkDep (d_words d) (d_just d) true (d_external d) (d_dir d))
        else if substring_of x "--external" then
          dep_loop fuel' r (mkDep (d_words d) (d_just d) (d_noaction d) true (d_dir d))
        else if is1 x "-r" then skip_value (mkDep (d_words d) (d_just d) (d_noaction d) (d_external d) true)
        else if is1 x "-T" then skip_value d
        else if is1 x "-t" || is1 x "--tag" then skip_value d
        else if substring_of x "--vro" then skip_value d
        else dep_loop fuel' r d
      else dep_loop fuel' r (mkDep (d_words d ++ [x]) (d_just d) (d_noaction d) (d_external d) (d_dir d))
  end end.

Definition dep_args (args : list str) : res depargs := dep_loop (S (length args)) args dep0.

(* ---------------------------------------------------------------- Action.execute: the command kinds *)

Definition flag (k : str) (extra : list (str * bool)) : bool :=
  match alookup k extra with Some b => b | None => false end.

(* characters that are special in a python regular expression *)
Definition rx_special : str := lit ".^$*+?{}[]\|()".
Definition delim_of (d : str) : res ascii :=
  match d with
  | [c] => if mem_ascii c rx_special then Err Refused else Ok c
  | _ => Err Refused
  end.

Definition dep_action (optional : bool) (args : list str) : res Setup.action :=
  bind (dep_args args) (fun d =>
    if d_dir d then Err Refused else
    match d_words d with
    | [] => Err Refused                                          (* no product specification: RuntimeError *)
    | name :: _ =>
        if d_noaction d || is1 name "eups" then Err Refused      (* a version check of eups itself / RuntimeError *)
        else if d_external d then Ok ANone
        else Ok (ASetup optional name (d_just d))
    end).

Definition path_action (append : bool) (args : list str) : res Setup.action :=
  match args with
  | [var; value] => Ok (APath append var value ":"%char)
  | [var; value; d] => bind (delim_of d) (fun c => Ok (APath append var value c))
  | _ => Err Refused
  end.

(* the action of Model/Setup.v for an Action object (cmd, args after expandEupsVariables, extra) *)
Definition tr_action (a : Args.action) : res Setup.action :=
  let cmd := a_cmd a in
  let args := a_args a in
  if str_eqb cmd k_setupRequired then dep_action (flag s_optional (a_extra a)) args
  else if str_eqb cmd k_unsetupRequired then Err Refused
  else if str_eqb cmd k_envPrepend then path_action (flag s_append (a_extra a)) args
  else if str_eqb cmd k_envSet then
    match args with k :: v :: _ => Ok (ASet k v) | _ => Err Refused end
  else if str_eqb cmd k_envUnset then
    match args with k :: _ => Ok (AUnset k) | [] => Err Refused end
  else if str_eqb cmd k_addAlias then
    match args with k :: r => Ok (AAlias k (join_str [c_sp] r)) | [] => Err Refused end
  else if str_eqb cmd k_print then
    match args with [] => Err Refused | _ => Ok ANone end
  else Ok ANone.                                                   (* declareOptions, prodDir, setupEnv *)

Definition load_action (pi : pinfo) (a : Args.action) : res Setup.action :=
  bind (expand_args pi (a_args a)) (fun args => tr_action (mkAction (a_cmd a) args (a_extra a))).

(* ---------------------------------------------------------------- one table *)

(* Eups.setupType, and the words of the implicit product line (name, then version or --tag tag when the
   configuration has them); no words: no implicit product *)
Record tconfig := mkTconfig { tc_types : list str; tc_implicit : list str }.

Definition s_silent : str := lit "silent".
Definition implicit_actions (tc : tconfig) : list Args.action :=
  match tc_implicit tc with
  | [] => []
  | words => [mkAction k_setupRequired words [(s_optional, true); (s_silent, true)]]
  end.

(* product.getTable().actions(flavor, setupType), each action as Action.execute reads it *)
Definition table_setup_actions (tc : tconfig) (pi : pinfo) (flavor : str) (text : str) : res (list Setup.action) :=
  bind (table_actions true true (pi_name pi) text (mkCenv flavor (tc_types tc))) (fun acts =>
    map_res (load_action pi) (acts ++ implicit_actions tc)).

(* ---------------------------------------------------------------- worlds of texts *)

Record tproduct := mkTproduct { t_name : str; t_version : str; t_dir : str; t_text : str }.
Definition text_world := list tproduct.

Definition pinfo_for (cfg : config) (name version dir : str) : pinfo :=
  let f := flavor_of cfg name version in
  mkPinfo name version f dir (c_root cfg) (dir ++ lit "/ups")
          (c_root cfg ++ lit "/ups_db/" ++ f ++ c_slash :: name ++ c_slash :: version).

(* the product of Model/Setup.v for a declared product; [flavor] says for which flavor its table is read *)
Definition product_of_text_at (cfg : config) (tc : tconfig) (flavor : str -> str -> str) (tp : tproduct) : res product :=
  let pi := pinfo_for cfg (t_name tp) (t_version tp) (t_dir tp) in
  if negb (pinfo_ok pi) then Err Refused else
  bind (table_setup_actions tc pi (flavor (t_name tp) (t_version tp)) (t_text tp)) (fun acts =>
    Ok {| p_name := t_name tp; p_version := t_version tp; p_dir := t_dir tp; p_actions := acts |}).

(* the flavor the product is declared under (see the header) *)
Definition product_of_text (cfg : config) (tc : tconfig) : tproduct -> res product :=
  product_of_text_at cfg tc (flavor_of cfg).

Definition world_of_text (cfg : config) (tc : tconfig) (tw : text_world) : res world :=
  map_res (product_of_text cfg tc) tw.

(* the tables as the code before the repair read them when unsetting up: for the running flavor *)
Definition world_of_text_pinned_unsetup (cfg : config) (tc : tconfig) (tw : text_world) : res world :=
  map_res (product_of_text_at cfg tc (fun _ _ => c_flavor cfg)) tw.

(* Eups.setup / a whole command on the stack whose table files have these texts *)
Definition setup_text (cfg : config) (tc : tconfig) (tw : text_world) (fuel : nat) (st : state)
                      (ds : list decision) (name : str) (fwd : bool) (depth : nat) (just : bool) : res result :=
  bind (world_of_text cfg tc tw) (fun w => Ok (setup w cfg fuel st ds name fwd depth just)).

Definition request_text (cfg : config) (tc : tconfig) (tw : text_world) (fuel : nat) (st : state)
                        (ds : list decision) (name : str) (fwd just : bool) : res (option state) :=
  bind (world_of_text cfg tc tw) (fun w => request w cfg fuel st ds name fwd just).

(* ---------------------------------------------------------------- specification side: tables as syntax trees *)

(* the commands of an items list (Model/TableSpec.v) that apply: unconditional ones in place, for each
   chain the body of the first branch whose condition holds by the truth tables, else the else body *)
Fixpoint pick_cmds (e : cenv) (bs : list branch) (els : option (list cmd * bracelay)) : list cmd :=
  match bs with
  | [] => match els with Some (b, _) => b | None => [] end
  | b :: bs' => if denote e (b_cond b) then b_body b else pick_cmds e bs' els
  end.
Definition item_cmds (e : cenv) (i : item) : list cmd :=
  match i with
  | ICmd c => [c]
  | IChain b0 elifs els _ => pick_cmds e (b0 :: elifs) els
  end.
Definition items_cmds (e : cenv) (is : list item) : list cmd := flat_map (item_cmds e) is.

(* what each documented command means to setup, directly by its kind (no command names, no flags) *)
Definition kind_action (k : ckind) (args : list str) : res Setup.action :=
  match k with
  | KEnvPrepend | KPathPrepend => path_action false args
  | KEnvAppend | KPathAppend => path_action true args
  | KEnvSet | KSetenv | KPathSet => match args with v :: x :: _ => Ok (ASet v x) | _ => Err Refused end
  | KSetupRequired => dep_action false args
  | KSetupOptional => dep_action true args
  | KUnsetupRequired | KUnsetupOptional => Err Refused
  | KAddAlias => match args with n :: r => Ok (AAlias n (join_str [c_sp] r)) | [] => Err Refused end
  | KPrint => match args with [] => Err Refused | _ => Ok ANone end
  | KDeclareOptions | KProdDir | KSetupEnv => Ok ANone
  | KEnvUnset => match args with v :: _ => Ok (AUnset v) | [] => Err Refused end
  end.

(* the arguments a command hands over: as written; envUnset(PRODUCT_DIR) names the directory variable *)
Definition cmd_args (top : str) (c : cmd) : list str :=
  match c_kind c with KEnvUnset => [dir_env_name top] | _ => c_args c end.

Definition cmd_setup_action (pi : pinfo) (c : cmd) : res Setup.action :=
  bind (expand_args pi (cmd_args (pi_name pi) c)) (kind_action (c_kind c)).

(* the meaning of a table given as a syntax tree *)
Definition items_setup_actions (tc : tconfig) (pi : pinfo) (flavor : str) (is : list item) : res (list Setup.action) :=
  bind (map_res (cmd_setup_action pi) (items_cmds (mkCenv flavor (tc_types tc)) is)) (fun acts =>
  bind (map_res (load_action pi) (implicit_actions tc)) (fun imp => Ok (acts ++ imp))).

Record aproduct := mkAproduct { ap_name : str; ap_version : str; ap_dir : str; ap_items : list item }.
Definition ast_world := list aproduct.

Definition print_product (ap : aproduct) : tproduct :=
  mkTproduct (ap_name ap) (ap_version ap) (ap_dir ap) (print_table (ap_items ap)).
Definition print_world (aw : ast_world) : text_world := map print_product aw.

Definition product_of_ast (cfg : config) (tc : tconfig) (ap : aproduct) : res product :=
  let pi := pinfo_for cfg (ap_name ap) (ap_version ap) (ap_dir ap) in
  if negb (pinfo_ok pi) then Err Refused else
  bind (items_setup_actions tc pi (flavor_of cfg (ap_name ap) (ap_version ap)) (ap_items ap)) (fun acts =>
    Ok {| p_name := ap_name ap; p_version := ap_version ap; p_dir := ap_dir ap; p_actions := acts |}).

Definition world_of_ast (cfg : config) (tc : tconfig) (aw : ast_world) : res world :=
  map_res (product_of_ast cfg tc) aw.

(* the alphabet restrictions of C11 on every table, and on the flavors the tables are evaluated for *)
Definition wf_flavor (f : str) : bool := wf_env (mkCenv f []).
Definition wf_aproduct (cfg : config) (ap : aproduct) : bool :=
  wf_items (ap_items ap) && wf_flavor (flavor_of cfg (ap_name ap) (ap_version ap)).
Definition wf_ast_world (cfg : config) (aw : ast_world) : bool := forallb (wf_aproduct cfg) aw.
