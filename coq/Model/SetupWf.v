(* A decision procedure for the hypotheses WF (Proofs/SetupFrame.v) and WF2 (Proofs/SetupInv.v) of the
   setup theorems (C01, C02, C04): given a world and an order of the product names (dependencies first)
   it computes the delimiter function and the rank function the theorems are instantiated with and
   checks every field.  Soundness is proved in Proofs/SetupWf.v; the harness runs the extracted checker
   on every generated world so that the evidence says how many of them the theorems speak about.
   Executable definitions only (wf_delim and wf_elem are the executable tests of Proofs/PathAlg.v). *)
From Eupsv Require Import Base.Base Model.PathAlg Proofs.PathAlg Model.Setup.

(* ---------------------------------------------------------------- what a table contributes *)

Definition path_entries (p : product) : list (str * str * ascii) :=
  flat_map (fun a => match a with APath _ var v d => [(var, v, d)] | _ => [] end) (p_actions p).
Definition set_entries (p : product) : list (str * str) :=
  flat_map (fun a => match a with ASet k v => [(k, v)] | _ => [] end) (p_actions p).
Definition dep_targets (p : product) : list str :=
  flat_map (fun a => match a with ASetup _ n _ => [n] | _ => [] end) (p_actions p).
Definition elem_pairs (p : product) : list (str * str) :=
  map (fun x => (fst (fst x), snd (fst x))) (path_entries p).

Definition all_paths (w : world) : list (str * str * ascii) := flat_map path_entries w.
Definition all_sets (w : world) : list (str * str) := flat_map set_entries w.

(* ---------------------------------------------------------------- the instantiation *)

Fixpoint first_delim (var : str) (l : list (str * str * ascii)) : option ascii :=
  match l with
  | [] => None
  | x :: l' => if str_eqb (fst (fst x)) var then Some (snd x) else first_delim var l'
  end.

(* the delimiter of the first path action on that variable in the world *)
Definition dl_of (w : world) (var : str) : ascii :=
  match first_delim var (all_paths w) with
  | Some d => d
  | None => ":"%char
  end.

(* position of the name in the order; length of the order when absent *)
Fixpoint rank_of (order : list str) (n : str) : nat :=
  match order with
  | [] => 0
  | x :: r => if str_eqb x n then 0 else S (rank_of r n)
  end.

(* ---------------------------------------------------------------- helpers *)

Definition pair_eqb (a b : str * str) : bool := str_eqb (fst a) (fst b) && str_eqb (snd a) (snd b).
Definition disjoint_str (a b : list str) : bool := forallb (fun x => negb (mem_str x b)) a.
Definition disjoint_pair (a b : list (str * str)) : bool :=
  forallb (fun x => negb (existsb (pair_eqb x) b)) a.

(* a sound syntactic test for the variables eups reserves for some product name:
   SETUP_<NAME>, <NAME>_DIR, <NAME>_DIR_EXTRA *)
Definition maybe_reserved (k : str) : bool :=
  starts_with (lit "SETUP_") k || ends_with (lit "_DIR") k || ends_with (lit "_DIR_EXTRA") k.

Definition word_ok (x : str) : bool := nonempty x && negb (mem_ascii c_space x).

(* ---------------------------------------------------------------- the fields of WF *)

Definition action_ok (w : world) (a : action) : bool :=
  match a with
  | APath _ var v d => wf_delim d && wf_elem d v && ascii_eqb d (dl_of w var)
  | ASet _ v => nonempty v && negb (mem_ascii c_dollar v)
  | AUnset _ => false
  | _ => true
  end.
Definition check_actions (w : world) : bool := forallb (fun p => forallb (action_ok w) (p_actions p)) w.

Definition path_vars (w : world) : list str := map (fun x => fst (fst x)) (all_paths w).
Definition set_vars (w : world) : list str := map fst (all_sets w).

Definition check_vars (w : world) : bool :=
  forallb (fun k => negb (mem_str k (set_vars w)) && negb (maybe_reserved k)) (path_vars w) &&
  forallb (fun k => negb (maybe_reserved k)) (set_vars w).

(* ---------------------------------------------------------------- the fields of WF2 *)

Definition check_rank (w : world) (order : list str) : bool :=
  forallb (fun p => forallb (fun m => Nat.ltb (rank_of order m) (rank_of order (p_name p))) (dep_targets p)) w.

(* the names the world speaks about *)
Definition known_names (w : world) : list str := uniq (flat_map (fun p => p_name p :: dep_targets p) w).

Definition own_vars (w : world) (n : str) : list str :=
  [setup_var n; dir_var n; extra_var n] ++
  map fst (all_sets (filter (fun p => str_eqb (p_name p) n) w)).

Definition check_var_apart (w : world) : bool :=
  let names := known_names w in
  forallb (fun n => forallb (fun m => str_eqb n m || disjoint_str (own_vars w n) (own_vars w m)) names) names.

Definition check_elem_apart (w : world) : bool :=
  forallb (fun p => forallb (fun q => str_eqb (p_name p) (p_name q) ||
                                       disjoint_pair (elem_pairs p) (elem_pairs q)) w) w.

Definition check_versions (w : world) : bool :=
  forallb (fun p => forallb (fun q => negb (str_eqb (p_name p) (p_name q)) ||
                                       str_eqb (p_version p) (p_version q) ||
                                       (disjoint_pair (elem_pairs p) (elem_pairs q) &&
                                        disjoint_pair (set_entries p) (set_entries q))) w) w.

Definition check_set_once (w : world) : bool :=
  forallb (fun p => forallb (fun a => forallb (fun b => negb (str_eqb (fst a) (fst b)) || str_eqb (snd a) (snd b))
                                                (set_entries p)) (set_entries p)) w.

Fixpoint check_keys (w : world) : bool :=
  match w with
  | [] => true
  | p :: w' => negb (existsb (fun q => str_eqb (p_name q) (p_name p) && str_eqb (p_version q) (p_version p)) w') &&
               check_keys w'
  end.

Definition check_words (w : world) : bool :=
  forallb (fun p => word_ok (p_name p) && word_ok (p_version p) && negb (str_eqb (p_version p) (lit "-f"))) w.

(* the individual verdicts, in a fixed order (for the harness: which field fails) *)
Definition wf2_fields (w : world) (order : list str) : list bool :=
  [check_actions w; check_vars w; check_rank w order; check_var_apart w; check_elem_apart w;
   check_versions w; check_set_once w; check_keys w; check_words w].

Definition wf2_check (w : world) (order : list str) : bool :=
  check_actions w && check_vars w && check_rank w order && check_var_apart w && check_elem_apart w &&
  check_versions w && check_set_once w && check_keys w && check_words w.
