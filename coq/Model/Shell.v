(* C05 - model of the command emission of eups.app.setup (python/eups/app.py, the block
   from the comment Set new variables down to the last alias loop; joined by a semicolon
   and a newline in setupcmd.py) for the sh family, and a specification of the fragment of
   the POSIX shell language that the emitted text uses.

   Part 1 (emit, render) follows the code that exists, quirks included:
     - a value is wrapped in single quotes iff it is non-empty, does not already look
       quoted (first character a quote, last character - or last before one final
       newline - a quote, no newline in between) and contains python whitespace or one
       of  < > | & ; ( )
     - removed variables are unset, except EUPS_DIR, EUPS_PATH, EUPS_PKGROOT, EUPS_SHELL
       unless the product is eups (the regex ends in a dollar, so a name with one final
       newline is protected as well)
     - unsetup of eups deletes EUPS_PATH, EUPS_PKGROOT, EUPS_SHELL from the new
       environment after the exports have been emitted and before the unsets are
     - for zsh the alias loop does not assign the python variable cmd: the last command
       of the two environment loops is appended again (UnboundLocalError when there was
       none)
   The csh branch and the noaction (echo) branch are not modelled.

   Part 2 (sh_lex, sh_run) is a specification, checked against /bin/dash and /bin/bash by
   the correspondence harness, of: word splitting at blanks, single-quote quoting, the
   command separators semicolon and newline, and the builtins export N=W, unset N, false.
   Every other construct is refused (Err Refused), never given a made-up meaning;
   syntax errors of the fragment are Err BadTable.

   Executable definitions only; lemmas live in Proofs/Shell*.v. *)
From Eupsv Require Import Base.Base.

Definition env := amap str.

(* ------------------------------------------------------------------ characters *)

Definition ch (n : nat) : ascii := ascii_of_nat n.
Definition c_tab := ch 9.
Definition c_nl := ch 10.
Definition c_space := ch 32.
Definition c_squote := ch 39.
Definition c_dquote := ch 34.
Definition c_semi := ch 59.
Definition c_eq := ch 61.

(* string constants, computed here so that the extracted code does not mention Coq strings *)
Definition s_export_sp : str := Eval compute in lit "export ".
Definition s_unset_sp : str := Eval compute in lit "unset ".
Definition s_EUPS_DIR : str := Eval compute in lit "EUPS_DIR".
Definition s_EUPS_PATH : str := Eval compute in lit "EUPS_PATH".
Definition s_EUPS_PKGROOT : str := Eval compute in lit "EUPS_PKGROOT".
Definition s_EUPS_SHELL : str := Eval compute in lit "EUPS_SHELL".
Definition s_fun_open : str := Eval compute in lit "() { ".
Definition s_fun_close : str := Eval compute in lit " ; }".
Definition s_false : str := Eval compute in lit "false".
Definition s_export : str := Eval compute in lit "export".
Definition s_unset : str := Eval compute in lit "unset".

(* python 3  re  \s  on a str, restricted to code points below 128 *)
Definition is_re_space (c : ascii) : bool :=
  let n := nat_of_ascii c in
  (n =? 32) || ((9 <=? n) && (n <=? 13)) || ((28 <=? n) && (n <=? 31)).

(* the other members of the character class in app.py:  < > | & ; ( )  *)
Definition is_meta (c : ascii) : bool :=
  let n := nat_of_ascii c in
  (n =? 60) || (n =? 62) || (n =? 124) || (n =? 38) || (n =? 59) || (n =? 40) || (n =? 41).

Definition is_quote_char (c : ascii) : bool :=
  let n := nat_of_ascii c in (n =? 39) || (n =? 34).

(* ------------------------------------------------------------------ part 1: the emitter *)

(* the regex that decides whether the value already looks quoted: anchored at the start,
   a quote, any characters but newline, a quote, dollar; the dot does not match a newline
   and the dollar also matches just before one final newline *)
Definition strip_final_nl (v : str) : str :=
  match rev v with
  | c :: r => if ascii_eqb c c_nl then rev r else v
  | [] => v
  end.

Definition looks_quoted (v : str) : bool :=
  match strip_final_nl v with
  | a :: rest =>
      match rev rest with
      | z :: mid => is_quote_char a && is_quote_char z && negb (mem_ascii c_nl mid)
      | [] => false
      end
  | [] => false
  end.

Definition needs_quote (v : str) : bool :=
  nonempty v && negb (looks_quoted v) && existsb (fun c => is_re_space c || is_meta c) v.

Definition quote_val (v : str) : str :=
  if needs_quote v then c_squote :: v ++ [c_squote] else v.

Definition export_cmd (k v : str) : str := s_export_sp ++ k ++ c_eq :: quote_val v.
Definition unset_cmd (k : str) : str := s_unset_sp ++ k.

(* the try / except KeyError around  val == oldEnviron[key]  *)
Definition changed (old : env) (kv : str * str) : bool :=
  match alookup (fst kv) old with
  | Some v' => negb (str_eqb (snd kv) v')
  | None => true
  end.

Definition exports (old new : env) : list str :=
  map (fun kv => export_cmd (fst kv) (snd kv)) (filter (changed old) new).

Definition protected_names : list str :=
  [s_EUPS_DIR; s_EUPS_PATH; s_EUPS_PKGROOT; s_EUPS_SHELL].

(* the regex on the key, anchored, dollar-terminated: one final newline is tolerated *)
Definition is_protected (k : str) : bool := mem_str (strip_final_nl k) protected_names.

(* for k in EUPS_PATH, EUPS_PKGROOT, EUPS_SHELL: del os.environ[k]  (unsetup of eups) *)
Definition eups_gone : list str := [s_EUPS_PATH; s_EUPS_PKGROOT; s_EUPS_SHELL].

Definition new_after (is_eups fwd : bool) (new : env) : env :=
  if negb fwd && is_eups then fold_left (fun e k => aremove k e) eups_gone new else new.

Definition unset_wanted (is_eups : bool) (new' : env) (k : str) : bool :=
  negb (negb is_eups && is_protected k) && negb (amem k new').

Definition unsets (is_eups : bool) (old new' : env) : list str :=
  map unset_cmd (filter (unset_wanted is_eups new') (akeys old)).

Inductive shellkind := Sh | Zsh.

(* aliases: python dict name -> text; oldAliases: name -> None or text *)
Definition alias_changed (oldal : amap (option str)) (kv : str * str) : bool :=
  match alookup (fst kv) oldal with
  | Some (Some v') => negb (str_eqb (snd kv) v')
  | Some None => true
  | None => true
  end.

Definition alias_cmd (k v : str) : str := k ++ s_fun_open ++ v ++ s_fun_close.

Definition alias_sets (sk : shellkind) (last : option str) (al : amap str) (oldal : amap (option str))
  : res (list str) :=
  let ch := filter (alias_changed oldal) al in
  match sk with
  | Sh => Ok (map (fun kv => alias_cmd (fst kv) (snd kv)) ch)
  | Zsh =>
      match ch, last with
      | [], _ => Ok []
      | _ :: _, Some c => Ok (map (fun _ => c) ch)
      | _ :: _, None => Err Crash
      end
  end.

Definition alias_unsets (al : amap str) (oldal : amap (option str)) : list str :=
  map unset_cmd (filter (fun k => negb (amem k al)) (akeys oldal)).

(* the command list of a successful setup / unsetup *)
Definition emit (sk : shellkind) (is_eups fwd : bool) (old new : env)
           (al : amap str) (oldal : amap (option str)) : res (list str) :=
  let envcmds := exports old new ++ unsets is_eups old (new_after is_eups fwd new) in
  bind (alias_sets sk (last_opt envcmds) al oldal) (fun a =>
  Ok (envcmds ++ a ++ alias_unsets al oldal)).

(* every failure branch of eups.app.setup returns the single command false *)
Definition emit_failed : list str := [s_false].

(* setupcmd.py prints the commands joined by semicolon-newline; the final newline of print
   is included *)
Definition sep : str := [c_semi; c_nl].
Definition render (cmds : list str) : str := join_str sep cmds ++ [c_nl].

(* what eups computed, as the shell will see it: the new environment, plus the variables
   that were removed but that the code refuses to unset *)
Definition protect (is_eups : bool) (old new' : env) : env :=
  new' ++ filter (fun kv => negb is_eups && is_protected (fst kv) && negb (amem (fst kv) new')) old.

(* ------------------------------------------------------------------ part 2: the shell fragment *)

Definition is_blank (c : ascii) : bool :=
  let n := nat_of_ascii c in (n =? 32) || (n =? 9).

(* unquoted operator characters other than the semicolon: the fragment gives them no meaning *)
Definition is_operator (c : ascii) : bool :=
  let n := nat_of_ascii c in
  (n =? 60) || (n =? 62) || (n =? 124) || (n =? 38) || (n =? 40) || (n =? 41).

(* unquoted characters with a meaning in the shell that the fragment does not cover:
   double quote, dollar, backquote, backslash, hash, star, question mark, brackets,
   tilde, braces, bang; and every control or non-ASCII character *)
Definition is_unmodelled (c : ascii) : bool :=
  let n := nat_of_ascii c in
  (n =? 34) || (n =? 36) || (n =? 96) || (n =? 92) || (n =? 35) || (n =? 42) || (n =? 63) ||
  (n =? 91) || (n =? 93) || (n =? 126) || (n =? 123) || (n =? 125) || (n =? 33) ||
  (n <? 32) || (127 <=? n).

Definition flush_word (cur : option str) (cmd : list str) : list str :=
  match cur with Some w => cmd ++ [w] | None => cmd end.

Definition flush_cmd (cmd : list str) (done : list (list str)) : list (list str) :=
  match cmd with [] => done | _ => done ++ [cmd] end.

Definition cur_text (cur : option str) : str := match cur with Some w => w | None => [] end.

(* q: inside single quotes; cur: the word being read (None: between words); cmd: the words
   of the current simple command; done: the finished commands *)
Fixpoint lex (q : bool) (cur : option str) (cmd : list str) (done : list (list str)) (s : str)
  : res (list (list str)) :=
  match s with
  | [] => if q then Err BadTable else Ok (flush_cmd (flush_word cur cmd) done)
  | c :: r =>
      if q then
        if ascii_eqb c c_squote then lex false cur cmd done r
        else lex true (Some (cur_text cur ++ [c])) cmd done r
      else if ascii_eqb c c_squote then lex true (Some (cur_text cur)) cmd done r
      else if is_blank c then lex false None (flush_word cur cmd) done r
      else if ascii_eqb c c_nl then lex false None [] (flush_cmd (flush_word cur cmd) done) r
      else if ascii_eqb c c_semi then
        match flush_word cur cmd with
        | [] => Err BadTable
        | w => lex false None [] (done ++ [w]) r
        end
      else if is_operator c || is_unmodelled c then Err Refused
      else lex false (Some (cur_text cur ++ [c])) cmd done r
  end.

Definition sh_lex (s : str) : res (list (list str)) := lex false None [] [] s.

Definition is_name_start (c : ascii) : bool := is_alpha c || (nat_of_ascii c =? 95).
Definition valid_name (k : str) : bool :=
  match k with
  | c :: r => is_name_start c && forallb is_word r
  | [] => false
  end.

(* split NAME=WORD at the first equals sign *)
Fixpoint split_assign (w : str) : option (str * str) :=
  match w with
  | [] => None
  | c :: r =>
      if ascii_eqb c c_eq then Some ([], r)
      else match split_assign r with
           | Some (k, v) => Some (c :: k, v)
           | None => None
           end
  end.

Fixpoint run_export (args : list str) (e : env) : res env :=
  match args with
  | [] => Ok e
  | a :: r =>
      match split_assign a with
      | Some (k, v) => if valid_name k then run_export r (aset k v e) else Err Refused
      | None => Err Refused
      end
  end.

Fixpoint run_unset (args : list str) (e : env) : res env :=
  match args with
  | [] => Ok e
  | a :: r => if valid_name a then run_unset r (aremove a e) else Err Refused
  end.

Definition run_cmd (c : list str) (e : env) : res env :=
  match c with
  | [] => Ok e
  | w :: args =>
      if str_eqb w s_export then
        match args with [] => Err Refused | _ => run_export args e end
      else if str_eqb w s_unset then
        match args with [] => Err Refused | _ => run_unset args e end
      else if str_eqb w s_false then Ok e
      else Err Refused
  end.

Fixpoint sh_run (cs : list (list str)) (e : env) : res env :=
  match cs with
  | [] => Ok e
  | c :: r => bind (run_cmd c e) (sh_run r)
  end.

Definition sh_source (text : str) (e : env) : res env := bind (sh_lex text) (fun cs => sh_run cs e).

(* ------------------------------------------------------------------ the claim alphabet *)

(* path-like text  A-Z a-z 0-9 / . _ : + , = @ % -  *)
Definition is_pathlike (c : ascii) : bool :=
  let n := nat_of_ascii c in
  is_alpha c || is_digit c ||
  (n =? 47) || (n =? 46) || (n =? 95) || (n =? 58) || (n =? 43) || (n =? 44) || (n =? 61) ||
  (n =? 64) || (n =? 37) || (n =? 45).

(* ... plus blank, tab, newline and  < > | & ; ( )  *)
Definition is_claim_char (c : ascii) : bool :=
  is_pathlike c || is_blank c || ascii_eqb c c_nl || is_meta c.

Definition claim_value (v : str) : bool := forallb is_claim_char v.

Definition claim_env (old new : env) : bool :=
  forallb (fun kv => negb (changed old kv) || claim_value (snd kv)) new.

Definition valid_names (e : env) : bool := forallb valid_name (akeys e).

Fixpoint nodup_keys (l : list str) : bool :=
  match l with
  | [] => true
  | k :: r => negb (mem_str k r) && nodup_keys r
  end.

(* unsetup of eups: a variable among the three that the code deletes at the end must have
   been in the old environment, otherwise its export is emitted and never taken back *)
Definition gone_ok (is_eups fwd : bool) (old new : env) : bool :=
  if negb fwd && is_eups then
    forallb (fun k => negb (amem k new) || amem k old) eups_gone
  else true.

Definition env_equiv (a b : env) : Prop := forall k, alookup k a = alookup k b.

(* the hypotheses of the property, bundled: names are identifiers, the new environment is a
   dict, changed values lie in the claim alphabet, and gone_ok *)
Definition in_claim (is_eups fwd : bool) (old new : env) : bool :=
  valid_names old && valid_names new && nodup_keys (akeys new) && claim_env old new &&
  gone_ok is_eups fwd old new.

(* env' is what the shell fragment leaves after sourcing, from old, the text printed for a
   successful setup (fwd) or unsetup of a product (is_eups: the product is eups itself) that
   computed the environment new; no aliases *)
Definition sourced (is_eups fwd : bool) (old new env' : env) : Prop :=
  exists cmds, emit Sh is_eups fwd old new [] [] = Ok cmds /\ sh_source (render cmds) old = Ok env'.

(* --force: the table actions envSet, envPrepend and envAppend delete their variable from
   Eups.oldEnviron (so that its export is emitted again even when the value did not change);
   the baseline of the delta is then the caller's environment minus the forced names, while
   the shell still starts from the caller's environment *)
Definition forget (forced : list str) (caller : env) : env :=
  fold_left (fun e k => aremove k e) forced caller.

(* what the (repaired) table actions guarantee: a forgotten variable is one the action then
   sets, so it is present in the computed environment *)
Definition forced_ok (forced : list str) (new' : env) : bool :=
  forallb (fun k => amem k new') forced.
