(* C05, extension - what sits around the emitter of Model/Shell.v:

   Part 1: the command-line front end setupcmd.EupsSetup.execute.  The command list that
   eups.app.setup returned is printed, joined, on standard output whatever the verbosity;
   when Eups.verbose is above 3 the same list is first written to standard error under the
   heading Issuing commands.  The option -q sets the verbosity to 0 (EupsSetup.__init__).
   Standard output is what the shell wrapper sources.

   Part 2: the python interface eups.setup / eups.unsetup called several times by one process
   without an Eups object of the caller's.  Every call makes its own Eups object, whose
   constructor copies os.environ into oldEnviron: the baseline of the delta of a call is the
   environment the process has at that call, that is the environment the previous call left.
   A failed call returns the single command false and leaves whatever it leaves in os.environ.

   stale_session is NOT the code: it is the same loop with one snapshot of the environment kept
   for all the calls (one Eups object for the whole session), here only to show by a refuted
   example that the refreshed baseline is what the soundness of a session rests on.

   Executable definitions only; lemmas in Proofs/ShellSession.v. *)
From Eupsv Require Import Base.Base Model.Shell.

(* ------------------------------------------------------------------ part 1: the front end *)

Definition s_issuing : str := Eval compute in lit "Issuing commands:".

(* if self.opts.quiet: self.opts.verbose = 0 *)
Definition effective_verbose (nv : nat) (quiet : bool) : nat := if quiet then 0 else nv.

(* print(newline-tab .join([Issuing commands:] + cmds), file=sys.stderr) *)
Definition listing (cmds : list str) : str := join_str [c_nl; c_tab] (s_issuing :: cmds) ++ [c_nl].

(* (standard output, what is added at the end of standard error) for nv flags -v *)
Definition front_end (nv : nat) (quiet : bool) (cmds : list str) : str * option str :=
  (render cmds, if 3 <? effective_verbose nv quiet then Some (listing cmds) else None).

Definition cli_stdout (nv : nat) (quiet : bool) (cmds : list str) : str := fst (front_end nv quiet cmds).

(* ------------------------------------------------------------------ part 2: sessions *)

Inductive apicall :=
| Call (is_eups fwd : bool) (new : env) (al : amap str) (oldal : amap (option str))
| Failed (lft : env).

(* os.environ when the call returns *)
Definition call_after (c : apicall) : env :=
  match c with
  | Call is_eups fwd new _ _ => new_after is_eups fwd new
  | Failed lft => lft
  end.

(* the return value of the call, computed against the baseline *)
Definition call_cmds (baseline : env) (c : apicall) : res (list str) :=
  match c with
  | Call is_eups fwd new al oldal => emit Sh is_eups fwd baseline new al oldal
  | Failed _ => Ok emit_failed
  end.

(* for each call: the environment of the process at the call and the text of its commands *)
Fixpoint api_session (cur : env) (calls : list apicall) : res (list (env * str)) :=
  match calls with
  | [] => Ok []
  | c :: r =>
      bind (call_cmds cur c) (fun cmds =>
      bind (api_session (call_after c) r) (fun rest =>
      Ok ((cur, render cmds) :: rest)))
  end.

Fixpoint stale_session (snapshot cur : env) (calls : list apicall) : res (list (env * str)) :=
  match calls with
  | [] => Ok []
  | c :: r =>
      bind (call_cmds snapshot c) (fun cmds =>
      bind (stale_session snapshot (call_after c) r) (fun rest =>
      Ok ((cur, render cmds) :: rest)))
  end.

(* os.environ at the end of the session *)
Fixpoint session_final (cur : env) (calls : list apicall) : env :=
  match calls with
  | [] => cur
  | c :: r => session_final (call_after c) r
  end.

(* one shell sourcing the texts one after the other *)
Fixpoint sh_chain (texts : list str) (e : env) : res env :=
  match texts with
  | [] => Ok e
  | t :: r => bind (sh_source t e) (sh_chain r)
  end.

(* what the shell that sourced the text of call c from the environment b must hold *)
Definition call_shell_env (b : env) (c : apicall) : env :=
  match c with
  | Call is_eups fwd new _ _ => protect is_eups b (new_after is_eups fwd new)
  | Failed _ => b
  end.

(* the hypotheses of emit_sound at every call (function definitions are outside the shell fragment) *)
Definition call_in_claim (cur : env) (c : apicall) : bool :=
  match c with
  | Call is_eups fwd new al oldal =>
      in_claim is_eups fwd cur new &&
      match al, oldal with [], [] => true | _, _ => false end
  | Failed _ => true
  end.

Fixpoint session_in_claim (cur : env) (calls : list apicall) : bool :=
  match calls with
  | [] => true
  | c :: r => call_in_claim cur c && session_in_claim (call_after c) r
  end.

(* no call removes a variable that the code refuses to unset, and no call fails: then the one shell and
   the python process stay in step *)
Definition call_keeps (cur : env) (c : apicall) : bool :=
  match c with
  | Call is_eups fwd new _ _ =>
      forallb (fun k => is_eups || negb (is_protected k) || amem k (new_after is_eups fwd new)) (akeys cur)
  | Failed _ => false
  end.

Fixpoint session_keeps (cur : env) (calls : list apicall) : bool :=
  match calls with
  | [] => true
  | c :: r => call_keeps cur c && session_keeps (call_after c) r
  end.
