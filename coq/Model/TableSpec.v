(* C11 - the SPECIFICATION side: the documented table-file grammar as an abstract syntax
   tree that carries its layout (spacing, letter case, quoting, comments), its printers
   (to text, and to the intermediate token / line-kind forms) and its denotation, written
   without reference to the parser models.  Executable definitions only. *)
From Eupsv Require Import Base.Base Model.Rx Model.Cond Model.Args Model.Legacy Model.Blocks.

(* ================================================================ conditions *)

Inductive cvar := CFlavor | CType.
Inductive cmpop := OEq | ONe.
Inductive binop := BOr | BAnd.
Inductive quote := QNone | QSingle | QDouble.

(* layout of one comparison: the spelling of FLAVOR / TYPE as written (any letter case),
   blanks before and after the operator, quoting of the literal *)
Record alay := mkAlay { al_sp : str; al_s1 : nat; al_s2 : nat; al_q : quote }.

Inductive cond :=
| Atom (l : alay) (v : cvar) (o : cmpop) (x : str)
| Bin (s1 s2 : nat) (o : binop) (a b : cond)
| Paren (s1 s2 : nat) (c : cond).

(* truth tables; the grammar of the VersionParser docstring (expr : term | expr op term)
   makes both operators left-associative with equal precedence, which is what the tree
   shape records: the printer parenthesises a right operand that is itself a Bin *)
Definition denote_atom (e : cenv) (v : cvar) (o : cmpop) (x : str) : bool :=
  let hit := match v with
             | CFlavor => str_eqb (ce_flavor e) x
             | CType => mem_str x (ce_types e)
             end in
  match o with OEq => hit | ONe => negb hit end.

Fixpoint denote (e : cenv) (c : cond) : bool :=
  match c with
  | Atom _ v o x => denote_atom e v o x
  | Bin _ _ BOr a b => denote e a || denote e b
  | Bin _ _ BAnd a b => denote e a && denote e b
  | Paren _ _ c' => denote e c'
  end.

Definition var_name (v : cvar) : str :=
  match v with CFlavor => lit "flavor" | CType => lit "type" end.
Definition pr_cmp (o : cmpop) : str := match o with OEq => lit "==" | ONe => lit "!=" end.
Definition pr_bin (o : binop) : str := match o with BOr => lit "||" | BAnd => lit "&&" end.
Definition pr_quote (q : quote) : str :=
  match q with QNone => [] | QSingle => [c_sq] | QDouble => [c_dq] end.
Definition sp (n : nat) : str := repeat c_sp n.
Definition s_lp : str := [c_lp].
Definition s_rp : str := [c_rp].

Definition is_bin (c : cond) : bool := match c with Bin _ _ _ _ _ => true | _ => false end.

(* the tokens *)
Fixpoint cond_toks (c : cond) : list str :=
  match c with
  | Atom l v o x => [al_sp l; pr_cmp o; x]
  | Bin _ _ o a b =>
      cond_toks a ++ pr_bin o ::
      (if is_bin b then s_lp :: cond_toks b ++ [s_rp] else cond_toks b)
  | Paren _ _ c' => s_lp :: cond_toks c' ++ [s_rp]
  end.

(* the text *)
Fixpoint print_cond (c : cond) : str :=
  match c with
  | Atom l v o x =>
      al_sp l ++ sp (al_s1 l) ++ pr_cmp o ++ sp (al_s2 l) ++ pr_quote (al_q l) ++ x ++ pr_quote (al_q l)
  | Bin s1 s2 o a b =>
      print_cond a ++ sp s1 ++ pr_bin o ++ sp s2 ++
      (if is_bin b then s_lp ++ print_cond b ++ s_rp else print_cond b)
  | Paren s1 s2 c' => s_lp ++ sp s1 ++ print_cond c' ++ sp s2 ++ s_rp
  end.

(* alphabet: a literal (flavor or type name) is an identifier-like word that starts with
   a letter and is not one of the words the evaluator gives a meaning to *)
Definition first_alpha (s : str) : bool := match s with c :: _ => is_alpha c | [] => false end.
Definition reserved_words : list str :=
  [lit "True"; lit "False"; lit "EOF"; lit "not"].
Definition wf_lit (x : str) : bool :=
  first_alpha x && forallb is_wordc x
  && negb (mem_str x reserved_words)
  && negb (mem_str (lower_str x) [lit "flavor"; lit "type"]).
Definition wf_alay (v : cvar) (l : alay) : bool := str_eqb (lower_str (al_sp l)) (var_name v).

Fixpoint wf_cond (c : cond) : bool :=
  match c with
  | Atom l v _ x => wf_alay v l && wf_lit x
  | Bin _ _ _ a b => wf_cond a && wf_cond b
  | Paren _ _ c' => wf_cond c'
  end.

(* the flavor being set up: starts with a letter, is not a reserved word *)
Definition wf_env (e : cenv) : bool :=
  first_alpha (ce_flavor e) && negb (mem_str (ce_flavor e) reserved_words).

(* ================================================================ commands *)

Inductive ckind :=
| KEnvPrepend | KEnvAppend | KPathPrepend | KPathAppend
| KEnvSet | KSetenv | KPathSet
| KSetupRequired | KSetupOptional | KUnsetupRequired | KUnsetupOptional
| KAddAlias | KDeclareOptions | KPrint | KProdDir | KSetupEnv
| KEnvUnset.     (* envUnset(PRODUCT_DIR), the only supported use *)

Definition kind_name (k : ckind) : str :=
  match k with
  | KEnvPrepend => lit "envPrepend" | KEnvAppend => lit "envAppend"
  | KPathPrepend => lit "pathPrepend" | KPathAppend => lit "pathAppend"
  | KEnvSet => lit "envSet" | KSetenv => lit "setenv" | KPathSet => lit "pathSet"
  | KSetupRequired => lit "setupRequired" | KSetupOptional => lit "setupOptional"
  | KUnsetupRequired => lit "unsetupRequired" | KUnsetupOptional => lit "unsetupOptional"
  | KAddAlias => lit "addAlias" | KDeclareOptions => lit "declareOptions"
  | KPrint => lit "print" | KProdDir => lit "prodDir" | KSetupEnv => lit "setupEnv"
  | KEnvUnset => lit "envUnset"
  end.

(* what the documentation says each command means: the command of the resulting action
   and its flags *)
Definition kind_sem (k : ckind) : str * list (str * bool) :=
  match k with
  | KEnvPrepend | KPathPrepend => (lit "envPrepend", [(lit "append", false)])
  | KEnvAppend | KPathAppend => (lit "envPrepend", [(lit "append", true)])
  | KEnvSet | KSetenv | KPathSet => (lit "envSet", [])
  | KSetupRequired => (lit "setupRequired", [(lit "optional", false)])
  | KSetupOptional => (lit "setupRequired", [(lit "optional", true)])
  | KUnsetupRequired => (lit "unsetupRequired", [(lit "optional", false)])
  | KUnsetupOptional => (lit "unsetupRequired", [(lit "optional", true)])
  | KAddAlias => (lit "addAlias", [])
  | KDeclareOptions => (lit "declareOptions", [])
  | KPrint => (lit "print", [])
  | KProdDir => (lit "prodDir", [])
  | KSetupEnv => (lit "setupEnv", [])
  | KEnvUnset => (lit "envUnset", [])
  end.

(* layout of the argument list: blanks after the opening parenthesis, for every argument
   after the first the separator written before it and whether it is quoted, blanks
   before the closing parenthesis *)
Record arglay := mkArglay { gl_lead : nat; gl_rest : list (str * bool); gl_trail : nat }.

(* layout of a command line: junk lines (blank or comment only) before it, indentation,
   the name as written, blanks before the parenthesis, the arguments, blanks and the
   optional semicolon, the rest of the line (blanks, possibly a comment) *)
Record cmdlay := mkCmdlay {
  cl_junk : list str; cl_indent : str; cl_spell : str; cl_sp : str; cl_args : arglay;
  cl_presemi : str; cl_semi : bool; cl_after : str }.

Record cmd := mkCmd { c_kind : ckind; c_args : list str; c_lay : cmdlay }.

Definition denote_cmd (top : str) (c : cmd) : action :=
  let '(name, extra) := kind_sem (c_kind c) in
  mkAction name
    (match c_kind c with KEnvUnset => [dir_env_name top] | _ => c_args c end)
    extra.

(* a double quote that belongs to a value is written backslash, quote (the manual on
   addAlias: do not forget to escape the quotes); every other character is written as
   it is.  A value without double quote is printed unchanged. *)
Definition esc_dq (a : str) : str :=
  flat_map (fun c => if ascii_eqb c c_dq then [c_bsl; c_dq] else [c]) a.

Definition pr_arg (q : bool) (a : str) : str :=
  if q then c_dq :: esc_dq a ++ [c_dq] else esc_dq a.

Fixpoint pr_rest (l : list (str * bool)) (args : list str) : str :=
  match l, args with
  | (sep, q) :: l', a :: args' => sep ++ pr_arg q a ++ pr_rest l' args'
  | _, _ => []
  end.

Definition print_args (g : arglay) (args : list str) : str :=
  match args with
  | [] => sp (gl_lead g)
  | a0 :: rest => sp (gl_lead g) ++ esc_dq a0 ++ pr_rest (gl_rest g) rest ++ sp (gl_trail g)
  end.

(* the line as it is after _rewrite has removed the indentation and the comment *)
Definition cmd_core (c : cmd) : str :=
  let l := c_lay c in
  cl_spell l ++ cl_sp l ++ c_lp :: print_args (cl_args l) (c_args c) ++ c_rp ::
  cl_presemi l ++ (if cl_semi l then [c_semi] else []).

Definition cmd_line (c : cmd) : str := cl_indent (c_lay c) ++ cmd_core c ++ cl_after (c_lay c).

(* ---- alphabets *)

(* characters no value may contain: the hash (a comment starts there), the backslash (it is
   the escape character: a value ending in one would swallow the closing quote), line ends,
   the three control characters _read uses as place holders.  The double quote IS a
   character of values (written backslash, quote). *)
Definition bad_arg_char (c : ascii) : bool :=
  ascii_eqb c c_hash || ascii_eqb c c_bsl || ascii_eqb c c_nl
  || ascii_eqb c (chr 13) || ascii_eqb c c_01 || ascii_eqb c c_02 || ascii_eqb c c_03.
(* a value: non-empty, none of the characters above *)
Definition wf_value (a : str) : bool := nonempty a && forallb (fun c => negb (bad_arg_char c)) a.
(* may be written without quotes: no blank of any kind, no comma *)
Definition bare_ok (a : str) : bool :=
  forallb (fun c => negb (is_pyspace c || ascii_eqb c c_comma)) a.
(* inside quotes the only blank is the space (a tab would not be protected by _read) *)
Definition quoted_ok (a : str) : bool :=
  forallb (fun c => negb (is_pyspace c) || ascii_eqb c c_sp) a.

Definition all_sp (s : str) : bool := forallb (fun c => ascii_eqb c c_sp) s.
(* a separator: spaces with at most one comma, not empty *)
Definition wf_sep (s : str) : bool :=
  nonempty s && forallb is_argsep s
  && (length (filter (fun c => ascii_eqb c c_comma) s) <=? 1).

Fixpoint wf_rest (l : list (str * bool)) (args : list str) : bool :=
  match l, args with
  | [], [] => true
  | (sep, q) :: l', a :: args' =>
      wf_sep sep && wf_value a && (if q then quoted_ok a else bare_ok a) && wf_rest l' args'
  | _, _ => false
  end.

Definition wf_args (g : arglay) (args : list str) : bool :=
  match args with
  | [] => match gl_rest g with [] => true | _ => false end
  | a0 :: rest => wf_value a0 && bare_ok a0 && wf_rest (gl_rest g) rest
  end.

(* ---- is a text inside the argument grammar?  A recogniser that certifies its own answer:
   args_parse cuts the text into leading blanks, values with their separators and quoting,
   trailing blanks (one left-to-right pass; backslash-quote inside a value is a quote, any
   other use of a backslash, a quote inside a bare word, text glued to a closing quote, a
   quoted first value stop it); args_class answers Some args only when the layout and values
   found are well formed AND print back to the very text.  None = outside the grammar:
   nothing is claimed about the text. *)
Inductive amode :=
| AMLead (n : nat)
| AMBare (sep cur : str) (bs : bool)
| AMQuoted (sep cur : str) (bs : bool)
| AMSep (sep : str).

Definition aentry := (str * bool * str)%type.

Definition astep (m : amode) (acc : list aentry) (c : ascii) : option (amode * list aentry) :=
  match m with
  | AMLead n =>
      if ascii_eqb c c_sp then Some (AMLead (S n), acc)
      else if ascii_eqb c c_dq || ascii_eqb c c_comma then None
      else if ascii_eqb c c_bsl then Some (AMBare [] [] true, acc)
      else Some (AMBare [] [c] false, acc)
  | AMBare sep cur bs =>
      if bs then (if ascii_eqb c c_dq then Some (AMBare sep (c :: cur) false, acc) else None)
      else if ascii_eqb c c_bsl then Some (AMBare sep cur true, acc)
      else if is_argsep c then Some (AMSep [c], (sep, false, rev cur) :: acc)
      else if ascii_eqb c c_dq then None
      else Some (AMBare sep (c :: cur) false, acc)
  | AMQuoted sep cur bs =>
      if bs then (if ascii_eqb c c_dq then Some (AMQuoted sep (c :: cur) false, acc) else None)
      else if ascii_eqb c c_bsl then Some (AMQuoted sep cur true, acc)
      else if ascii_eqb c c_dq then Some (AMSep [], (sep, true, rev cur) :: acc)
      else Some (AMQuoted sep (c :: cur) false, acc)
  | AMSep sep =>
      if is_argsep c then Some (AMSep (c :: sep), acc)
      else match sep with
           | [] => None
           | _ =>
               if ascii_eqb c c_dq then Some (AMQuoted (rev sep) [] false, acc)
               else if ascii_eqb c c_bsl then Some (AMBare (rev sep) [] true, acc)
               else Some (AMBare (rev sep) [c] false, acc)
           end
  end.

Fixpoint aparse (m : amode) (acc : list aentry) (t : str) : option (list aentry * nat) :=
  match t with
  | [] =>
      match m with
      | AMLead _ => Some ([], 0)
      | AMBare sep cur false => Some (rev ((sep, false, rev cur) :: acc), 0)
      | AMSep sep => Some (rev acc, length sep)
      | _ => None
      end
  | c :: r => match astep m acc c with Some (m', acc') => aparse m' acc' r | None => None end
  end.

Definition args_parse (t : str) : option (arglay * list str) :=
  match aparse (AMLead 0) [] t with
  | Some (es, trail) =>
      Some (mkArglay (length (fst (span (fun c => ascii_eqb c c_sp) t)))
                     (map (fun e : aentry => (fst (fst e), snd (fst e))) (tl es)) trail,
            map (fun e : aentry => snd e) es)
  | None => None
  end.

Definition args_class (t : str) : option (list str) :=
  match args_parse t with
  | Some (g, args) => if wf_args g args && str_eqb (print_args g args) t then Some args else None
  | None => None
  end.

Definition arity_ok (k : ckind) (args : list str) : bool :=
  match k with
  | KEnvPrepend | KEnvAppend | KPathPrepend | KPathAppend =>
      (2 <=? length args) && (length args <=? 3)
  | KEnvSet | KSetenv | KPathSet => length args =? 2
  | KEnvUnset => match args with [a] => str_eqb a (lit "PRODUCT_DIR") | _ => false end
  | _ => true
  end.

Definition synonym_olds : list str :=
  [lit "${PROD_DIR}"; lit "${UPS_PROD_DIR}"; lit "${UPS_PROD_FLAVOR}"; lit "${UPS_PROD_NAME}";
   lit "${UPS_PROD_VERSION}"; lit "${UPS_DB}"; lit "${UPS_UPS_DIR}"].

Definition no_newline (s : str) : bool :=
  forallb (fun c => negb (ascii_eqb c c_nl || ascii_eqb c (chr 13))) s.
Definition no_hash (s : str) : bool := forallb (fun c => negb (ascii_eqb c c_hash)) s.

(* the rest of a line after its last significant character: blanks, then possibly a
   comment *)
Definition wf_after (s : str) : bool :=
  no_newline s &&
  match drop_ws s with
  | [] => true
  | c :: _ => ascii_eqb c c_hash
  end.
(* a line that carries nothing: blanks, then possibly a comment *)
Definition wf_junk (s : str) : bool := wf_after s.

Definition wf_cmd (c : cmd) : bool :=
  let l := c_lay c in
  str_eqb (lower_str (cl_spell l)) (lower_str (kind_name (c_kind c)))
  && arity_ok (c_kind c) (c_args c)
  && wf_args (cl_args l) (c_args c)
  && negb (mem_str (lit "-f") (c_args c))
  && forallb wf_junk (cl_junk l)
  && all_ws (cl_indent l) && no_newline (cl_indent l)
  && all_ws (cl_sp l) && no_newline (cl_sp l)
  && all_ws (cl_presemi l) && no_newline (cl_presemi l)
  && wf_after (cl_after l)
  && forallb (fun o => negb (contains o (cmd_core c))) synonym_olds.

(* ================================================================ items *)

(* layout of a brace line: junk lines before, indentation, the blanks between its words,
   the rest of the line *)
Record bracelay := mkBracelay {
  bl_junk : list str; bl_indent : str;
  bl_s0 : str;       (* right brace .. else *)
  bl_s00 : str;      (* else .. if *)
  bl_s1 : str;       (* if .. ( *)
  bl_s2 : str;       (* ) .. left brace,  or  else .. left brace *)
  bl_after : str }.

Record branch := mkBranch { b_cond : cond; b_body : list cmd; b_lay : bracelay }.

Inductive item :=
| ICmd (c : cmd)
| IChain (b0 : branch) (elifs : list branch) (els : option (list cmd * bracelay)) (close : bracelay).

Definition denote_body (top : str) (b : list cmd) : list action := map (denote_cmd top) b.

(* the first branch whose condition is true, else the else branch *)
Fixpoint pick_branch (e : cenv) (top : str) (bs : list branch) (els : option (list cmd * bracelay))
  : list action :=
  match bs with
  | [] => match els with Some (b, _) => denote_body top b | None => [] end
  | b :: bs' => if denote e (b_cond b) then denote_body top (b_body b) else pick_branch e top bs' els
  end.

Definition denote_item (e : cenv) (top : str) (i : item) : list action :=
  match i with
  | ICmd c => [denote_cmd top c]
  | IChain b0 elifs els _ => pick_branch e top (b0 :: elifs) els
  end.

Definition denote_items (e : cenv) (top : str) (is : list item) : list action :=
  flat_map (denote_item e top) is.

(* ---- level B: the classified lines of the items *)

Definition cmd_kind_line (c : cmd) : linekind :=
  LCmd (cl_spell (c_lay c)) (print_args (cl_args (c_lay c)) (c_args c)).

Definition item_kinds (i : item) : list linekind :=
  match i with
  | ICmd c => [cmd_kind_line c]
  | IChain b0 elifs els _ =>
      LIf (print_cond (b_cond b0)) :: map cmd_kind_line (b_body b0)
      ++ flat_map (fun b => LElseIf (print_cond (b_cond b)) :: map cmd_kind_line (b_body b)) elifs
      ++ (match els with Some (b, _) => LElse true :: map cmd_kind_line b | None => [] end)
      ++ [LClose]
  end.

Definition items_kinds (is : list item) : list linekind := flat_map item_kinds is.

(* ---- level A: the text *)

Definition if_core (b : branch) : str :=
  let l := b_lay b in
  lit "if" ++ bl_s1 l ++ c_lp :: print_cond (b_cond b) ++ c_rp :: bl_s2 l ++ [c_lb].
Definition elif_core (b : branch) : str :=
  let l := b_lay b in
  c_rb :: bl_s0 l ++ lit "else" ++ bl_s00 l ++ lit "if" ++ bl_s1 l ++ c_lp ::
  print_cond (b_cond b) ++ c_rp :: bl_s2 l ++ [c_lb].
Definition else_core (l : bracelay) : str := c_rb :: bl_s0 l ++ lit "else" ++ bl_s2 l ++ [c_lb].
Definition close_core : str := [c_rb].

Definition brace_line (l : bracelay) (core : str) : list str :=
  bl_junk l ++ [bl_indent l ++ core ++ bl_after l].
Definition cmd_lines (c : cmd) : list str := cl_junk (c_lay c) ++ [cmd_line c].

Definition item_lines (i : item) : list str :=
  match i with
  | ICmd c => cmd_lines c
  | IChain b0 elifs els cl =>
      brace_line (b_lay b0) (if_core b0) ++ flat_map cmd_lines (b_body b0)
      ++ flat_map (fun b => brace_line (b_lay b) (elif_core b) ++ flat_map cmd_lines (b_body b)) elifs
      ++ (match els with
          | Some (b, l) => brace_line l (else_core l) ++ flat_map cmd_lines b
          | None => []
          end)
      ++ brace_line cl close_core
  end.

Definition items_lines (is : list item) : list str := flat_map item_lines is.

(* every line followed by a newline *)
Definition print_table (is : list item) : str :=
  flat_map (fun l => l ++ [c_nl]) (items_lines is).

(* ---- well-formedness of items *)

Definition wf_bracelay (l : bracelay) : bool :=
  forallb wf_junk (bl_junk l)
  && all_ws (bl_indent l) && no_newline (bl_indent l)
  && all_ws (bl_s0 l) && no_newline (bl_s0 l)
  && all_ws (bl_s00 l) && no_newline (bl_s00 l)
  && all_ws (bl_s1 l) && no_newline (bl_s1 l)
  && all_ws (bl_s2 l) && no_newline (bl_s2 l)
  && wf_after (bl_after l).

Definition wf_branch (b : branch) : bool :=
  wf_cond (b_cond b) && forallb wf_cmd (b_body b) && wf_bracelay (b_lay b).

Definition wf_item (i : item) : bool :=
  match i with
  | ICmd c => wf_cmd c
  | IChain b0 elifs els cl =>
      wf_branch b0 && forallb wf_branch elifs
      && (match els with Some (b, l) => forallb wf_cmd b && wf_bracelay l | None => true end)
      && wf_bracelay cl
  end.
Definition wf_items (is : list item) : bool := forallb wf_item is.

(* the signature of the open finding D6, negated: every branch has a command *)
Definition no_empty_branch_item (i : item) : bool :=
  match i with
  | ICmd _ => true
  | IChain b0 elifs els _ =>
      forallb (fun b => negb (is_nil (b_body b))) (b0 :: elifs)
      && (match els with Some (b, _) => negb (is_nil b) | None => true end)
  end.
Definition no_empty_branch (is : list item) : bool := forallb no_empty_branch_item is.

(* ================================================================ legacy Flavor= groups *)

Definition plain_blay : bracelay := mkBracelay [] [] [c_sp] [c_sp] [c_sp] [c_sp] [].
Definition plain_alay : alay := mkAlay (lit "FLAVOR") 1 1 QNone.
Definition flavor_atom (f : str) : cond := Atom plain_alay CFlavor OEq f.

Fixpoint flavor_disj_from (acc : cond) (fs : list str) : cond :=
  match fs with
  | [] => acc
  | f :: r => flavor_disj_from (Bin 1 1 BOr acc (flavor_atom f)) r
  end.
(* FLAVOR == f1 || FLAVOR == f2 || ... *)
Definition flavor_disj (fs : list str) : cond :=
  match fs with
  | [] => flavor_atom []
  | f :: r => flavor_disj_from (flavor_atom f) r
  end.

(* a non-empty list of flavor names, none of them the wildcard of the old form *)
Definition wf_flavors (fs : list str) : bool :=
  negb (is_nil fs) && forallb wf_lit fs
  && forallb (fun f => negb (str_eqb (lower_str f) (lit "any"))) fs.

Definition flavor_line (f : str) : str := lit "Flavor=" ++ f.
Definition as_text (lines : list str) : str := flat_map (fun l => l ++ [c_nl]) lines.

(* one or more Flavor= lines, then the body (up to the next Flavor= line or the end) *)
Definition print_new_group (fs : list str) (body : list cmd) : str :=
  as_text (map flavor_line fs ++ flat_map cmd_lines body).

(* the older form *)
Definition print_old_group (fs : list str) (body : list cmd) : str :=
  as_text ([lit "Group:"] ++ map flavor_line fs ++ [lit "Common:"] ++ flat_map cmd_lines body ++ [lit "End:"]).
