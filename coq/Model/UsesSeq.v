(* C13 - sessions: the database changes between two queries put to ONE long-lived Eups instance.

   Model/Graph.v takes the world of resolved edges as given.  The property speaks of the dependency listings
   and of the uses relation for the database as it is when the question is asked, and the database changes
   through the very instance that is asked: Eups.assignTag, Eups.unassignTag, Eups.declare (of a new version, or
   of an already declared one only to move a tag) and Eups.undeclare (python/eups/Eups.py).  A bare table line
   setupRequired(name) denotes the version the tag current names, so moving that tag changes the edges of every
   table holding such a line although no table file changed.

   This file gives, for one stack and one flavor (the setting of the first correspondence family of C13):
     - a database [sdb]: the declared products with the dependency lines of their tables AS WRITTEN (name,
       optional version text, optional?), and the chain file current (product name -> version);
     - [world_of]: the world of Model/Graph.v this database denotes (explicit version -> that version iff it is
       declared; bare name -> the version tagged current; [extra] are the edges every table ends with, i.e. the
       silent optional dependency on the undeclared implicit product);
     - [apply_op]: the effect of the five calls on the database (a call that raises or refuses leaves it as it was);
     - [run_session]: the answers one instance gives to a sequence of questions and changes - each is given on the
       world of the database as it is then.
   Executable definitions only; no proofs here. *)
From Eupsv Require Import Base.Base Model.Graph.

(* one setupRequired / setupOptional line as written in the table file *)
Record tline := mkTL { tl_name : str; tl_vers : option str; tl_opt : bool }.

Record sdb := mkSdb {
  sd_decl : list ((str * str) * list tline);      (* declared (name, version) -> lines of its table *)
  sd_cur : list (str * str)                       (* current.chain of every product: name -> version *)
}.

Fixpoint lines_of (d : list ((str * str) * list tline)) (n v : str) : option (list tline) :=
  match d with
  | [] => None
  | ((n', v'), ls) :: r => if str_eqb n n' && str_eqb v v' then Some ls else lines_of r n v
  end.

Definition sdeclared (db : sdb) (n v : str) : bool :=
  match lines_of (sd_decl db) n v with Some _ => true | None => false end.

(* some version of the product is declared: Eups.findProducts(name) is not empty *)
Definition known_name (db : sdb) (n : str) : bool :=
  existsb (fun d => str_eqb n (fst (fst d))) (sd_decl db).

Fixpoint cur_get (c : list (str * str)) (n : str) : option str :=
  match c with
  | [] => None
  | (k, v) :: r => if str_eqb n k then Some v else cur_get r n
  end.

Definition cur_drop (c : list (str * str)) (n : str) : list (str * str) :=
  filter (fun kv => negb (str_eqb n (fst kv))) c.

Definition cur_set (c : list (str * str)) (n v : str) : list (str * str) := (n, v) :: cur_drop c n.

(* the version a bare request for the product resolves to: the one tagged current, which must have a record *)
Definition current_of (db : sdb) (n : str) : option str :=
  match cur_get (sd_cur db) n with
  | Some v => if sdeclared db n v then Some v else None
  | None => None
  end.

(* what one line denotes in this database (Table.dependencies -> Eups.findProductFromVRO under the default
   version resolution order when current is the only tag in use) *)
Definition resolve_line (db : sdb) (l : tline) : edge :=
  match tl_vers l with
  | Some v => mkEdge (tl_name l) (Some v) (if sdeclared db (tl_name l) v then Some v else None) (tl_opt l)
  | None => mkEdge (tl_name l) None (current_of db (tl_name l)) (tl_opt l)
  end.

Definition world_of (extra : list edge) (db : sdb) : world :=
  map (fun d => (fst d, map (resolve_line db) (snd d) ++ extra)) (sd_decl db).

(* ------------------------------------------------------------------ the calls that change the database *)

Inductive sop :=
| SAssign (n v : str)                                 (* Eups.assignTag(current, n, v) *)
| SUnassign (n : str) (ov : option str)               (* Eups.unassignTag(current, n, ov) *)
| SDeclare (n v : str) (ls : list tline) (tag : bool) (* Eups.declare(n, v, dir, table [, tag=current]) *)
| SDeclareTag (n v : str)                             (* Eups.declare(n, v, tag=current): no directory, no table *)
| SUndeclare (n v : str).                             (* Eups.undeclare(n, v) *)

Definition opt_is (v : str) (o : option str) : bool :=
  match o with Some x => str_eqb v x | None => false end.

Definition pv_is (n v : str) (d : (str * str) * list tline) : bool :=
  str_eqb n (fst (fst d)) && str_eqb v (snd (fst d)).

Definition retag (db : sdb) (n v : str) : sdb := mkSdb (sd_decl db) (cur_set (sd_cur db) n v).
Definition untag (db : sdb) (n : str) : sdb := mkSdb (sd_decl db) (cur_drop (sd_cur db) n).

Definition apply_op (db : sdb) (o : sop) : sdb :=
  match o with
  | SAssign n v =>
      (* getProduct(n, v) raises ProductNotFound for an undeclared version *)
      if sdeclared db n v then retag db n v else db
  | SDeclareTag n v =>
      (* the directory and the table are taken from the existing declaration; with none there is nothing to
         declare (EupsException: specify a productDir) *)
      if sdeclared db n v then retag db n v else db
  | SUnassign n (Some v) =>
      (* findProduct(n, v); a version that does not carry the tag is left alone *)
      if sdeclared db n v && opt_is v (current_of db n) then untag db n else db
  | SUnassign n None =>
      match current_of db n with Some _ => untag db n | None => db end
  | SDeclare n v ls tag =>
      if sdeclared db n v then
        (* the same directory and table again: only the tag, if one is given *)
        if tag then retag db n v else db
      else
        (* the first version ever declared of a product becomes current unasked *)
        let d' := sd_decl db ++ [((n, v), ls)] in
        if tag || negb (known_name db n) then mkSdb d' (cur_set (sd_cur db) n v) else mkSdb d' (sd_cur db)
  | SUndeclare n v =>
      (* Database.undeclare unassigns every tag that names the version, then removes the record *)
      if sdeclared db n v then
        mkSdb (filter (fun d => negb (pv_is n v d)) (sd_decl db))
              (if opt_is v (cur_get (sd_cur db) n) then cur_drop (sd_cur db) n else sd_cur db)
      else db
  end.

(* the database after a list of changes, oldest first *)
Definition db_after (db : sdb) (ops : list sop) : sdb := fold_left apply_op ops db.

(* ------------------------------------------------------------------ sessions *)

Inductive squery :=
| QUses (x : str) (ov : option str)                   (* Eups.uses(x, ov) *)
| QDeps (n v : str) (topological : bool).             (* Eups.getDependentProducts(product n v, topological=...) *)

Inductive sanswer :=
| AUses (r : res (list consumer))
| ADeps (r : res (list entry)).

Inductive sevent := SAsk (q : squery) | SChange (o : sop).

(* any fuel above the number of declared products suffices (Props/C13.v walk_complete, uses_total) *)
Definition fuel_of (w : world) : nat := S (S (length w)).

Definition answer_on (w : world) (q : squery) : sanswer :=
  match q with
  | QUses x ov => AUses (uses (fuel_of w) w x ov)
  | QDeps n v t => ADeps (dependent_products (fuel_of w) w (n, Some v, true) t)
  end.

(* the answers of a session put to one instance, in order: each is given on the world the database denotes then *)
Fixpoint run_session (extra : list edge) (db : sdb) (h : list sevent) : list sanswer :=
  match h with
  | [] => []
  | SAsk q :: r => answer_on (world_of extra db) q :: run_session extra db r
  | SChange o :: r => run_session extra (apply_op db o) r
  end.

Fixpoint changes_of (h : list sevent) : list sop :=
  match h with
  | [] => []
  | SAsk _ :: r => changes_of r
  | SChange o :: r => o :: changes_of r
  end.

(* the world an instance should answer on after the changes made so far *)
Definition world_after (extra : list edge) (db : sdb) (ops : list sop) : world :=
  world_of extra (db_after db ops).
