(* Model of python/eups/VersionCompare.py (stdCompare, _splitVersion; suffix=True, the only
   configuration hooks.version_cmp reaches; both mustReturnInt modes) and of
   Eups.version_match / version_match_prim and the sort-then-take-last selection of the
   latest version in python/eups/Eups.py  (C10).

   The model follows the code with the repair of defect D7 applied (commit 4979e7d of /repo,
   kept as proposed_fixes/C10-primaries-spelt-differently.diff): when the component loop over
   two differently spelt primaries finds no difference, the secondary and tertiary parts
   decide.  The first argument of std_compare_gen selects the repaired (true) or the
   pinned (false) behaviour; everything else is common to both.

   Faithful on names over the alphabet A-Z a-z 0-9 . _ + - (and, for expressions, blanks
   and the operator characters).  One thing is not modelled: the interpolation of a
   component prefix holding a regular-expression metacharacter into a pattern; the model
   answers Err Undefined there (see cmp_component).

   Executable definitions only. *)
From Eupsv Require Import Base.Base.

Definition c_minus : ascii := "-"%char.
Definition c_plus  : ascii := "+"%char.
Definition c_dot   : ascii := "."%char.
Definition c_us    : ascii := "_"%char.
Definition c_m     : ascii := "m"%char.
Definition c_p     : ascii := "p"%char.
Definition c_lt    : ascii := "<"%char.
Definition c_gt    : ascii := ">"%char.
Definition c_eq    : ascii := "="%char.
Definition c_bar   : ascii := "|"%char.

(* literals are written as lists of characters: the String type must not reach the
   extracted code, where it would shadow the string type of OCaml *)
Definition s_and : str := ["a"%char; "n"%char; "d"%char].
Definition s_or  : str := ["o"%char; "r"%char].
Definition s_ampamp : str := ["&"%char; "&"%char].
Definition s_barbar : str := ["|"%char; "|"%char].

(* longest prefix whose characters satisfy p, and the rest *)
Fixpoint span (p : ascii -> bool) (x : str) : str * str :=
  match x with
  | [] => ([], [])
  | c :: r => if p c then let (a, b) := span p r in (c :: a, b) else ([], x)
  end.

(* the character class [^-+] *)
Definition notpm (c : ascii) : bool := negb (ascii_eqb c c_minus || ascii_eqb c c_plus).
Definition not_digit (c : ascii) : bool := negb (is_digit c).
(* the character class [._] *)
Definition is_sep (c : ascii) : bool := ascii_eqb c c_dot || ascii_eqb c c_us.

(* \d+ anchored at both ends *)
Definition all_digits (x : str) : bool := nonempty x && forallb is_digit x.

(* ---------------------------------------------------------------- comparisons *)

Definition ascii_compare (a b : ascii) : comparison := N.compare (N_of_ascii a) (N_of_ascii b).

(* lexicographic comparison, a proper prefix first: python's comparison of two str, and
   of two lists of numbers *)
Fixpoint lex_compare {A} (cmp : A -> A -> comparison) (a b : list A) : comparison :=
  match a, b with
  | [], [] => Eq
  | [], _ :: _ => Lt
  | _ :: _, [] => Gt
  | x :: a', y :: b' => match cmp x y with Eq => lex_compare cmp a' b' | c => c end
  end.

Definition str_compare : str -> str -> comparison := lex_compare ascii_compare.

(* ---------------------------------------------------------------- _splitVersion *)

(* one optional group  ((d)([^-+]+))?  at the head of r: the captured text (empty when the
   group takes no part in the match) and the input that remains *)
Definition opt_group (d : ascii) (r : str) : str * str :=
  match r with
  | c :: r' =>
      if ascii_eqb c d then
        let (e, r2) := span notpm r' in
        if nonempty e then (e, r2) else ([], r)
      else ([], r)
  | [] => ([], r)
  end.

(* re.search of (m(\d+)|p(\d+))$ : the letter, the digits and what precedes the match *)
Definition mp_suffix (v : str) : option (ascii * str * str) :=
  let (rd, rest) := span is_digit (rev v) in
  match rd, rest with
  | _ :: _, c :: rb =>
      if ascii_eqb c c_m || ascii_eqb c c_p then Some (c, rev rd, rev rb) else None
  | _, _ => None
  end.

(* (primary, secondary, tertiary); an absent part (None in python) is the empty string,
   which the caller cannot tell apart.  A name that starts with a hyphen or a plus sign
   makes the regular expression fail and the code raise AttributeError. *)
Definition split_version (v : str) : res (str * str * str) :=
  match v with
  | [] => Ok ([], [], [])
  | _ :: _ =>
    if 2 <? length (split_on c_minus v) then Ok (v, [], [])
    else
      let (g1, r) := span notpm v in
      if nonempty g1 then
        let (eee, r1) := opt_group c_minus r in
        let (fff, _) := opt_group c_plus r1 in
        if nonempty eee || nonempty fff then Ok (g1, eee, fff)
        else match mp_suffix v with
             | Some (c, ds, base) =>
                 if ascii_eqb c c_m then Ok (base, ds, []) else Ok (base, [], ds)
             | None => Ok (g1, [], [])
             end
      else Err Crash
  end.

(* ---------------------------------------------------------------- component comparison *)

(* re.split on [._] *)
Fixpoint split_dotus (x : str) : list str :=
  match x with
  | [] => [[]]
  | c :: r =>
      if is_sep c then [] :: split_dotus r
      else match split_dotus r with
           | h :: t => (c :: h) :: t
           | [] => [[c]]
           end
  end.

Definition digit_val (c : ascii) : N := (N_of_ascii c - 48)%N.
(* int() of a string of decimal digits *)
Definition num_of_digits (x : str) : N := fold_left (fun a c => (a * 10 + digit_val c)%N) x 0%N.

(* int() of a whole component: optional sign, digits (components hold no blank and no
   underscore) *)
Definition py_int (x : str) : option Z :=
  match x with
  | [] => None
  | c :: r =>
      if ascii_eqb c c_minus then
        (if all_digits r then Some (- Z.of_N (num_of_digits r))%Z else None)
      else if ascii_eqb c c_plus then
        (if all_digits r then Some (Z.of_N (num_of_digits r)) else None)
      else if all_digits x then Some (Z.of_N (num_of_digits x)) else None
  end.

(* re.search of ^([^\d]+)\d+$ : the prefix and the digits *)
Definition decomp (x : str) : option (str * str) :=
  let (pre, r) := span not_digit x in
  if nonempty pre && all_digits r then Some (pre, r) else None.

(* re.search of ^<pre>\d+$ for a prefix free of metacharacters: the digits *)
Definition match_prefix_digits (pre y : str) : option str :=
  if starts_with pre y then
    let r := skipn (length pre) y in
    if all_digits r then Some r else None
  else None.

Definition regex_meta (c : ascii) : bool :=
  mem_ascii c ["\"%char; "^"%char; "$"%char; "."%char; "|"%char; "?"%char; "+"%char; "*"%char;
               "("%char; "["%char; "{"%char; ")"%char; "]"%char; "}"%char].

(* one round of the loop body up to the comparison: (c12AreIntegral, cmp(c1[i], c2[i])) *)
Definition cmp_component (x y : str) : res (bool * comparison) :=
  let fallback :=
    match py_int x, py_int y with
    | Some a, Some b => (true, Z.compare a b)
    | _, _ => (false, str_compare x y)
    end in
  match decomp x with
  | Some (pre, d1) =>
      if existsb regex_meta pre then Err Undefined     (* not modelled *)
      else match match_prefix_digits pre y with
           | Some d2 => Ok (true, N.compare (num_of_digits d1) (num_of_digits d2))
           | None => Ok fallback
           end
  | None => Ok fallback
  end.

Definition is_nil {A} (l : list A) : bool := match l with [] => true | _ => false end.

(* the loop over the first min(n1,n2) components followed by cmp(n1,n2) *)
Fixpoint cmp_loop (strict : bool) (c1 c2 : list str) : res comparison :=
  match c1, c2 with
  | [], [] => Ok Eq
  | [], _ :: _ => Ok Lt
  | _ :: _, [] => Ok Gt
  | x :: r1, y :: r2 =>
      match cmp_component x y with
      | Err e => Err e
      | Ok (integral, Eq) => cmp_loop strict r1 r2
      | Ok (integral, d) =>
          if strict && negb integral then
            if is_nil r1 || is_nil r2 then        (* i == n - 1 *)
              if starts_with x y then Ok Lt
              else if starts_with y x then Ok Gt
              else Err Unsortable
            else Err Unsortable
          else Ok d
      end
  end.

Definition cmp_primaries (strict : bool) (p1 p2 : str) : res comparison :=
  cmp_loop strict (split_dotus p1) (split_dotus p2).

(* the block of stdCompare that looks at the secondary and tertiary parts; the recursive
   calls pass suffix=True positionally, so mustReturnInt is back at its default *)
Definition sec_ter (rec : str -> str -> res comparison) (s1 t1 s2 t2 : str) : res comparison :=
  if nonempty s1 || nonempty s2 || nonempty t1 || nonempty t2 then
    if nonempty s1 || nonempty s2 then
      if nonempty s1 && nonempty s2 then
        match rec s1 s2 with
        | Ok Eq => rec t1 t2
        | r => r
        end
      else if nonempty s1 then Ok Lt else Ok Gt
    else rec t1 t2
  else Ok Eq.

(* stdCompare.  strict = not mustReturnInt. *)
Fixpoint std_compare_gen (fixed : bool) (fuel : nat) (strict : bool) (v1 v2 : str) {struct fuel}
  : res comparison :=
  match fuel with
  | O => Err OutOfFuel
  | S f =>
      match split_version v1 with
      | Err e => Err e
      | Ok (p1, s1, t1) =>
          match split_version v2 with
          | Err e => Err e
          | Ok (p2, s2, t2) =>
              if str_eqb p1 p2 then sec_ter (std_compare_gen fixed f false) s1 t1 s2 t2
              else match cmp_primaries strict p1 p2 with
                   | Ok Eq =>
                       if fixed then sec_ter (std_compare_gen fixed f false) s1 t1 s2 t2
                       else Ok Eq
                   | r => r
                   end
          end
      end
  end.

Definition cmp_fuel (v1 v2 : str) : nat := S (length v1 + length v2).

Definition std_compare (strict : bool) (v1 v2 : str) : res comparison :=
  std_compare_gen true (cmp_fuel v1 v2) strict v1 v2.

(* hooks.version_cmp(v1, v2) and hooks.version_cmp(v1, v2, mustReturnInt=False) *)
Definition version_cmp : str -> str -> res comparison := std_compare false.
Definition version_cmp_strict : str -> str -> res comparison := std_compare true.

(* the tree as pinned, before the repair *)
Definition version_cmp_pinned (v1 v2 : str) : res comparison :=
  std_compare_gen false (cmp_fuel v1 v2) false v1 v2.
Definition version_cmp_strict_pinned (v1 v2 : str) : res comparison :=
  std_compare_gen false (cmp_fuel v1 v2) true v1 v2.

(* ---------------------------------------------------------------- version_match *)

Inductive relop := RLt | RLe | REq | RGe | RGt.

Definition rel (op : relop) (c : comparison) : bool :=
  match op, c with
  | RLt, Lt => true
  | RLe, Lt | RLe, Eq => true
  | REq, Eq => true
  | RGe, Gt | RGe, Eq => true
  | RGt, Gt => true
  | _, _ => false
  end.

Definition relop_text (op : relop) : str :=
  match op with
  | RLt => [c_lt] | RLe => [c_lt; c_eq] | REq => [c_eq; c_eq] | RGe => [c_gt; c_eq] | RGt => [c_gt]
  end.

(* what re.split leaves once the blank pieces are filtered out: relational operators and
   the double bar (captured separators) and the text between separators *)
Inductive tok := TRel (op : relop) | TOrOr | TText (x : str).

Definition flush_text (cur : str) (l : list tok) : list tok :=
  match cur with [] => l | _ :: _ => TText (rev cur) :: l end.

(* re.split of \s*(<=?|>=?|==|\|\||\s)\s* ; cur is the text collected so far, reversed *)
Fixpoint tokenize (cur : str) (s : str) : list tok :=
  match s with
  | [] => flush_text cur []
  | c :: r =>
      if is_space c then flush_text cur (tokenize [] r)
      else if ascii_eqb c c_lt then
        match r with
        | d :: r' => if ascii_eqb d c_eq then flush_text cur (TRel RLe :: tokenize [] r')
                     else flush_text cur (TRel RLt :: tokenize [] r)
        | [] => flush_text cur (TRel RLt :: tokenize [] r)
        end
      else if ascii_eqb c c_gt then
        match r with
        | d :: r' => if ascii_eqb d c_eq then flush_text cur (TRel RGe :: tokenize [] r')
                     else flush_text cur (TRel RGt :: tokenize [] r)
        | [] => flush_text cur (TRel RGt :: tokenize [] r)
        end
      else if ascii_eqb c c_eq then
        match r with
        | d :: r' => if ascii_eqb d c_eq then flush_text cur (TRel REq :: tokenize [] r')
                     else tokenize (c :: cur) r
        | [] => tokenize (c :: cur) r
        end
      else if ascii_eqb c c_bar then
        match r with
        | d :: r' => if ascii_eqb d c_bar then flush_text cur (TOrOr :: tokenize [] r')
                     else tokenize (c :: cur) r
        | [] => tokenize (c :: cur) r
        end
      else tokenize (c :: cur) r
  end.

Definition tok_text (t : tok) : str :=
  match t with TRel op => relop_text op | TOrOr => s_barbar | TText x => x end.

(* ^[-+.:/\w]+$ *)
Definition is_vername (x : str) : bool :=
  nonempty x && forallb (fun c => is_word c || mem_ascii c [c_minus; c_plus; c_dot; ":"%char; "/"%char]) x.

(* the classification the loop of version_match applies to the pieces, in its order *)
Inductive item :=
| ITerm (op : relop) (v : str)      (* a term: operator (== when omitted) and operand *)
| IOr | IAnd
| IBreak                            (* unexpected operator: warning, leave the loop *)
| ICrash.                           (* relational operator at the very end: IndexError *)

Fixpoint items (toks : list tok) : list item :=
  match toks with
  | [] => []
  | TRel op :: rest =>
      match rest with
      | [] => [ICrash]
      | t :: rest' => ITerm op (tok_text t) :: items rest'
      end
  | TOrOr :: rest => IOr :: items rest
  | TText x :: rest =>
      if is_vername x && negb (str_eqb x s_and || str_eqb x s_or) then ITerm REq x :: items rest
      else if str_eqb x s_or then IOr :: items rest
      else if str_eqb x s_ampamp || str_eqb x s_and then IAnd :: items rest
      else [IBreak]
  end.

Inductive logop := LNone | LAnd | LOr.

Definition truthy (v : option bool) : bool := match v with Some true => true | _ => false end.

(* the loop of version_match; prim is version_match_prim for the fixed left operand *)
Fixpoint run_items (prim : relop -> str -> res bool) (lo : logop) (value : option bool)
  (its : list item) : res bool :=
  match its with
  | [] => Ok (truthy value)
  | ICrash :: _ => Err Crash
  | IBreak :: _ => Ok (truthy value)
  | IOr :: r => run_items prim LOr value r
  | IAnd :: r => if truthy value then run_items prim LAnd value r else Ok false
  | ITerm op v :: r =>
      match lo, value with
      | LNone, Some _ => run_items prim lo value r      (* expected logical operator: term ignored *)
      | _, _ =>
          match prim op v with
          | Err Unsortable => Ok false                  (* ValueError: no sort order is defined *)
          | Err e => Err e
          | Ok rhs =>
              match lo with
              | LNone => run_items prim LNone (Some rhs) r
              | LAnd => run_items prim LAnd (Some (truthy value && rhs)) r
              | LOr => if truthy value || rhs then Ok true else run_items prim LOr (Some false) r
              end
          end
      end
  end.

Definition version_match_prim (op : relop) (v1 v2 : str) : res bool :=
  match version_cmp_strict v1 v2 with
  | Ok c => Ok (rel op c)
  | Err e => Err e
  end.

(* Eups.version_match(vname, expr) is not None/False *)
Definition version_match (vname expr : str) : res bool :=
  run_items (fun op v => version_match_prim op vname v) LNone None (items (tokenize [] expr)).

(* ---------------------------------------------------------------- latest *)

(* vers.sort(key=cmp_to_key(version_cmp)); vers[-1] -- on a total pre-order a stable sort
   puts the last of the greatest elements last *)
Fixpoint latest_from (best : str) (l : list str) : res str :=
  match l with
  | [] => Ok best
  | x :: r =>
      match version_cmp x best with
      | Ok Lt => latest_from best r
      | Ok _ => latest_from x r
      | Err e => Err e
      end
  end.

Definition latest (l : list str) : res (option str) :=
  match l with
  | [] => Ok None
  | x :: r => match latest_from x r with Ok m => Ok (Some m) | Err e => Err e end
  end.

(* ---------------------------------------------------------------- the names the theorems speak about *)

(* the alphabet on which the model is claimed faithful *)
Definition wf_char (c : ascii) : bool :=
  is_alpha c || is_digit c || is_sep c || ascii_eqb c c_minus || ascii_eqb c c_plus.
Definition wf_name (v : str) : bool := forallb wf_char v.

(* accepted names: over the alphabet, split without error, no plus sign left in the primary
   part (a plus sign there would be interpolated into a regular expression) *)
Definition accepts (v : str) : bool :=
  wf_name v &&
  match split_version v with
  | Ok (p, _, _) => negb (mem_ascii c_plus p)
  | Err _ => false
  end.
