(* Specification side of C10: the boolean recogniser of conventionally formed version
   names, their order key and the lexicographic order on keys.  Nothing here looks at the
   model of the comparison code; shared with it are only the generic helpers span,
   lex_compare, str_compare and the reading of a digit string as a number.

   A part is  letters digits ((.|_) digits)*  where the letters do not end in m or p
   (1.2m1 and 1.2p1 are the documented other spelling of 1.2-1 and 1.2+1).  A conventional
   name is  part [-part] [+part].

   Executable definitions only. *)
From Eupsv Require Import Base.Base Model.VersionCompare.

(* letters, first numeral, (separator, numeral)* *)
Definition part := (str * str * list (ascii * str))%type.
Definition cname := (part * option part * option part)%type.

(* cur: the digits of the numeral being read, reversed *)
Fixpoint parse_body (cur : str) (x : str) : option (str * list (ascii * str)) :=
  match x with
  | [] => if nonempty cur then Some (rev cur, []) else None
  | c :: r =>
      if is_digit c then parse_body (c :: cur) r
      else if is_sep c && nonempty cur then
        match parse_body [] r with
        | Some (d, rest) => Some (rev cur, (c, d) :: rest)
        | None => None
        end
      else None
  end.

Definition ends_mp (l : str) : bool :=
  match last_opt l with
  | Some c => ascii_eqb c c_m || ascii_eqb c c_p
  | None => false
  end.

Definition parse_part (x : str) : option part :=
  let (l, b) := span is_alpha x in
  if ends_mp l then None
  else match parse_body [] b with
       | Some (d0, rest) => Some (l, d0, rest)
       | None => None
       end.

Definition parse_conv (v : str) : option cname :=
  let (xp, r1) := span notpm v in
  match parse_part xp with
  | None => None
  | Some pp =>
      match r1 with
      | [] => Some (pp, None, None)
      | c :: r =>
          if ascii_eqb c c_minus then
            let (xs, r2) := span notpm r in
            match parse_part xs with
            | None => None
            | Some sp =>
                match r2 with
                | [] => Some (pp, Some sp, None)
                | c2 :: r3 =>
                    if ascii_eqb c2 c_plus then
                      match parse_part r3 with
                      | Some tp => Some (pp, Some sp, Some tp)
                      | None => None
                      end
                    else None
                end
            end
          else
            match parse_part r with
            | Some tp => Some (pp, None, Some tp)
            | None => None
            end
      end
  end.

(* the recogniser *)
Definition conv (v : str) : bool := match parse_conv v with Some _ => true | None => false end.

(* ---------------------------------------------------------------- keys *)

Definition pkey := (str * list N)%type.
Definition vkey := (pkey * option pkey * option pkey)%type.

Definition part_key (p : part) : pkey :=
  let '(l, d0, rest) := p in (l, num_of_digits d0 :: map (fun sd => num_of_digits (snd sd)) rest).

Definition cname_key (c : cname) : vkey :=
  let '(pp, sp, tp) := c in (part_key pp, option_map part_key sp, option_map part_key tp).

Definition key (v : str) : vkey :=
  match parse_conv v with
  | Some c => cname_key c
  | None => (([], []), None, None)
  end.

(* the letter prefix of the primary part *)
Definition prefix_of (v : str) : str := fst (fst (fst (key v))).

Definition then_cmp (c d : comparison) : comparison := match c with Eq => d | _ => c end.

(* letters as strings, then the numbers one by one, a proper prefix first *)
Definition pkey_compare (a b : pkey) : comparison :=
  then_cmp (str_compare (fst a) (fst b)) (lex_compare N.compare (snd a) (snd b)).

(* a pre-release part comes before its absence *)
Definition sec_compare (a b : option pkey) : comparison :=
  match a, b with
  | Some x, Some y => pkey_compare x y
  | Some _, None => Lt
  | None, Some _ => Gt
  | None, None => Eq
  end.

(* a post-release part comes after its absence *)
Definition ter_compare (a b : option pkey) : comparison :=
  match a, b with
  | Some x, Some y => pkey_compare x y
  | Some _, None => Gt
  | None, Some _ => Lt
  | None, None => Eq
  end.

Definition key_compare (a b : vkey) : comparison :=
  let '(p1, s1, t1) := a in
  let '(p2, s2, t2) := b in
  then_cmp (pkey_compare p1 p2) (then_cmp (sec_compare s1 s2) (ter_compare t1 t2)).

Definition key_le (a b : vkey) : Prop := key_compare a b <> Gt.

(* printing, used to state what the recogniser accepts *)
Definition print_part (p : part) : str :=
  let '(l, d0, rest) := p in l ++ d0 ++ flat_map (fun sd => fst sd :: snd sd) rest.

Definition print_cname (c : cname) : str :=
  let '(pp, sp, tp) := c in
  print_part pp ++ match sp with Some s => c_minus :: print_part s | None => [] end
                ++ match tp with Some t => c_plus :: print_part t | None => [] end.

(* relational expressions  [op] w (|| [op] w)*  *)
Definition alt := (option relop * str)%type.
Definition print_alt (a : alt) : str :=
  match fst a with
  | Some op => relop_text op ++ " "%char :: snd a
  | None => snd a
  end.
Definition print_expr (l : list alt) : str := join_str (" "%char :: s_barbar ++ [" "%char]) (map print_alt l).

Definition alt_holds (v : str) (a : alt) : bool :=
  rel (match fst a with Some op => op | None => REq end) (key_compare (key v) (key (snd a))).
