(* C10, the search behind the tag latest over several stacks: Eups._findLatestProduct
   (python/eups/Eups.py).  Layered on Model/VersionCompare.v; nothing there is changed.

   A stack is the list of the version names it declares for the product (for the flavor asked
   for), in the order the cache or the database files list them.  For every stack of the path,
   in order, the code takes the latest version of that stack alone (cache: the sorted list's
   last element; database files: _selectPreferredProduct with the tag latest - both are the
   function latest of Model/VersionCompare.v), passes over the stack if it has none or if that
   version compares below a non-empty minimum version, and keeps it when nothing was kept so far
   or when it compares strictly above the version kept so far.  The answer is the stack's
   position on the path and the version name, or nothing. *)
From Coq Require Import List Ascii.
Import ListNotations.
From Eupsv Require Import Base.Base Model.VersionCompare.

(* if minver and self.version_cmp(latest, minver) < 0: continue
   -- None and the empty string are both no minimum *)
Definition below_minimum (minver : option str) (v : str) : res bool :=
  match minver with
  | None => Ok false
  | Some [] => Ok false
  | Some m =>
      match version_cmp v m with
      | Ok Lt => Ok true
      | Ok _ => Ok false
      | Err e => Err e
      end
  end.

(* if out == None or self.version_cmp(latest, out.version) > 0: out = latest *)
Definition replaces (out : option (nat * str)) (v : str) : res bool :=
  match out with
  | None => Ok true
  | Some (_, o) =>
      match version_cmp v o with
      | Ok Gt => Ok true
      | Ok _ => Ok false
      | Err e => Err e
      end
  end.

(* the loop over eupsPathDirs; i is the position of the first stack still to be visited *)
Fixpoint latest_stacks_from (minver : option str) (out : option (nat * str)) (i : nat)
    (stacks : list (list str)) : res (option (nat * str)) :=
  match stacks with
  | [] => Ok out
  | vs :: rest =>
      match latest vs with
      | Err e => Err e
      | Ok None => latest_stacks_from minver out (S i) rest
      | Ok (Some l) =>
          match below_minimum minver l with
          | Err e => Err e
          | Ok true => latest_stacks_from minver out (S i) rest
          | Ok false =>
              match replaces out l with
              | Err e => Err e
              | Ok true => latest_stacks_from minver (Some (i, l)) (S i) rest
              | Ok false => latest_stacks_from minver out (S i) rest
              end
          end
      end
  end.

(* Eups._findLatestProduct(name, eupsPathDirs, flavor, minver) *)
Definition latest_over_stacks (minver : option str) (stacks : list (list str)) : res (option (nat * str)) :=
  latest_stacks_from minver None 0 stacks.

(* eups list -t latest (Eups.findProducts with the tag latest): every stack is asked on its own,
   so the listing holds one entry per stack that declares the product, the latest of that stack *)
Fixpoint latest_per_stack (stacks : list (list str)) : res (list (option str)) :=
  match stacks with
  | [] => Ok []
  | vs :: rest =>
      match latest vs, latest_per_stack rest with
      | Ok m, Ok r => Ok (m :: r)
      | Err e, _ => Err e
      | _, Err e => Err e
      end
  end.

(* Eups.findProducts ends with utils.uniq, and two products are equal when name, version and flavor
   are (the stack is not looked at): of several stacks whose latest version bears the same name only
   the first is listed.  Entries are (position of the stack, version). *)
Fixpoint listing_from (i : nat) (seen : list str) (l : list (option str)) : list (nat * str) :=
  match l with
  | [] => []
  | None :: r => listing_from (S i) seen r
  | Some v :: r =>
      if mem_str v seen then listing_from (S i) seen r
      else (i, v) :: listing_from (S i) (v :: seen) r
  end.

Definition latest_listing (stacks : list (list str)) : res (list (nat * str)) :=
  match latest_per_stack stacks with
  | Ok l => Ok (listing_from 0 [] l)
  | Err e => Err e
  end.
