(* C11 - level A for arguments: the (repaired) argument splitter of Table._read applied to
   the printed argument list gives back the arguments: quoted values keep their blanks and
   commas, whatever the separators and the optional quoting of the other values; a double
   quote that is part of a value (written backslash, quote) comes back as that character,
   inside a quoted value as well as at one or both ends of a bare word.
   The proof follows the passes of _read: the first pass turns every written backslash-quote
   into the place holder 2 (bsq_rest: the text is then the RAW print pr_rest0 of the values
   with 2 for their quotes); the two quoted-string passes and the split see delimiting
   quotes only; the delimiters are removed BEFORE the place holders are put back, so a
   bare word whose first and last characters are quotes keeps them (unprotect_bare). *)
From Coq Require Import Lia.
From Eupsv Require Import Base.Base Base.BaseLemmas Model.Rx Model.Cond Model.Args Model.Legacy
  Model.Blocks Model.TableSpec Proofs.RxLib.

(* ---------------------------------------------------------------- alphabets *)

Definition nodq (s : str) : bool := forallb (fun c => negb (ascii_eqb c c_dq)) s.
Definition nobsl (s : str) : bool := forallb (fun c => negb (ascii_eqb c c_bsl)) s.
Definition noctl (s : str) : bool :=
  forallb (fun c => negb (ascii_eqb c c_01 || ascii_eqb c c_02 || ascii_eqb c c_03)) s.
Definition nosep (s : str) : bool := forallb (fun c => negb (is_argsep c)) s.

Lemma wf_value_facts a : wf_value a = true ->
  nonempty a = true /\ nobsl a = true /\ noctl a = true.
Proof.
  unfold wf_value. rewrite andb_true_iff. intros [Hn Hb]. split; [exact Hn|].
  unfold nobsl, noctl. repeat split; (eapply forallb_impl; [|exact Hb]); intros c Hc;
    unfold bad_arg_char in Hc; rewrite negb_true_iff in Hc; rewrite !orb_false_iff in Hc;
    rewrite ?negb_true_iff, ?orb_false_iff; tauto.
Qed.

(* ---------------------------------------------------------------- raw printing *)

(* the values written as they are, without escaping: what the text between the parentheses
   looks like once the first pass of _read has replaced every backslash-quote *)
Definition pr_arg0 (q : bool) (a : str) : str := if q then c_dq :: a ++ [c_dq] else a.

Fixpoint pr_rest0 (l : list (str * bool)) (args : list str) : str :=
  match l, args with
  | (sep, q) :: l', a :: args' => sep ++ pr_arg0 q a ++ pr_rest0 l' args'
  | _, _ => []
  end.

(* a value with the place holder 2 for its double quotes *)
Definition dqp (a : str) : str := map_char c_dq c_02 a.

Lemma esc_dq_id a : nodq a = true -> esc_dq a = a.
Proof.
  unfold nodq, esc_dq. induction a as [|c a IH]; [reflexivity|]. cbn [forallb flat_map].
  rewrite andb_true_iff, negb_true_iff. intros [Hc Ha]. rewrite Hc, (IH Ha). reflexivity.
Qed.

Lemma dqp_id a : nodq a = true -> dqp a = a.
Proof.
  unfold nodq, dqp, map_char. induction a as [|c a IH]; [reflexivity|]. cbn [forallb map].
  rewrite andb_true_iff, negb_true_iff. intros [Hc Ha]. rewrite Hc, (IH Ha). reflexivity.
Qed.

Lemma dqp_nodq a : nodq (dqp a) = true.
Proof.
  unfold nodq, dqp, map_char. induction a as [|c a IH]; [reflexivity|]. cbn [map forallb].
  rewrite IH, andb_true_r. destruct (ascii_eqb c c_dq) eqn:E; [reflexivity|now rewrite E].
Qed.

Lemma dqp_nonempty a : nonempty (dqp a) = nonempty a.
Proof. destruct a; reflexivity. Qed.

(* ---------------------------------------------------------------- the first pass: backslash-quote *)

Definition bsq_m : str -> option (str * nat) := lit_match [c_bsl; c_dq] [c_02].

Lemma bsq_copy s rest : nobsl s = true -> scan bsq_m 0 (s ++ rest) = s ++ scan bsq_m 0 rest.
Proof.
  intros H. apply scan_copy. unfold nobsl in H. rewrite forallb_Forall in H.
  eapply Forall_impl; [|exact H]. intros c Hc r. apply negb_true_iff in Hc.
  unfold bsq_m, lit_match. cbn [cs_prefix]. rewrite ascii_eqb_sym, Hc. reflexivity.
Qed.

Lemma bsq_hit rest : bsq_m (c_bsl :: [c_dq] ++ rest) = Some ([c_02], length [c_dq]).
Proof. unfold bsq_m, lit_match. cbn [cs_prefix app]. rewrite !ascii_eqb_refl. reflexivity. Qed.

(* an escaped value becomes the value with 2 for its quotes *)
Lemma bsq_esc a rest : nobsl a = true ->
  scan bsq_m 0 (esc_dq a ++ rest) = dqp a ++ scan bsq_m 0 rest.
Proof.
  unfold nobsl, esc_dq, dqp, map_char. induction a as [|c a IH]; [reflexivity|].
  cbn [forallb flat_map map]. rewrite andb_true_iff, negb_true_iff. intros [Hc Ha].
  destruct (ascii_eqb c c_dq) eqn:E.
  - rewrite <- app_assoc. change ([c_bsl; c_dq] ++ ?x) with (c_bsl :: [c_dq] ++ x).
    rewrite (scan_match bsq_m c_bsl [c_dq] _ [c_02] (bsq_hit _)). cbn [app]. f_equal. apply IH, Ha.
  - cbn [app scan]. replace (bsq_m (c :: _)) with (@None (str * nat)).
    + f_equal. apply IH, Ha.
    + unfold bsq_m, lit_match. cbn [cs_prefix]. now rewrite ascii_eqb_sym, Hc.
Qed.

Fixpoint bsq_ok (l : list (str * bool)) (args : list str) : bool :=
  match l, args with
  | [], [] => true
  | (sep, q) :: l', x :: args' => nobsl sep && nobsl x && bsq_ok l' args'
  | _, _ => false
  end.

Lemma bsq_rest l args rest : bsq_ok l args = true ->
  scan bsq_m 0 (pr_rest l args ++ rest) = pr_rest0 l (map dqp args) ++ scan bsq_m 0 rest.
Proof.
  revert args. induction l as [|[sep q] l IH]; intros [|x args] H; try discriminate H; [reflexivity|].
  cbn [bsq_ok] in H. rewrite !andb_true_iff in H. destruct H as [[Hs Hx] Hr].
  cbn [pr_rest pr_rest0 map]. rewrite <- !app_assoc. rewrite bsq_copy by exact Hs. f_equal.
  destruct q; cbn [pr_arg pr_arg0].
  - cbn [app]. rewrite <- !app_assoc. cbn [app].
    change (c_dq :: esc_dq x ++ c_dq :: pr_rest l args ++ rest)
      with ([c_dq] ++ esc_dq x ++ [c_dq] ++ pr_rest l args ++ rest).
    rewrite (bsq_copy [c_dq]) by reflexivity. rewrite bsq_esc by exact Hx.
    rewrite (bsq_copy [c_dq]) by reflexivity. rewrite IH by exact Hr. reflexivity.
  - rewrite bsq_esc by exact Hx. now rewrite IH by exact Hr.
Qed.

Lemma argsep_facts c : is_argsep c = true ->
  ascii_eqb c c_dq = false /\ ascii_eqb c c_bsl = false.
Proof.
  unfold is_argsep. rewrite orb_true_iff. intros [H|H]; apply ascii_eqb_eq in H; subst c; split; reflexivity.
Qed.

Lemma sep_facts s : forallb is_argsep s = true -> nodq s = true /\ nobsl s = true.
Proof.
  intros H. unfold nodq, nobsl. split; (eapply forallb_impl; [|exact H]); intros c Hc;
    destruct (argsep_facts c Hc) as [H1 H2]; now rewrite ?H1, ?H2.
Qed.

Lemma sp_argsep n : forallb is_argsep (sp n) = true.
Proof. induction n; [reflexivity|]. cbn. exact IHn. Qed.

Lemma bare_nosep a : bare_ok a = true -> nosep a = true.
Proof.
  unfold bare_ok, nosep. apply forallb_impl. intros c. rewrite !negb_true_iff, !orb_false_iff.
  intros [H1 H2]. unfold is_argsep. rewrite H2. cbn [orb].
  destruct (ascii_eqb c c_sp) eqn:E; [|reflexivity]. apply ascii_eqb_eq in E. subst c. discriminate H1.
Qed.

(* ---------------------------------------------------------------- the quoted-string passes *)

Lemma qm_nomatch a b c r : ascii_eqb c c_dq = false -> quoted_match a b (c :: r) = None.
Proof. intros H. cbn [quoted_match]. now rewrite H. Qed.

Lemma nodq_copy a b s rest : nodq s = true ->
  scan (quoted_match a b) 0 (s ++ rest) = s ++ scan (quoted_match a b) 0 rest.
Proof.
  intros H. apply scan_copy. unfold nodq in H. rewrite forallb_Forall in H.
  eapply Forall_impl; [|exact H]. intros c Hc r. apply qm_nomatch. now apply negb_true_iff.
Qed.

Lemma qm_quoted a b x rest : nodq x = true -> nonempty x = true ->
  scan (quoted_match a b) 0 (c_dq :: x ++ c_dq :: rest)
  = (c_dq :: map_char a b x ++ [c_dq]) ++ scan (quoted_match a b) 0 rest.
Proof.
  intros Hx Hne.
  replace (c_dq :: x ++ c_dq :: rest) with (c_dq :: (x ++ [c_dq]) ++ rest) by (now rewrite <- app_assoc).
  apply scan_match. rewrite <- app_assoc. cbn [app quoted_match]. rewrite ascii_eqb_refl.
  rewrite (span_app _ x c_dq rest Hx) by (now rewrite ascii_eqb_refl).
  destruct x; [discriminate|]. rewrite app_length. cbn [length]. do 2 f_equal. lia.
Qed.

(* the arguments after a pass: the quoted ones have been mapped *)
Fixpoint tr (f : str -> str) (l : list (str * bool)) (args : list str) : list str :=
  match l, args with
  | (_, q) :: l', x :: args' => (if q then f x else x) :: tr f l' args'
  | _, _ => []
  end.

(* what a pass needs of the layout and the arguments *)
Fixpoint pass_ok (l : list (str * bool)) (args : list str) : bool :=
  match l, args with
  | [], [] => true
  | (sep, q) :: l', x :: args' => nodq sep && nodq x && nonempty x && pass_ok l' args'
  | _, _ => false
  end.

Lemma pass_rest a b l args rest : pass_ok l args = true ->
  scan (quoted_match a b) 0 (pr_rest0 l args ++ rest)
  = pr_rest0 l (tr (map_char a b) l args) ++ scan (quoted_match a b) 0 rest.
Proof.
  revert args. induction l as [|[sep q] l IH]; intros [|x args] H; try discriminate H; [reflexivity|].
  cbn [pass_ok] in H. rewrite !andb_true_iff in H. destruct H as [[[Hs Hx] Hn] Hr].
  cbn [pr_rest0 tr]. rewrite <- !app_assoc. rewrite nodq_copy by exact Hs. f_equal.
  destruct q; cbn [pr_arg0].
  - cbn [app]. rewrite <- app_assoc. cbn [app]. rewrite qm_quoted by auto.
    cbn [app]. rewrite IH by exact Hr. reflexivity.
  - rewrite nodq_copy by exact Hx. now rewrite IH by exact Hr.
Qed.

Lemma map_char_nodq a b x : ascii_eqb b c_dq = false -> nodq x = true -> nodq (map_char a b x) = true.
Proof.
  intros Hb. unfold nodq, map_char. induction x as [|c x IH]; [reflexivity|]. cbn [map forallb].
  rewrite !andb_true_iff. intros [Hc Hx]. split; [|now apply IH].
  destruct (ascii_eqb c a); [now rewrite Hb|exact Hc].
Qed.

Lemma map_char_nonempty a b x : nonempty (map_char a b x) = nonempty x.
Proof. destruct x; reflexivity. Qed.

Lemma pass_ok_tr a b l args : ascii_eqb b c_dq = false ->
  pass_ok l args = true -> pass_ok l (tr (map_char a b) l args) = true.
Proof.
  intros Hb. revert args. induction l as [|[sep q] l IH]; intros [|x args] H; try discriminate H; [reflexivity|].
  cbn [pass_ok] in H. rewrite !andb_true_iff in H. destruct H as [[[Hs Hx] Hn] Hr].
  cbn [tr pass_ok]. rewrite Hs, (IH _ Hr). destruct q.
  - rewrite map_char_nodq, map_char_nonempty, Hn by auto. reflexivity.
  - now rewrite Hx, Hn.
Qed.

Lemma tr_tr f g l args : tr g l (tr f l args) = tr (fun x => g (f x)) l args.
Proof.
  revert args. induction l as [|[sep q] l IH]; intros [|x args]; try reflexivity.
  cbn [tr]. rewrite IH. destruct q; reflexivity.
Qed.

(* ---------------------------------------------------------------- splitting *)

Lemma split_go_word p acc w rest :
  forallb (fun c => negb (p c)) w = true ->
  split_set_go p acc (w ++ rest) = split_set_go p (acc ++ w) rest.
Proof.
  revert acc. induction w as [|c w IH]; intros acc Hw; [now rewrite app_nil_r|].
  cbn [forallb] in Hw. apply andb_true_iff in Hw. destruct Hw as [Hc Hw]. apply negb_true_iff in Hc.
  cbn [app split_set_go]. rewrite Hc, (IH _ Hw), <- app_assoc. reflexivity.
Qed.

Definition emit (acc : str) : list str := match acc with [] => [] | _ => [acc] end.

Lemma split_go_sep p acc s rest :
  forallb p s = true -> nonempty s = true ->
  split_set_go p acc (s ++ rest) = emit acc ++ split_set_go p [] rest.
Proof.
  revert acc. induction s as [|c s IH]; intros acc Hs Hn; [discriminate|].
  cbn [forallb] in Hs. apply andb_true_iff in Hs. destruct Hs as [Hc Hs].
  cbn [app split_set_go]. rewrite Hc. destruct s as [|c' s'].
  - cbn [app]. destruct acc; reflexivity.
  - rewrite (IH [] Hs eq_refl). destruct acc; reflexivity.
Qed.

Lemma split_go_seps p acc s : forallb p s = true -> split_set_go p acc s = emit acc.
Proof.
  intros Hs. destruct s as [|c s]; [destruct acc; reflexivity|].
  rewrite <- (app_nil_r (c :: s)), split_go_sep by auto. cbn. now rewrite app_nil_r.
Qed.

(* the words of the protected text *)
Fixpoint words (l : list (str * bool)) (args : list str) : list str :=
  match l, args with
  | (_, q) :: l', x :: args' => pr_arg0 q x :: words l' args'
  | _, _ => []
  end.

Fixpoint split_ok (l : list (str * bool)) (args : list str) : bool :=
  match l, args with
  | [], [] => true
  | (sep, q) :: l', x :: args' =>
      forallb is_argsep sep && nonempty sep && nosep x && nonempty x && split_ok l' args'
  | _, _ => false
  end.

Lemma nosep_pr_arg q x : nosep x = true -> nosep (pr_arg0 q x) = true.
Proof.
  intros H. destruct q; [|exact H]. unfold nosep in *. cbn [pr_arg0 forallb].
  rewrite forallb_app, H. reflexivity.
Qed.

Lemma split_rest acc l args trail :
  nonempty acc = true -> split_ok l args = true -> forallb is_argsep trail = true ->
  split_set_go is_argsep acc (pr_rest0 l args ++ trail) = acc :: words l args.
Proof.
  revert acc args. induction l as [|[sep q] l IH]; intros acc [|x args] Ha H Ht; try discriminate H.
  - cbn [pr_rest0 app words]. rewrite split_go_seps by exact Ht. destruct acc; [discriminate|reflexivity].
  - cbn [split_ok] in H. rewrite !andb_true_iff in H. destruct H as [[[[Hs Hsn] Hx] Hxn] Hr].
    cbn [pr_rest0 words]. rewrite <- !app_assoc.
    rewrite split_go_sep by auto. destruct acc as [|c acc]; [discriminate|]. cbn [emit app]. f_equal.
    rewrite split_go_word by (apply nosep_pr_arg, Hx). cbn [app].
    apply IH; auto. destruct q, x; try discriminate; reflexivity.
Qed.

(* ---------------------------------------------------------------- unprotecting *)

Definition prot (x : str) : str := map_char c_comma c_03 (map_char c_sp c_01 x).

Lemma unprot_char c :
  negb (ascii_eqb c c_01 || ascii_eqb c c_02 || ascii_eqb c c_03) = true ->
  let f1 := fun c => if ascii_eqb c c_sp then c_01 else c in
  let f2 := fun c => if ascii_eqb c c_comma then c_03 else c in
  let g1 := fun c => if ascii_eqb c c_01 then c_sp else c in
  let g2 := fun c => if ascii_eqb c c_02 then c_dq else c in
  let g3 := fun c => if ascii_eqb c c_03 then c_comma else c in
  g3 (g2 (g1 (f2 (f1 c)))) = c.
Proof.
  destruct c as [[] [] [] [] [] [] [] []]; vm_compute; intros H; try discriminate H; reflexivity.
Qed.

(* a quoted value: the delimiters go, then the blanks, the quotes and the commas come back *)
Lemma unprot_char_q c :
  negb (ascii_eqb c c_01 || ascii_eqb c c_02 || ascii_eqb c c_03) = true ->
  let h := fun c => if ascii_eqb c c_dq then c_02 else c in
  let f1 := fun c => if ascii_eqb c c_sp then c_01 else c in
  let f2 := fun c => if ascii_eqb c c_comma then c_03 else c in
  let g1 := fun c => if ascii_eqb c c_01 then c_sp else c in
  let g2 := fun c => if ascii_eqb c c_02 then c_dq else c in
  let g3 := fun c => if ascii_eqb c c_03 then c_comma else c in
  g3 (g2 (g1 (f2 (f1 (h c))))) = c.
Proof.
  destruct c as [[] [] [] [] [] [] [] []]; vm_compute; intros H; try discriminate H; reflexivity.
Qed.

Lemma unprotect_quoted x : noctl x = true -> unprotect (c_dq :: prot (dqp x) ++ [c_dq]) = x.
Proof.
  intros H. unfold unprotect. rewrite strip_dq_quoted. unfold prot, dqp, map_char. rewrite !map_map.
  rewrite <- (map_id x) at 2. apply map_ext_in. intros c Hc.
  unfold noctl in H. rewrite forallb_forall in H. exact (unprot_char_q c (H c Hc)).
Qed.

Lemma unprot_char_bare c :
  negb (ascii_eqb c c_01 || ascii_eqb c c_02 || ascii_eqb c c_03) = true ->
  let h := fun c => if ascii_eqb c c_dq then c_02 else c in
  let g1 := fun c => if ascii_eqb c c_01 then c_sp else c in
  let g2 := fun c => if ascii_eqb c c_02 then c_dq else c in
  let g3 := fun c => if ascii_eqb c c_03 then c_comma else c in
  g3 (g2 (g1 (h c))) = c.
Proof.
  destruct c as [[] [] [] [] [] [] [] []]; vm_compute; intros H; try discriminate H; reflexivity.
Qed.

(* a bare word: when the delimiting quotes are looked for, the quotes of the value are still
   the place holder 2, so nothing is removed, whatever the first and last characters are *)
Lemma unprotect_bare x : noctl x = true -> unprotect (dqp x) = x.
Proof.
  intros H. unfold unprotect. rewrite strip_dq_id.
  - unfold dqp, map_char. rewrite !map_map. rewrite <- (map_id x) at 2. apply map_ext_in. intros c Hc.
    unfold noctl in H. rewrite forallb_forall in H. exact (unprot_char_bare c (H c Hc)).
  - pose proof (dqp_nodq x) as Hq. destruct (dqp x) as [|c y]; [reflexivity|].
    cbn [nodq forallb] in Hq. apply andb_true_iff in Hq. destruct Hq as [Hq _]. now apply negb_true_iff.
Qed.

Lemma dqp_nosep x : nosep x = true -> nosep (dqp x) = true.
Proof.
  unfold nosep, dqp, map_char. induction x as [|c x IH]; [reflexivity|]. cbn [forallb map].
  rewrite !andb_true_iff. intros [Hc Hx]. split; [|apply IH, Hx].
  destruct (ascii_eqb c c_dq); [reflexivity|exact Hc].
Qed.

(* ---------------------------------------------------------------- the round trip *)

Lemma wf_rest_facts l args : wf_rest l args = true ->
  bsq_ok l args = true /\
  pass_ok l (map dqp args) = true /\
  split_ok l (tr prot l (map dqp args)) = true /\
  map unprotect (words l (tr prot l (map dqp args))) = args.
Proof.
  revert args. induction l as [|[sep q] l IH]; intros [|x args] H; try discriminate H.
  - repeat split.
  - cbn [wf_rest] in H. rewrite !andb_true_iff in H. destruct H as [[[Hs Hv] Hq] Hr].
    destruct (IH _ Hr) as (I0 & I1 & I2 & I3).
    destruct (wf_value_facts x Hv) as (Vn & Vb & Vc).
    unfold wf_sep in Hs. rewrite !andb_true_iff in Hs. destruct Hs as [[Sn Ss] _].
    destruct (sep_facts sep Ss) as [Sq Sb].
    repeat split.
    + cbn [bsq_ok]. now rewrite Sb, Vb, I0.
    + cbn [map pass_ok]. now rewrite Sq, dqp_nodq, dqp_nonempty, Vn, I1.
    + cbn [map tr split_ok]. rewrite Ss, Sn, I2. cbn [andb]. destruct q.
      * assert (E : nosep (prot (dqp x)) = true).
        { unfold nosep, prot, map_char. rewrite !forallb_forall. intros c Hc.
          rewrite map_map in Hc. apply in_map_iff in Hc. destruct Hc as (c0 & <- & _).
          unfold is_argsep.
          destruct (ascii_eqb c0 c_sp) eqn:E1; [reflexivity|].
          destruct (ascii_eqb c0 c_comma) eqn:E2; [reflexivity|]. now rewrite E1, E2. }
        rewrite E. unfold prot. rewrite !map_char_nonempty, dqp_nonempty, Vn. reflexivity.
      * rewrite (dqp_nosep x (bare_nosep x Hq)), dqp_nonempty, Vn. reflexivity.
    + cbn [map tr words]. rewrite I3. f_equal. destruct q; cbn [pr_arg0].
      * apply unprotect_quoted, Vc.
      * apply unprotect_bare, Vc.
Qed.

Lemma protect_bsq_id s : nobsl s = true -> protect_bsq s = s.
Proof.
  intros H. unfold protect_bsq, replace_all, resub. apply scan_copy_all.
  unfold nobsl in H. rewrite forallb_Forall in H. eapply Forall_impl; [|exact H].
  intros c Hc r. apply negb_true_iff in Hc. unfold lit_match. cbn [cs_prefix].
  rewrite ascii_eqb_sym, Hc. reflexivity.
Qed.

Lemma sp_nodq n : nodq (sp n) = true.
Proof. induction n; [reflexivity|]. cbn. exact IHn. Qed.
Lemma sp_nobsl n : nobsl (sp n) = true.
Proof. induction n; [reflexivity|]. cbn. exact IHn. Qed.

Lemma pass_full a b pre a0 l args post :
  nodq pre = true -> nodq a0 = true -> nodq post = true -> pass_ok l args = true ->
  scan (quoted_match a b) 0 (pre ++ a0 ++ pr_rest0 l args ++ post)
  = pre ++ a0 ++ pr_rest0 l (tr (map_char a b) l args) ++ post.
Proof.
  intros H1 H2 H3 H4. rewrite nodq_copy by exact H1. rewrite nodq_copy by exact H2.
  rewrite pass_rest by exact H4. rewrite <- (app_nil_r post) at 1. rewrite nodq_copy by exact H3.
  cbn [scan]. now rewrite app_nil_r.
Qed.

(* the first pass on the whole printed text *)
Lemma bsq_full n a0 l args m : nobsl a0 = true -> bsq_ok l args = true ->
  protect_bsq (sp n ++ esc_dq a0 ++ pr_rest l args ++ sp m)
  = sp n ++ dqp a0 ++ pr_rest0 l (map dqp args) ++ sp m.
Proof.
  intros Ha Hr. unfold protect_bsq, replace_all, resub. fold bsq_m.
  rewrite bsq_copy by apply sp_nobsl. rewrite bsq_esc by exact Ha. rewrite bsq_rest by exact Hr.
  rewrite <- (app_nil_r (sp m)) at 1. rewrite bsq_copy by apply sp_nobsl. cbn [scan]. now rewrite app_nil_r.
Qed.

(* the printed text does not begin with a (real) double quote *)
Lemma esc_dq_head a rest :
  nonempty a = true ->
  match esc_dq a ++ rest with c :: _ => ascii_eqb c c_dq | [] => false end = false.
Proof.
  destruct a as [|c a]; [discriminate|]. intros _. cbn [esc_dq flat_map].
  destruct (ascii_eqb c c_dq) eqn:E; cbn [app]; [reflexivity|exact E].
Qed.

Theorem split_print_args g args : wf_args g args = true -> split_args true (print_args g args) = args.
Proof.
  destruct args as [|a0 rest]; cbn [wf_args print_args].
  - intros _. unfold split_args, protect.
    rewrite strip_dq_id by (destruct (gl_lead g); reflexivity).
    rewrite protect_bsq_id by apply sp_nobsl.
    unfold resub. rewrite <- (app_nil_r (sp (gl_lead g))). rewrite !nodq_copy by apply sp_nodq.
    cbn [scan]. rewrite app_nil_r. unfold split_set. rewrite split_go_seps by apply sp_argsep. reflexivity.
  - rewrite !andb_true_iff. intros [[Hv Hb] Hr].
    destruct (wf_value_facts a0 Hv) as (Vn & Vb & Vc).
    destruct (wf_rest_facts _ _ Hr) as (P0 & P1 & P2 & P3).
    unfold split_args, protect.
    rewrite strip_dq_id.
    2:{ destruct (gl_lead g); [|reflexivity]. cbn [sp repeat app]. apply esc_dq_head, Vn. }
    rewrite bsq_full by assumption.
    unfold resub.
    rewrite pass_full by (auto using sp_nodq, dqp_nodq).
    rewrite pass_full by (auto using sp_nodq, dqp_nodq, pass_ok_tr).
    rewrite tr_tr.
    change (fun x => map_char c_comma c_03 (map_char c_sp c_01 x)) with prot.
    unfold split_set.
    assert (Hw : nosep (dqp a0) = true) by (apply dqp_nosep, bare_nosep, Hb).
    assert (Hne : nonempty (dqp a0) = true) by (now rewrite dqp_nonempty).
    destruct (gl_lead g) as [|n].
    + cbn [sp repeat app]. rewrite split_go_word by exact Hw. cbn [app].
      rewrite split_rest; auto using sp_argsep. cbn [map]. rewrite P3. f_equal. apply unprotect_bare, Vc.
    + rewrite split_go_sep by (auto using sp_argsep). cbn [emit app].
      rewrite split_go_word by exact Hw. cbn [app].
      rewrite split_rest; auto using sp_argsep. cbn [map]. rewrite P3. f_equal. apply unprotect_bare, Vc.
Qed.

(* ---------------------------------------------------------------- what the escaping adds *)

(* texts of values without double quote are what they were before quotes were admitted *)
Lemma pr_arg_plain q a : nodq a = true -> pr_arg q a = pr_arg0 q a.
Proof. intros H. unfold pr_arg, pr_arg0. now rewrite (esc_dq_id a H). Qed.

(* a bare word between two quotes: written with both quotes escaped, read with both *)
Lemma split_quoted_word name sep w :
  wf_value name = true -> bare_ok name = true -> wf_sep sep = true ->
  wf_value w = true -> bare_ok w = true ->
  let g := mkArglay 0 [(sep, false)] 0 in
  let a := c_dq :: w ++ [c_dq] in
  print_args g [name; a] = esc_dq name ++ sep ++ [c_bsl; c_dq] ++ esc_dq w ++ [c_bsl; c_dq] /\
  split_args true (print_args g [name; a]) = [name; a].
Proof.
  intros Hn Hnb Hs Hw Hwb g a.
  assert (Ea : esc_dq a = [c_bsl; c_dq] ++ esc_dq w ++ [c_bsl; c_dq]).
  { subst a. unfold esc_dq. cbn [flat_map]. rewrite ascii_eqb_refl, flat_map_app. cbn [flat_map].
    rewrite ascii_eqb_refl, app_nil_r. reflexivity. }
  split.
  - subst g. unfold print_args. cbn [gl_lead gl_rest gl_trail sp repeat pr_rest pr_arg app].
    rewrite Ea, !app_nil_r. reflexivity.
  - apply split_print_args. subst g. cbn [wf_args gl_rest wf_rest]. rewrite Hn, Hnb, Hs. cbn [andb].
    rewrite andb_true_r. apply andb_true_iff. split.
    + unfold wf_value in *. apply andb_true_iff in Hw. destruct Hw as [_ Hw].
      subst a. cbn [nonempty forallb]. rewrite forallb_app, Hw. reflexivity.
    + unfold bare_ok in *. subst a. cbn [forallb]. rewrite forallb_app, Hwb. reflexivity.
Qed.

(* ---------------------------------------------------------------- texts *)

(* a text the recogniser puts inside the grammar is the print of a well-formed argument
   list, and the splitter gives exactly those arguments *)
Lemma args_class_sound t args : args_class t = Some args ->
  split_args true t = args /\ exists g, wf_args g args = true /\ print_args g args = t.
Proof.
  unfold args_class. destruct (args_parse t) as [[g a]|]; [|discriminate].
  destruct (wf_args g a) eqn:W; [|discriminate]. cbn [andb].
  destruct (str_eqb (print_args g a) t) eqn:E; [|discriminate]. intros H. injection H as <-.
  apply str_eqb_eq in E. split; [|exists g; auto]. rewrite <- E. now apply split_print_args.
Qed.
