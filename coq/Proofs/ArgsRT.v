(* C11 - level A for arguments: the (repaired) argument splitter of Table._read applied to
   the printed argument list gives back the arguments: quoted values keep their blanks and
   commas, whatever the separators and the optional quoting of the other values. *)
From Coq Require Import Lia.
From Eupsv Require Import Base.Base Base.BaseLemmas Model.Rx Model.Cond Model.Args Model.Legacy
  Model.Blocks Model.TableSpec Proofs.RxLib.

(* ---------------------------------------------------------------- alphabets *)

Definition nodq (s : str) : bool := forallb (fun c => negb (ascii_eqb c c_dq)) s.
Definition nobsl (s : str) : bool := forallb (fun c => negb (ascii_eqb c c_bsl)) s.
Definition noctl (s : str) : bool :=
  forallb (fun c => negb (ascii_eqb c c_01 || ascii_eqb c c_02 || ascii_eqb c c_03)) s.
Definition nosep (s : str) : bool := forallb (fun c => negb (is_argsep c)) s.

Lemma wf_value_facts a : wf_value a = true ->
  nonempty a = true /\ nodq a = true /\ nobsl a = true /\ noctl a = true.
Proof.
  unfold wf_value. rewrite andb_true_iff. intros [Hn Hb]. split; [exact Hn|].
  unfold nodq, nobsl, noctl. repeat split; (eapply forallb_impl; [|exact Hb]); intros c Hc;
    unfold bad_arg_char in Hc; rewrite negb_true_iff in Hc; rewrite !orb_false_iff in Hc;
    rewrite ?negb_true_iff, ?orb_false_iff; tauto.
Qed.

Lemma argsep_facts c : is_argsep c = true ->
  ascii_eqb c c_dq = false /\ ascii_eqb c c_bsl = false.
Proof.
  unfold is_argsep. rewrite orb_true_iff. intros [H|H]; apply ascii_eqb_eq in H; subst c; split; reflexivity.
Qed.

Lemma sep_facts s : forallb is_argsep s = true -> nodq s = true /\ nobsl s = true.
Proof.
  intros H. unfold nodq, nobsl. split; (eapply forallb_impl; [|exact H]); intros c Hc;
    destruct (argsep_facts c Hc) as [H1 H2]; now rewrite ?H1, ?H2.
Qed.

Lemma sp_argsep n : forallb is_argsep (sp n) = true.
Proof. induction n; [reflexivity|]. cbn. exact IHn. Qed.

Lemma bare_nosep a : bare_ok a = true -> nosep a = true.
Proof.
  unfold bare_ok, nosep. apply forallb_impl. intros c. rewrite !negb_true_iff, !orb_false_iff.
  intros [H1 H2]. unfold is_argsep. rewrite H2. cbn [orb].
  destruct (ascii_eqb c c_sp) eqn:E; [|reflexivity]. apply ascii_eqb_eq in E. subst c. discriminate H1.
Qed.

(* ---------------------------------------------------------------- the quoted-string passes *)

Lemma qm_nomatch a b c r : ascii_eqb c c_dq = false -> quoted_match a b (c :: r) = None.
Proof. intros H. cbn [quoted_match]. now rewrite H. Qed.

Lemma nodq_copy a b s rest : nodq s = true ->
  scan (quoted_match a b) 0 (s ++ rest) = s ++ scan (quoted_match a b) 0 rest.
Proof.
  intros H. apply scan_copy. unfold nodq in H. rewrite forallb_Forall in H.
  eapply Forall_impl; [|exact H]. intros c Hc r. apply qm_nomatch. now apply negb_true_iff.
Qed.

Lemma qm_quoted a b x rest : nodq x = true -> nonempty x = true ->
  scan (quoted_match a b) 0 (c_dq :: x ++ c_dq :: rest)
  = (c_dq :: map_char a b x ++ [c_dq]) ++ scan (quoted_match a b) 0 rest.
Proof.
  intros Hx Hne.
  replace (c_dq :: x ++ c_dq :: rest) with (c_dq :: (x ++ [c_dq]) ++ rest) by (now rewrite <- app_assoc).
  apply scan_match. rewrite <- app_assoc. cbn [app quoted_match]. rewrite ascii_eqb_refl.
  rewrite (span_app _ x c_dq rest Hx) by (now rewrite ascii_eqb_refl).
  destruct x; [discriminate|]. rewrite app_length. cbn [length]. do 2 f_equal. lia.
Qed.

(* the arguments after a pass: the quoted ones have been mapped *)
Fixpoint tr (f : str -> str) (l : list (str * bool)) (args : list str) : list str :=
  match l, args with
  | (_, q) :: l', x :: args' => (if q then f x else x) :: tr f l' args'
  | _, _ => []
  end.

(* what a pass needs of the layout and the arguments *)
Fixpoint pass_ok (l : list (str * bool)) (args : list str) : bool :=
  match l, args with
  | [], [] => true
  | (sep, q) :: l', x :: args' => nodq sep && nodq x && nonempty x && pass_ok l' args'
  | _, _ => false
  end.

Lemma pass_rest a b l args rest : pass_ok l args = true ->
  scan (quoted_match a b) 0 (pr_rest l args ++ rest)
  = pr_rest l (tr (map_char a b) l args) ++ scan (quoted_match a b) 0 rest.
Proof.
  revert args. induction l as [|[sep q] l IH]; intros [|x args] H; try discriminate H; [reflexivity|].
  cbn [pass_ok] in H. rewrite !andb_true_iff in H. destruct H as [[[Hs Hx] Hn] Hr].
  cbn [pr_rest tr]. rewrite <- !app_assoc. rewrite nodq_copy by exact Hs. f_equal.
  destruct q; cbn [pr_arg].
  - cbn [app]. rewrite <- app_assoc. cbn [app]. rewrite qm_quoted by auto.
    cbn [app]. rewrite IH by exact Hr. reflexivity.
  - rewrite nodq_copy by exact Hx. now rewrite IH by exact Hr.
Qed.

Lemma map_char_nodq a b x : ascii_eqb b c_dq = false -> nodq x = true -> nodq (map_char a b x) = true.
Proof.
  intros Hb. unfold nodq, map_char. induction x as [|c x IH]; [reflexivity|]. cbn [map forallb].
  rewrite !andb_true_iff. intros [Hc Hx]. split; [|now apply IH].
  destruct (ascii_eqb c a); [now rewrite Hb|exact Hc].
Qed.

Lemma map_char_nonempty a b x : nonempty (map_char a b x) = nonempty x.
Proof. destruct x; reflexivity. Qed.

Lemma pass_ok_tr a b l args : ascii_eqb b c_dq = false ->
  pass_ok l args = true -> pass_ok l (tr (map_char a b) l args) = true.
Proof.
  intros Hb. revert args. induction l as [|[sep q] l IH]; intros [|x args] H; try discriminate H; [reflexivity|].
  cbn [pass_ok] in H. rewrite !andb_true_iff in H. destruct H as [[[Hs Hx] Hn] Hr].
  cbn [tr pass_ok]. rewrite Hs, (IH _ Hr). destruct q.
  - rewrite map_char_nodq, map_char_nonempty, Hn by auto. reflexivity.
  - now rewrite Hx, Hn.
Qed.

Lemma tr_tr f g l args : tr g l (tr f l args) = tr (fun x => g (f x)) l args.
Proof.
  revert args. induction l as [|[sep q] l IH]; intros [|x args]; try reflexivity.
  cbn [tr]. rewrite IH. destruct q; reflexivity.
Qed.

(* ---------------------------------------------------------------- splitting *)

Lemma split_go_word p acc w rest :
  forallb (fun c => negb (p c)) w = true ->
  split_set_go p acc (w ++ rest) = split_set_go p (acc ++ w) rest.
Proof.
  revert acc. induction w as [|c w IH]; intros acc Hw; [now rewrite app_nil_r|].
  cbn [forallb] in Hw. apply andb_true_iff in Hw. destruct Hw as [Hc Hw]. apply negb_true_iff in Hc.
  cbn [app split_set_go]. rewrite Hc, (IH _ Hw), <- app_assoc. reflexivity.
Qed.

Definition emit (acc : str) : list str := match acc with [] => [] | _ => [acc] end.

Lemma split_go_sep p acc s rest :
  forallb p s = true -> nonempty s = true ->
  split_set_go p acc (s ++ rest) = emit acc ++ split_set_go p [] rest.
Proof.
  revert acc. induction s as [|c s IH]; intros acc Hs Hn; [discriminate|].
  cbn [forallb] in Hs. apply andb_true_iff in Hs. destruct Hs as [Hc Hs].
  cbn [app split_set_go]. rewrite Hc. destruct s as [|c' s'].
  - cbn [app]. destruct acc; reflexivity.
  - rewrite (IH [] Hs eq_refl). destruct acc; reflexivity.
Qed.

Lemma split_go_seps p acc s : forallb p s = true -> split_set_go p acc s = emit acc.
Proof.
  intros Hs. destruct s as [|c s]; [destruct acc; reflexivity|].
  rewrite <- (app_nil_r (c :: s)), split_go_sep by auto. cbn. now rewrite app_nil_r.
Qed.

(* the words of the protected text *)
Fixpoint words (l : list (str * bool)) (args : list str) : list str :=
  match l, args with
  | (_, q) :: l', x :: args' => pr_arg q x :: words l' args'
  | _, _ => []
  end.

Fixpoint split_ok (l : list (str * bool)) (args : list str) : bool :=
  match l, args with
  | [], [] => true
  | (sep, q) :: l', x :: args' =>
      forallb is_argsep sep && nonempty sep && nosep x && nonempty x && split_ok l' args'
  | _, _ => false
  end.

Lemma nosep_pr_arg q x : nosep x = true -> nosep (pr_arg q x) = true.
Proof.
  intros H. destruct q; [|exact H]. unfold nosep in *. cbn [pr_arg forallb].
  rewrite forallb_app, H. reflexivity.
Qed.

Lemma split_rest acc l args trail :
  nonempty acc = true -> split_ok l args = true -> forallb is_argsep trail = true ->
  split_set_go is_argsep acc (pr_rest l args ++ trail) = acc :: words l args.
Proof.
  revert acc args. induction l as [|[sep q] l IH]; intros acc [|x args] Ha H Ht; try discriminate H.
  - cbn [pr_rest app words]. rewrite split_go_seps by exact Ht. destruct acc; [discriminate|reflexivity].
  - cbn [split_ok] in H. rewrite !andb_true_iff in H. destruct H as [[[[Hs Hsn] Hx] Hxn] Hr].
    cbn [pr_rest words]. rewrite <- !app_assoc.
    rewrite split_go_sep by auto. destruct acc as [|c acc]; [discriminate|]. cbn [emit app]. f_equal.
    rewrite split_go_word by (apply nosep_pr_arg, Hx). cbn [app].
    apply IH; auto. destruct q, x; try discriminate; reflexivity.
Qed.

(* ---------------------------------------------------------------- unprotecting *)

Definition prot (x : str) : str := map_char c_comma c_03 (map_char c_sp c_01 x).

Lemma unprot_char c :
  negb (ascii_eqb c c_01 || ascii_eqb c c_02 || ascii_eqb c c_03) = true ->
  let f1 := fun c => if ascii_eqb c c_sp then c_01 else c in
  let f2 := fun c => if ascii_eqb c c_comma then c_03 else c in
  let g1 := fun c => if ascii_eqb c c_01 then c_sp else c in
  let g2 := fun c => if ascii_eqb c c_02 then c_dq else c in
  let g3 := fun c => if ascii_eqb c c_03 then c_comma else c in
  g3 (g2 (g1 (f2 (f1 c)))) = c.
Proof.
  destruct c as [[] [] [] [] [] [] [] []]; vm_compute; intros H; try discriminate H; reflexivity.
Qed.

Lemma unprotect_quoted x : noctl x = true -> unprotect (c_dq :: prot x ++ [c_dq]) = x.
Proof.
  intros H. unfold unprotect. rewrite strip_dq_quoted. unfold prot, map_char. rewrite !map_map.
  rewrite <- (map_id x) at 2. apply map_ext_in. intros c Hc.
  unfold noctl in H. rewrite forallb_forall in H. exact (unprot_char c (H c Hc)).
Qed.

Lemma unprot_char_bare c :
  negb (ascii_eqb c c_01 || ascii_eqb c c_02 || ascii_eqb c c_03) = true ->
  let g1 := fun c => if ascii_eqb c c_01 then c_sp else c in
  let g2 := fun c => if ascii_eqb c c_02 then c_dq else c in
  let g3 := fun c => if ascii_eqb c c_03 then c_comma else c in
  g3 (g2 (g1 c)) = c.
Proof.
  destruct c as [[] [] [] [] [] [] [] []]; vm_compute; intros H; try discriminate H; reflexivity.
Qed.

Lemma unprotect_bare x : noctl x = true -> nodq x = true -> unprotect x = x.
Proof.
  intros H Hq. unfold unprotect. rewrite strip_dq_id.
  - unfold map_char. rewrite !map_map. rewrite <- (map_id x) at 2. apply map_ext_in. intros c Hc.
    unfold noctl in H. rewrite forallb_forall in H. exact (unprot_char_bare c (H c Hc)).
  - destruct x as [|c x]; [reflexivity|]. cbn [nodq forallb] in Hq. apply andb_true_iff in Hq.
    destruct Hq as [Hq _]. now apply negb_true_iff.
Qed.

(* ---------------------------------------------------------------- the round trip *)

Lemma wf_rest_facts l args : wf_rest l args = true ->
  pass_ok l args = true /\
  split_ok l (tr prot l args) = true /\
  map unprotect (words l (tr prot l args)) = args /\
  nobsl (pr_rest l args) = true.
Proof.
  revert args. induction l as [|[sep q] l IH]; intros [|x args] H; try discriminate H.
  - repeat split.
  - cbn [wf_rest] in H. rewrite !andb_true_iff in H. destruct H as [[[Hs Hv] Hq] Hr].
    destruct (IH _ Hr) as (I1 & I2 & I3 & I4).
    destruct (wf_value_facts x Hv) as (Vn & Vq & Vb & Vc).
    unfold wf_sep in Hs. rewrite !andb_true_iff in Hs. destruct Hs as [[Sn Ss] _].
    destruct (sep_facts sep Ss) as [Sq Sb].
    repeat split.
    + cbn [pass_ok]. now rewrite Sq, Vq, Vn, I1.
    + cbn [tr split_ok]. rewrite Ss, Sn, I2. cbn [andb]. destruct q.
      * assert (E : nosep (prot x) = true).
        { unfold nosep, prot, map_char. rewrite !forallb_forall. intros c Hc.
          rewrite map_map in Hc. apply in_map_iff in Hc. destruct Hc as (c0 & <- & _).
          unfold is_argsep.
          destruct (ascii_eqb c0 c_sp) eqn:E1; [reflexivity|].
          destruct (ascii_eqb c0 c_comma) eqn:E2; [reflexivity|]. now rewrite E1, E2. }
        rewrite E. unfold prot. rewrite !map_char_nonempty, Vn. reflexivity.
      * rewrite (bare_nosep x Hq), Vn. reflexivity.
    + cbn [tr words map]. rewrite I3. f_equal. destruct q; cbn [pr_arg].
      * apply unprotect_quoted, Vc.
      * apply unprotect_bare; auto.
    + cbn [pr_rest]. unfold nobsl in *. rewrite !forallb_app, Sb, I4.
      destruct q; cbn [pr_arg forallb]; rewrite ?forallb_app, Vb; reflexivity.
Qed.

Lemma protect_bsq_id s : nobsl s = true -> protect_bsq s = s.
Proof.
  intros H. unfold protect_bsq, replace_all, resub. apply scan_copy_all.
  unfold nobsl in H. rewrite forallb_Forall in H. eapply Forall_impl; [|exact H].
  intros c Hc r. apply negb_true_iff in Hc. unfold lit_match. cbn [cs_prefix].
  rewrite ascii_eqb_sym, Hc. reflexivity.
Qed.

Lemma sp_nodq n : nodq (sp n) = true.
Proof. induction n; [reflexivity|]. cbn. exact IHn. Qed.
Lemma sp_nobsl n : nobsl (sp n) = true.
Proof. induction n; [reflexivity|]. cbn. exact IHn. Qed.

Lemma pass_full a b pre a0 l args post :
  nodq pre = true -> nodq a0 = true -> nodq post = true -> pass_ok l args = true ->
  scan (quoted_match a b) 0 (pre ++ a0 ++ pr_rest l args ++ post)
  = pre ++ a0 ++ pr_rest l (tr (map_char a b) l args) ++ post.
Proof.
  intros H1 H2 H3 H4. rewrite nodq_copy by exact H1. rewrite nodq_copy by exact H2.
  rewrite pass_rest by exact H4. rewrite <- (app_nil_r post) at 1. rewrite nodq_copy by exact H3.
  cbn [scan]. now rewrite app_nil_r.
Qed.

Theorem split_print_args g args : wf_args g args = true -> split_args true (print_args g args) = args.
Proof.
  destruct args as [|a0 rest]; cbn [wf_args print_args].
  - intros _. unfold split_args, protect.
    rewrite strip_dq_id by (destruct (gl_lead g); reflexivity).
    rewrite protect_bsq_id by apply sp_nobsl.
    unfold resub. rewrite <- (app_nil_r (sp (gl_lead g))). rewrite !nodq_copy by apply sp_nodq.
    cbn [scan]. rewrite app_nil_r. unfold split_set. rewrite split_go_seps by apply sp_argsep. reflexivity.
  - rewrite !andb_true_iff. intros [[Hv Hb] Hr].
    destruct (wf_value_facts a0 Hv) as (Vn & Vq & Vb & Vc).
    destruct (wf_rest_facts _ _ Hr) as (P1 & P2 & P3 & P4).
    unfold split_args, protect.
    rewrite strip_dq_id.
    2:{ destruct (gl_lead g); [|reflexivity]. cbn [sp repeat app]. destruct a0 as [|c a0]; [discriminate|].
        cbn [app]. cbn [nodq forallb] in Vq. apply andb_true_iff in Vq. destruct Vq as [Vq _].
        now apply negb_true_iff. }
    rewrite protect_bsq_id.
    2:{ unfold nobsl in *. rewrite !forallb_app, Vb, P4. fold (nobsl (sp (gl_lead g))). fold (nobsl (sp (gl_trail g))).
        now rewrite !sp_nobsl. }
    unfold resub.
    rewrite pass_full by (auto using sp_nodq).
    rewrite pass_full by (auto using sp_nodq, pass_ok_tr).
    rewrite tr_tr.
    change (fun x => map_char c_comma c_03 (map_char c_sp c_01 x)) with prot.
    unfold split_set.
    destruct (gl_lead g) as [|n].
    + cbn [sp repeat app]. rewrite split_go_word by (apply bare_nosep, Hb). cbn [app].
      rewrite split_rest; auto using sp_argsep. cbn [map]. rewrite P3. f_equal. apply unprotect_bare; auto.
    + rewrite split_go_sep by (auto using sp_argsep). cbn [emit app].
      rewrite split_go_word by (apply bare_nosep, Hb). cbn [app].
      rewrite split_rest; auto using sp_argsep. cbn [map]. rewrite P3. f_equal. apply unprotect_bare; auto.
Qed.
