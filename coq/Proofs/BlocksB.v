(* C11 - level B: the block state machine of Table._read run on the classified lines of a
   well-formed items list builds the chains one expects, and Table.actions picks from each
   chain the branch the truth tables designate.  The two facts about text that this level
   needs (arguments split back, conditions tokenise back) are section hypotheses here; they
   are discharged in Proofs/ArgsRT.v and Proofs/CondTok.v. *)
From Coq Require Import Lia.
From Eupsv Require Import Base.Base Base.BaseLemmas Model.Rx Model.Cond Model.Args Model.Legacy
  Model.Blocks Model.TableSpec Proofs.CondEval.

(* ---------------------------------------------------------------- commands *)

Lemma str_eqb_length a b : str_eqb a b = true -> length a = length b.
Proof. intros H. apply str_eqb_eq in H. now subst. Qed.

Lemma del_f_id args : mem_str (lit "-f") args = false -> del_f args = args.
Proof.
  induction args as [|a r IH]; [reflexivity|]. cbn [mem_str del_f].
  rewrite str_eqb_sym. destruct (str_eqb a (lit "-f")); [discriminate|].
  intros H. now rewrite IH.
Qed.

Lemma dir_env_not_f top : str_eqb (dir_env_name top) (lit "-f") = false.
Proof.
  destruct (str_eqb (dir_env_name top) (lit "-f")) eqn:E; [|reflexivity].
  apply str_eqb_length in E. unfold dir_env_name in E. rewrite app_length in E. cbn in E. lia.
Qed.

Lemma normalise_kind k spell :
  str_eqb (lower_str spell) (lower_str (kind_name k)) = true ->
  normalise_cmd spell =
  Some (match k with
        | KEnvPrepend | KPathPrepend => k_envPrepend
        | KEnvAppend | KPathAppend => k_envAppend
        | KEnvSet | KSetenv | KPathSet => k_envSet
        | KSetupRequired => k_setupRequired | KSetupOptional => k_setupOptional
        | KUnsetupRequired => k_unsetupRequired | KUnsetupOptional => k_unsetupOptional
        | KAddAlias => k_addAlias | KDeclareOptions => k_declareOptions
        | KPrint => k_print | KProdDir => k_prodDir | KSetupEnv => k_setupEnv
        | KEnvUnset => k_envUnset
        end).
Proof.
  intros H. apply str_eqb_eq in H. unfold normalise_cmd. rewrite H. destruct k; reflexivity.
Qed.

Local Opaque del_f.

(* a well-formed command line becomes exactly the action the documentation describes,
   provided its argument text splits back into its arguments *)
Lemma cmd_action top c :
  wf_cmd c = true ->
  split_args true (print_args (cl_args (c_lay c)) (c_args c)) = c_args c ->
  mk_action true top (cl_spell (c_lay c)) (print_args (cl_args (c_lay c)) (c_args c))
  = CAdd (denote_cmd top c).
Proof.
  unfold wf_cmd. rewrite !andb_true_iff, !negb_true_iff.
  intros [[[[[[[[[[[[Hsp Har] _] Hf] _] _] _] _] _] _] _] _] _] Hsplit.
  unfold mk_action. rewrite (normalise_kind _ _ Hsp), Hsplit.
  unfold denote_cmd. destruct c as [k args lay]. cbn [c_kind c_args] in *.
  destruct k; cbn [kind_sem arity_ok] in *; unfold process_cmd, add;
    try (cbn; rewrite (del_f_id _ Hf); reflexivity).
  (* envPrepend family: arity 2 or 3 *)
  1-4: (apply andb_true_iff in Har; destruct Har as [A1 A2];
        apply Nat.leb_le in A1; apply Nat.leb_le in A2;
        cbn [str_eqb k_envAppend k_envPrepend k_prodDir k_setupEnv k_addAlias k_declareOptions
             k_unsetupOptional k_unsetupRequired k_setupOptional k_setupRequired lit
             String.list_ascii_of_string ascii_eqb Ascii.eqb Bool.eqb orb andb negb];
        replace (length args <? 2) with false by (symmetry; apply Nat.ltb_ge; lia);
        replace (3 <? length args) with false by (symmetry; apply Nat.ltb_ge; lia);
        cbn [orb]; rewrite (del_f_id _ Hf); reflexivity).
  (* envSet family: exactly two arguments *)
  1-3: (apply Nat.eqb_eq in Har; destruct args as [|a0 [|a1 [|a2 r]]]; try discriminate Har;
        cbn; rewrite (del_f_id [a0; a1]) by exact Hf; reflexivity).
  (* envUnset(PRODUCT_DIR) *)
  destruct args as [|a0 [|a1 r]]; try discriminate Har.
  apply str_eqb_eq in Har. subst a0.
  cbn [str_eqb k_envUnset k_prodDir k_setupEnv k_addAlias k_declareOptions k_envAppend k_envPrepend k_envSet
       k_unsetupOptional k_unsetupRequired k_setupOptional k_setupRequired lit
       String.list_ascii_of_string ascii_eqb Ascii.eqb Bool.eqb orb andb negb].
  rewrite str_eqb_refl. rewrite del_f_id; [reflexivity|].
  cbn [mem_str]. rewrite str_eqb_sym, dir_env_not_f. reflexivity.
Qed.

Local Transparent del_f.

(* ---------------------------------------------------------------- the expected chains *)

Definition branch_elems (top : str) (b : branch) : lbb :=
  [LLog (print_cond (b_cond b)); LBlk (denote_body top (b_body b))].

Definition chain_lbb (top : str) (bs : list branch) (els : option (list cmd * bracelay)) : lbb :=
  flat_map (branch_elems top) bs
  ++ [LBlk (match els with Some (b, _) => denote_body top b | None => [] end)].

Definition flushU (U : list action) : list lbb :=
  match U with [] => [] | _ => [[LLog s_true; LBlk U; LBlk []]] end.

Fixpoint compile (top : str) (U : list action) (is : list item) : list lbb :=
  match is with
  | [] => flushU U
  | ICmd c :: r => compile top (U ++ [denote_cmd top c]) r
  | IChain b0 elifs els _ :: r => flushU U ++ chain_lbb top (b0 :: elifs) els :: compile top [] r
  end.

Section LevelB.
Variable top : str.
Hypothesis Hargs : forall c, wf_cmd c = true ->
  split_args true (print_args (cl_args (c_lay c)) (c_args c)) = c_args c.

Lemma run_lines_app ks1 ks2 st :
  run_lines true top (ks1 ++ ks2) st = bind (run_lines true top ks1 st) (run_lines true top ks2).
Proof.
  revert st. induction ks1 as [|k r IH]; intros st; [reflexivity|].
  cbn [app run_lines]. destruct (step true top k st); cbn [bind]; auto.
Qed.

Lemma run_cmds body lg blk ifb ch out :
  forallb wf_cmd body = true ->
  run_lines true top (map cmd_kind_line body) (mkR lg blk ifb ch out)
  = Ok (mkR lg (blk ++ denote_body top body) ifb ch out).
Proof.
  revert blk. induction body as [|c r IH]; intros blk Hwf.
  - cbn. now rewrite app_nil_r.
  - cbn [forallb] in Hwf. apply andb_true_iff in Hwf. destruct Hwf as [Hc Hr].
    cbn [map run_lines]. unfold cmd_kind_line at 1. cbn [step].
    rewrite (cmd_action top c Hc (Hargs c Hc)). cbn [step_cmd bind r_logical r_block r_ifblock r_chain r_out].
    rewrite (IH _ Hr). unfold denote_body. cbn [map]. now rewrite <- app_assoc.
Qed.

Lemma nonnil_map {A B} (f : A -> B) l : is_nil l = false -> is_nil (map f l) = false.
Proof. destruct l; auto. Qed.

Lemma nonnil_body (l : list cmd) : is_nil l = false -> is_nil (denote_body top l) = false.
Proof. destruct l; auto. Qed.

Lemma is_nil_app_cons {A} (l : list A) x r : is_nil (l ++ x :: r) = false.
Proof. destruct l; reflexivity. Qed.

(* the else-if branches: the branch whose block is open, and the chain so far *)
Fixpoint elif_state (b : branch) (ch : lbb) (elifs : list branch) : branch * lbb :=
  match elifs with
  | [] => (b, ch)
  | b' :: r => elif_state b' (ch ++ branch_elems top b) r
  end.

Lemma elif_state_chain b ch elifs :
  snd (elif_state b ch elifs) ++ branch_elems top (fst (elif_state b ch elifs))
  = ch ++ flat_map (branch_elems top) (b :: elifs).
Proof.
  revert b ch. induction elifs as [|b' r IH]; intros b ch.
  - cbn. reflexivity.
  - cbn [elif_state]. rewrite IH. cbn [flat_map]. now rewrite <- app_assoc.
Qed.

Lemma elif_state_nonempty b ch elifs :
  is_nil (b_body b) = false ->
  forallb (fun b => negb (is_nil (b_body b))) elifs = true ->
  is_nil (b_body (fst (elif_state b ch elifs))) = false.
Proof.
  revert b ch. induction elifs as [|b' r IH]; intros b ch Hb Hall; [exact Hb|].
  cbn [forallb] in Hall. apply andb_true_iff in Hall. destruct Hall as [H1 H2].
  apply negb_true_iff in H1. cbn [elif_state]. now apply IH.
Qed.

Definition elif_kinds (elifs : list branch) : list linekind :=
  flat_map (fun b => LElseIf (print_cond (b_cond b)) :: map cmd_kind_line (b_body b)) elifs.

Lemma run_elifs elifs b ch out :
  is_nil (b_body b) = false ->
  forallb wf_branch elifs = true ->
  forallb (fun b => negb (is_nil (b_body b))) elifs = true ->
  run_lines true top (elif_kinds elifs)
    (mkR (print_cond (b_cond b)) (denote_body top (b_body b)) [] ch out)
  = Ok (mkR (print_cond (b_cond (fst (elif_state b ch elifs))))
            (denote_body top (b_body (fst (elif_state b ch elifs)))) []
            (snd (elif_state b ch elifs)) out).
Proof.
  revert b ch. induction elifs as [|b' r IH]; intros b ch Hb Hwf Hne; [reflexivity|].
  cbn [forallb] in Hwf, Hne.
  apply andb_true_iff in Hwf. destruct Hwf as [Hw1 Hw2].
  apply andb_true_iff in Hne. destruct Hne as [Hn1 Hn2]. apply negb_true_iff in Hn1.
  unfold elif_kinds. cbn [flat_map]. fold (elif_kinds r).
  cbn [app run_lines step]. unfold step_brace.
  cbn [r_block r_logical r_ifblock r_chain r_out].
  rewrite (nonnil_body _ Hb). cbn [bind].
  rewrite run_lines_app.
  unfold wf_branch in Hw1. rewrite !andb_true_iff in Hw1. destruct Hw1 as [[_ Hcm] _].
  rewrite (run_cmds _ _ _ _ _ _ Hcm). cbn [bind app].
  rewrite (IH b' _ Hn1 Hw2 Hn2). reflexivity.
Qed.

Lemma is_nil_flushU_out (U : list action) (O : list lbb) :
  (if is_nil U then O else O ++ [[LLog s_true; LBlk U; LBlk []]]) = O ++ flushU U.
Proof. destruct U; cbn; [now rewrite app_nil_r|reflexivity]. Qed.

(* one whole chain, started between two items *)
Lemma run_chain b0 elifs els cl U O :
  wf_item (IChain b0 elifs els cl) = true ->
  no_empty_branch_item (IChain b0 elifs els cl) = true ->
  run_lines true top (item_kinds (IChain b0 elifs els cl)) (mkR s_true U [] [] O)
  = Ok (mkR s_true [] [] [] (O ++ flushU U ++ [chain_lbb top (b0 :: elifs) els])).
Proof.
  cbn [wf_item no_empty_branch_item forallb]. rewrite !andb_true_iff.
  intros [[[Hb0 Hel] Hels] _] [[Hn0 Hnel] Hnels]. apply negb_true_iff in Hn0.
  cbn [item_kinds]. fold (elif_kinds elifs).
  (* the if line *)
  cbn [run_lines step]. cbn [bind].
  assert (E1 : step_brace (LIf (print_cond (b_cond b0))) (mkR s_true U [] [] O)
               = mkR (print_cond (b_cond b0)) [] [] [] (O ++ flushU U)).
  { unfold step_brace. cbn [r_block r_logical r_ifblock r_chain r_out is_nil app].
    destruct U; cbn; [now rewrite app_nil_r|reflexivity]. }
  rewrite E1. clear E1.
  rewrite !run_lines_app.
  unfold wf_branch in Hb0. rewrite !andb_true_iff in Hb0. destruct Hb0 as [[_ Hcm0] _].
  rewrite (run_cmds _ _ _ _ _ _ Hcm0). cbn [bind app].
  rewrite run_lines_app, (run_elifs elifs b0 [] _ Hn0 Hel Hnel). cbn [bind].
  pose proof (elif_state_chain b0 [] elifs) as Hch.
  pose proof (elif_state_nonempty b0 [] elifs Hn0 Hnel) as Hlast.
  destruct (elif_state b0 [] elifs) as [bl ch]. cbn [fst snd] in *.
  assert (Hnb : is_nil (denote_body top (b_body bl)) = false) by (apply nonnil_body; exact Hlast).
  unfold chain_lbb. cbn [app] in Hch. rewrite <- Hch. clear Hch.
  destruct els as [[eb el]|].
  - apply andb_true_iff in Hels. destruct Hels as [Hecm _]. apply negb_true_iff in Hnels.
    cbn [app run_lines step]. unfold step_brace at 1.
    cbn [r_block r_logical r_ifblock r_chain r_out]. rewrite Hnb. cbn [bind].
    rewrite run_lines_app, (run_cmds _ _ _ _ _ _ Hecm). cbn [bind app run_lines step].
    unfold step_brace. cbn [r_block r_logical r_ifblock r_chain r_out].
    rewrite (nonnil_body _ Hnels), Hnb. cbn [r_block r_logical r_ifblock r_chain r_out].
    rewrite is_nil_app_cons. unfold branch_elems. rewrite <- !app_assoc. reflexivity.
  - cbn [app run_lines step]. unfold step_brace.
    cbn [r_block r_logical r_ifblock r_chain r_out is_nil]. rewrite Hnb.
    cbn [r_block r_logical r_ifblock r_chain r_out is_nil].
    rewrite is_nil_app_cons. unfold branch_elems. cbn [bind]. rewrite <- !app_assoc. reflexivity.
Qed.

(* the whole file *)
Lemma run_items is U O :
  wf_items is = true -> no_empty_branch is = true ->
  bind (run_lines true top (items_kinds is) (mkR s_true U [] [] O)) (fun st => Ok (finish st))
  = Ok (O ++ compile top U is).
Proof.
  revert U O. induction is as [|i r IH]; intros U O Hwf Hne.
  - cbn. destruct U; reflexivity.
  - cbn [wf_items no_empty_branch forallb] in Hwf, Hne.
    apply andb_true_iff in Hwf. destruct Hwf as [Hw1 Hw2].
    apply andb_true_iff in Hne. destruct Hne as [Hn1 Hn2].
    unfold items_kinds. cbn [flat_map]. fold (items_kinds r). rewrite run_lines_app.
    destruct i as [c|b0 elifs els cl].
    + cbn [item_kinds run_lines]. unfold cmd_kind_line. cbn [step].
      cbn [wf_item] in Hw1. rewrite (cmd_action top c Hw1 (Hargs c Hw1)).
      cbn [step_cmd bind r_logical r_block r_ifblock r_chain r_out].
      rewrite (IH _ _ Hw2 Hn2). reflexivity.
    + rewrite (run_chain b0 elifs els cl U O Hw1 Hn1). cbn [bind].
      rewrite (IH _ _ Hw2 Hn2). cbn [compile]. rewrite <- !app_assoc. reflexivity.
Qed.

Lemma read_blocks_items is :
  wf_items is = true -> no_empty_branch is = true ->
  read_blocks true top (items_kinds is) = Ok (compile top [] is).
Proof. intros Hwf Hne. unfold read_blocks, r_init. apply (run_items is [] [] Hwf Hne). Qed.

End LevelB.

(* ---------------------------------------------------------------- the reader with the repair of D6 *)

(* the same statements for the repaired state machine, without any hypothesis on the bodies
   of the branches: a branch is closed by the brace line that follows it whether or not it
   has a command *)
Section LevelBR.
Variable top : str.
Hypothesis Hargs : forall c, wf_cmd c = true ->
  split_args true (print_args (cl_args (c_lay c)) (c_args c)) = c_args c.

Lemma run_lines_r_app ks1 ks2 st :
  run_lines_r true top (ks1 ++ ks2) st = bind (run_lines_r true top ks1 st) (run_lines_r true top ks2).
Proof.
  revert st. induction ks1 as [|k r IH]; intros st; [reflexivity|].
  cbn [app run_lines_r]. destruct (step_r true top k st); cbn [bind]; auto.
Qed.

Lemma run_cmds_r body lg blk inb ifb ch out :
  forallb wf_cmd body = true ->
  run_lines_r true top (map cmd_kind_line body) (mkQ lg blk inb ifb ch out)
  = Ok (mkQ lg (blk ++ denote_body top body) inb ifb ch out).
Proof.
  revert blk. induction body as [|c r IH]; intros blk Hwf.
  - cbn. now rewrite app_nil_r.
  - cbn [forallb] in Hwf. apply andb_true_iff in Hwf. destruct Hwf as [Hc Hr].
    cbn [map run_lines_r]. unfold cmd_kind_line at 1. cbn [step_r].
    rewrite (cmd_action top c Hc (Hargs c Hc)).
    cbn [step_cmd_r bind q_logical q_block q_inbranch q_ifblock q_chain q_out].
    rewrite (IH _ Hr). unfold denote_body. cbn [map]. now rewrite <- app_assoc.
Qed.

(* inside a branch the test  block or inBranch  holds whatever the block *)
Lemma in_branch_open (blk : list action) : is_nil blk && negb true = false.
Proof. apply andb_false_r. Qed.

Lemma run_elifs_r elifs b ch out :
  forallb wf_branch elifs = true ->
  run_lines_r true top (elif_kinds elifs)
    (mkQ (print_cond (b_cond b)) (denote_body top (b_body b)) true None ch out)
  = Ok (mkQ (print_cond (b_cond (fst (elif_state top b ch elifs))))
            (denote_body top (b_body (fst (elif_state top b ch elifs)))) true None
            (snd (elif_state top b ch elifs)) out).
Proof.
  revert b ch. induction elifs as [|b' r IH]; intros b ch Hwf; [reflexivity|].
  cbn [forallb] in Hwf. apply andb_true_iff in Hwf. destruct Hwf as [Hw1 Hw2].
  unfold elif_kinds. cbn [flat_map]. fold (elif_kinds r).
  cbn [app run_lines_r step_r]. unfold step_brace_r.
  cbn [q_block q_logical q_inbranch q_ifblock q_chain q_out].
  rewrite in_branch_open. cbn [bind q_block q_logical q_inbranch q_ifblock q_chain q_out].
  rewrite run_lines_r_app.
  unfold wf_branch in Hw1. rewrite !andb_true_iff in Hw1. destruct Hw1 as [[_ Hcm] _].
  rewrite (run_cmds_r _ _ _ _ _ _ _ Hcm). cbn [bind app].
  rewrite (IH b' _ Hw2). reflexivity.
Qed.

(* one whole chain, started between two items; its branches may be empty *)
Lemma run_chain_r b0 elifs els cl U O :
  wf_item (IChain b0 elifs els cl) = true ->
  run_lines_r true top (item_kinds (IChain b0 elifs els cl)) (mkQ s_true U false None [] O)
  = Ok (mkQ s_true [] false None [] (O ++ flushU U ++ [chain_lbb top (b0 :: elifs) els])).
Proof.
  cbn [wf_item]. rewrite !andb_true_iff. intros [[[Hb0 Hel] Hels] _].
  cbn [item_kinds]. fold (elif_kinds elifs).
  (* the if line *)
  cbn [run_lines_r step_r]. cbn [bind].
  assert (E1 : step_brace_r (LIf (print_cond (b_cond b0))) (mkQ s_true U false None [] O)
               = mkQ (print_cond (b_cond b0)) [] true None [] (O ++ flushU U)).
  { unfold step_brace_r. cbn [q_block q_logical q_inbranch q_ifblock q_chain q_out negb app].
    destruct U; cbn; [now rewrite app_nil_r|reflexivity]. }
  rewrite E1. clear E1.
  rewrite !run_lines_r_app.
  unfold wf_branch in Hb0. rewrite !andb_true_iff in Hb0. destruct Hb0 as [[_ Hcm0] _].
  rewrite (run_cmds_r _ _ _ _ _ _ _ Hcm0). cbn [bind app].
  rewrite run_lines_r_app, (run_elifs_r elifs b0 [] _ Hel). cbn [bind].
  pose proof (elif_state_chain top b0 [] elifs) as Hch.
  destruct (elif_state top b0 [] elifs) as [bl ch]. cbn [fst snd] in *.
  unfold chain_lbb. cbn [app] in Hch. rewrite <- Hch. clear Hch.
  destruct els as [[eb el]|].
  - apply andb_true_iff in Hels. destruct Hels as [Hecm _].
    cbn [app run_lines_r step_r]. unfold step_brace_r at 1.
    cbn [q_block q_logical q_inbranch q_ifblock q_chain q_out]. rewrite in_branch_open.
    cbn [bind q_block q_logical q_inbranch q_ifblock q_chain q_out].
    rewrite run_lines_r_app, (run_cmds_r _ _ _ _ _ _ _ Hecm). cbn [bind app run_lines_r step_r].
    unfold step_brace_r. cbn [q_block q_logical q_inbranch q_ifblock q_chain q_out].
    rewrite in_branch_open. cbn [q_block q_logical q_inbranch q_ifblock q_chain q_out].
    rewrite is_nil_app_cons. unfold branch_elems. rewrite <- !app_assoc. reflexivity.
  - cbn [app run_lines_r step_r]. unfold step_brace_r.
    cbn [q_block q_logical q_inbranch q_ifblock q_chain q_out]. rewrite in_branch_open.
    cbn [q_block q_logical q_inbranch q_ifblock q_chain q_out].
    rewrite is_nil_app_cons. unfold branch_elems. cbn [bind]. rewrite <- !app_assoc. reflexivity.
Qed.

(* the whole file *)
Lemma run_items_r is U O :
  wf_items is = true ->
  bind (run_lines_r true top (items_kinds is) (mkQ s_true U false None [] O)) (fun st => Ok (finish_r st))
  = Ok (O ++ compile top U is).
Proof.
  revert U O. induction is as [|i r IH]; intros U O Hwf.
  - cbn. destruct U; reflexivity.
  - cbn [wf_items forallb] in Hwf. apply andb_true_iff in Hwf. destruct Hwf as [Hw1 Hw2].
    unfold items_kinds. cbn [flat_map]. fold (items_kinds r). rewrite run_lines_r_app.
    destruct i as [c|b0 elifs els cl].
    + cbn [item_kinds run_lines_r]. unfold cmd_kind_line. cbn [step_r].
      cbn [wf_item] in Hw1. rewrite (cmd_action top c Hw1 (Hargs c Hw1)).
      cbn [step_cmd_r bind q_logical q_block q_inbranch q_ifblock q_chain q_out].
      rewrite (IH _ _ Hw2). reflexivity.
    + rewrite (run_chain_r b0 elifs els cl U O Hw1). cbn [bind].
      rewrite (IH _ _ Hw2). cbn [compile]. rewrite <- !app_assoc. reflexivity.
Qed.

Lemma read_blocks_r_items is :
  wf_items is = true -> read_blocks_r true top (items_kinds is) = Ok (compile top [] is).
Proof. intros Hwf. unfold read_blocks_r, q_init. apply (run_items_r is [] [] Hwf). Qed.

End LevelBR.

(* ---------------------------------------------------------------- the repair changes nothing else *)

(* along the run of the repaired reader no brace line finds inBranch set and block empty:
   no branch of the text, as it is read, is without a command *)
Fixpoint no_empty_open (fx : bool) (top : str) (ks : list linekind) (q : rstate_r) : bool :=
  match ks with
  | [] => true
  | k :: r =>
      (match k with
       | LCmd _ _ | LOther _ => true
       | _ => negb (q_inbranch q && is_nil (q_block q))
       end)
      && match step_r fx top k q with Ok q' => no_empty_open fx top r q' | Err _ => true end
  end.

Definition ifb_of (o : option (list action)) : list action := match o with Some b => b | None => [] end.

(* the two machines in step: the same variables, ifBlock None for the empty list *)
Definition sim (st : rstate) (q : rstate_r) : Prop :=
  r_logical st = q_logical q /\ r_block st = q_block q /\ r_ifblock st = ifb_of (q_ifblock q) /\
  r_chain st = q_chain q /\ r_out st = q_out q /\ q_ifblock q <> Some [].

Lemma sim_step_brace k st q :
  sim st q -> q_inbranch q && is_nil (q_block q) = false ->
  match k with LCmd _ _ | LOther _ => False | _ => True end ->
  sim (step_brace k st) (step_brace_r k q).
Proof.
  destruct st as [lg blk ifb ch out]. destruct q as [lg' blk' inb o ch' out'].
  unfold sim. cbn [r_logical r_block r_ifblock r_chain r_out q_logical q_block q_inbranch q_ifblock q_chain q_out].
  intros (-> & -> & -> & -> & -> & Hn) Hg Hk.
  destruct blk' as [|a blk'].
  - (* nothing to close: then inBranch is not set *)
    cbn [is_nil] in Hg. rewrite andb_true_r in Hg. subst inb.
    unfold step_brace, step_brace_r.
    cbn [r_logical r_block r_ifblock r_chain r_out q_logical q_block q_inbranch q_ifblock q_chain q_out is_nil negb andb].
    destruct k as [c|c|x| |n a0|l]; try contradiction;
      cbn [r_logical r_block r_ifblock r_chain r_out q_logical q_block q_inbranch q_ifblock q_chain q_out];
      try (repeat split; auto; fail).
    destruct (is_nil ch');
      cbn [r_logical r_block r_ifblock r_chain r_out q_logical q_block q_inbranch q_ifblock q_chain q_out ifb_of];
      repeat split; auto; discriminate.
  - unfold step_brace, step_brace_r.
    cbn [r_logical r_block r_ifblock r_chain r_out q_logical q_block q_inbranch q_ifblock q_chain q_out is_nil andb].
    assert (Hif : is_nil (ifb_of o) = match o with Some _ => false | None => true end).
    { destruct o as [[|b0 b]|]; cbn; auto. now elim Hn. }
    destruct k as [c|c|[|]| |n a0|l]; try contradiction;
      cbn [r_logical r_block r_ifblock r_chain r_out q_logical q_block q_inbranch q_ifblock q_chain q_out];
      rewrite ?Hif;
      try (destruct o as [b|];
           cbn [r_logical r_block r_ifblock r_chain r_out q_logical q_block q_inbranch q_ifblock q_chain q_out ifb_of is_nil];
           rewrite ?is_nil_app_cons;
           cbn [r_logical r_block r_ifblock r_chain r_out q_logical q_block q_inbranch q_ifblock q_chain q_out ifb_of];
           repeat split; auto; try discriminate; try (intros E; injection E as E; subst; now elim Hn); fail).
Qed.

Lemma sim_step_cmd r st q : sim st q ->
  match step_cmd r st, step_cmd_r r q with
  | Ok st', Ok q' => sim st' q' /\ q_inbranch q' = q_inbranch q
  | Err a, Err b => a = b
  | _, _ => False
  end.
Proof.
  destruct st as [lg blk ifb ch out]. destruct q as [lg' blk' inb o ch' out'].
  unfold sim. cbn [r_logical r_block r_ifblock r_chain r_out q_logical q_block q_inbranch q_ifblock q_chain q_out].
  intros (-> & -> & -> & -> & -> & Hn).
  destruct r; cbn; repeat split; auto.
Qed.

Lemma sim_finish st q : sim st q -> finish st = finish_r q.
Proof.
  destruct st as [lg blk ifb ch out]. destruct q as [lg' blk' inb o ch' out'].
  unfold sim, finish, finish_r. cbn [r_logical r_block r_ifblock r_chain r_out q_logical q_block q_inbranch q_ifblock q_chain q_out].
  intros (-> & -> & -> & -> & -> & _). reflexivity.
Qed.

Lemma sim_run fx top ks st q :
  sim st q -> no_empty_open fx top ks q = true ->
  bind (run_lines_r fx top ks q) (fun q' => Ok (finish_r q'))
  = bind (run_lines fx top ks st) (fun st' => Ok (finish st')).
Proof.
  revert st q. induction ks as [|k r IH]; intros st q Hs Hg.
  - cbn. now rewrite (sim_finish st q Hs).
  - cbn [no_empty_open] in Hg. apply andb_true_iff in Hg. destruct Hg as [G1 G2].
    cbn [run_lines run_lines_r].
    destruct k as [c|c|x| |n a0|l].
    1-4: (cbn [step step_r bind] in *; apply negb_true_iff in G1;
          apply IH; [apply sim_step_brace; auto; exact I|exact G2]).
    + cbn [step step_r] in *. pose proof (sim_step_cmd (mk_action fx top n a0) st q Hs) as H.
      destruct (step_cmd (mk_action fx top n a0) st) as [st'|e1], (step_cmd_r (mk_action fx top n a0) q) as [q'|e2];
        cbn [bind]; try contradiction; [|now subst]. destruct H as [H _]. now apply IH.
    + cbn [step step_r] in *. pose proof (sim_step_cmd (mk_action_other top l) st q Hs) as H.
      destruct (step_cmd (mk_action_other top l) st) as [st'|e1], (step_cmd_r (mk_action_other top l) q) as [q'|e2];
        cbn [bind]; try contradiction; [|now subst]. destruct H as [H _]. now apply IH.
Qed.

(* on classified lines of any kind (stray braces included): where no branch is empty the
   repaired reader builds what the reader before the repair builds *)
Lemma repair_conservative_lines fx top ks :
  no_empty_open fx top ks q_init = true -> read_blocks_r fx top ks = read_blocks fx top ks.
Proof.
  intros H. unfold read_blocks_r, read_blocks. apply sim_run; [|exact H].
  unfold sim, r_init, q_init. cbn. repeat split; auto. discriminate.
Qed.

(* ---------------------------------------------------------------- Table.actions *)

Section Select.
Variable top : str.
Variable e : cenv.
Hypothesis Hcond : forall c, wf_cond c = true -> eval_cond true e (print_cond c) = Ok (denote e c).

Lemma eval_true : eval_cond true e s_true = Ok true.
Proof. vm_compute. reflexivity. Qed.

Lemma sel_chain_branches b bs els :
  forallb wf_branch (b :: bs) = true ->
  sel_chain true e (chain_lbb top (b :: bs) els) = Ok (pick_branch e top (b :: bs) els).
Proof.
  revert b. induction bs as [|b' r IH]; intros b Hwf.
  - cbn [forallb] in Hwf. rewrite andb_true_r in Hwf.
    unfold wf_branch in Hwf. rewrite !andb_true_iff in Hwf. destruct Hwf as [[Hc _] _].
    unfold chain_lbb. cbn [flat_map branch_elems app sel_chain].
    rewrite (Hcond _ Hc). cbn [bind pick_branch].
    destruct (denote e (b_cond b)); [reflexivity|]. destruct els as [[eb el]|]; reflexivity.
  - cbn [forallb] in Hwf. apply andb_true_iff in Hwf. destruct Hwf as [Hb Hr].
    unfold wf_branch in Hb. rewrite !andb_true_iff in Hb. destruct Hb as [[Hc _] _].
    specialize (IH b' Hr).
    unfold chain_lbb in *. cbn [flat_map] in *. unfold branch_elems at 1. cbn [app sel_chain].
    rewrite (Hcond _ Hc). cbn [bind]. cbn [pick_branch].
    destruct (denote e (b_cond b)); [reflexivity|].
    unfold branch_elems at 1. cbn [app]. unfold branch_elems at 1 in IH. cbn [app] in IH.
    exact IH.
Qed.

Lemma select_app a b :
  select true e (a ++ b)
  = bind (select true e a) (fun x => bind (select true e b) (fun y => Ok (x ++ y))).
Proof.
  induction a as [|l r IH]; cbn [app select].
  - cbn [bind]. destruct (select true e b); reflexivity.
  - destruct (sel_chain true e l); cbn [bind]; [|reflexivity]. rewrite IH.
    destruct (select true e r); cbn [bind]; [|reflexivity].
    destruct (select true e b); cbn [bind]; [|reflexivity]. now rewrite app_assoc.
Qed.

Lemma select_flushU U : select true e (flushU U) = Ok U.
Proof.
  destruct U as [|a r]; [reflexivity|]. cbn [flushU select sel_chain].
  rewrite eval_true. cbn [bind]. now rewrite app_nil_r.
Qed.

Lemma select_compile is U :
  wf_items is = true ->
  select true e (compile top U is) = Ok (U ++ denote_items e top is).
Proof.
  revert U. induction is as [|i r IH]; intros U Hwf.
  - cbn [compile denote_items flat_map]. rewrite app_nil_r. apply select_flushU.
  - cbn [wf_items forallb] in Hwf. apply andb_true_iff in Hwf. destruct Hwf as [Hi Hr].
    destruct i as [c|b0 elifs els cl]; cbn [compile].
    + rewrite (IH _ Hr). unfold denote_items. cbn [flat_map denote_item app]. now rewrite <- app_assoc.
    + rewrite select_app, select_flushU. cbn [bind select].
      cbn [wf_item] in Hi. rewrite !andb_true_iff in Hi. destruct Hi as [[[Hb0 Hel] _] _].
      rewrite sel_chain_branches by (cbn [forallb]; now rewrite Hb0, Hel).
      cbn [bind]. rewrite (IH _ Hr). cbn [bind app].
      unfold denote_items. cbn [flat_map denote_item]. reflexivity.
Qed.

End Select.
