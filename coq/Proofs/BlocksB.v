(* C11 - level B: the block state machine of Table._read run on the classified lines of a
   well-formed items list builds the chains one expects, and Table.actions picks from each
   chain the branch the truth tables designate.  The two facts about text that this level
   needs (arguments split back, conditions tokenise back) are section hypotheses here; they
   are discharged in Proofs/ArgsRT.v and Proofs/CondTok.v. *)
From Coq Require Import Lia.
From Eupsv Require Import Base.Base Base.BaseLemmas Model.Rx Model.Cond Model.Args Model.Legacy
  Model.Blocks Model.TableSpec Proofs.CondEval.

(* ---------------------------------------------------------------- commands *)

Lemma str_eqb_length a b : str_eqb a b = true -> length a = length b.
Proof. intros H. apply str_eqb_eq in H. now subst. Qed.

Lemma del_f_id args : mem_str (lit "-f") args = false -> del_f args = args.
Proof.
  induction args as [|a r IH]; [reflexivity|]. cbn [mem_str del_f].
  rewrite str_eqb_sym. destruct (str_eqb a (lit "-f")); [discriminate|].
  intros H. now rewrite IH.
Qed.

Lemma dir_env_not_f top : str_eqb (dir_env_name top) (lit "-f") = false.
Proof.
  destruct (str_eqb (dir_env_name top) (lit "-f")) eqn:E; [|reflexivity].
  apply str_eqb_length in E. unfold dir_env_name in E. rewrite app_length in E. cbn in E. lia.
Qed.

Lemma normalise_kind k spell :
  str_eqb (lower_str spell) (lower_str (kind_name k)) = true ->
  normalise_cmd spell =
  Some (match k with
        | KEnvPrepend | KPathPrepend => k_envPrepend
        | KEnvAppend | KPathAppend => k_envAppend
        | KEnvSet | KSetenv | KPathSet => k_envSet
        | KSetupRequired => k_setupRequired | KSetupOptional => k_setupOptional
        | KUnsetupRequired => k_unsetupRequired | KUnsetupOptional => k_unsetupOptional
        | KAddAlias => k_addAlias | KDeclareOptions => k_declareOptions
        | KPrint => k_print | KProdDir => k_prodDir | KSetupEnv => k_setupEnv
        | KEnvUnset => k_envUnset
        end).
Proof.
  intros H. apply str_eqb_eq in H. unfold normalise_cmd. rewrite H. destruct k; reflexivity.
Qed.

(* a well-formed command line becomes exactly the action the documentation describes,
   provided its argument text splits back into its arguments *)
Lemma cmd_action top c :
  wf_cmd c = true ->
  split_args (print_args (cl_args (c_lay c)) (c_args c)) = c_args c ->
  mk_action top (cl_spell (c_lay c)) (print_args (cl_args (c_lay c)) (c_args c))
  = CAdd (denote_cmd top c).
Proof.
  unfold wf_cmd. rewrite !andb_true_iff, !negb_true_iff.
  intros [[[[[[[[[[[[[Hsp Har] _] Hf] _] _] _] _] _] _] _] _] _] _] Hsplit.
  unfold mk_action. rewrite (normalise_kind _ _ Hsp), Hsplit.
  unfold denote_cmd. destruct c as [k args lay]. cbn [c_kind c_args] in *.
  destruct k; cbn [kind_sem arity_ok] in *; unfold process_cmd, add;
    try (cbn; rewrite (del_f_id _ Hf); reflexivity).
  (* envPrepend family: arity 2 or 3 *)
  1-4: (apply andb_true_iff in Har; destruct Har as [A1 A2];
        apply Nat.leb_le in A1; apply Nat.leb_le in A2;
        cbn [str_eqb k_envAppend k_envPrepend k_prodDir k_setupEnv k_addAlias k_declareOptions
             k_unsetupOptional k_unsetupRequired k_setupOptional k_setupRequired lit
             String.list_ascii_of_string ascii_eqb Ascii.eqb Bool.eqb orb andb negb];
        replace (length args <? 2) with false by (symmetry; apply Nat.ltb_ge; lia);
        replace (3 <? length args) with false by (symmetry; apply Nat.ltb_ge; lia);
        cbn [orb]; rewrite (del_f_id _ Hf); reflexivity).
  (* envSet family: exactly two arguments *)
  1-3: (apply Nat.eqb_eq in Har; destruct args as [|a0 [|a1 [|a2 r]]]; try discriminate Har;
        cbn; cbn in Hf; rewrite (del_f_id [a0; a1]) by exact Hf; reflexivity).
  (* envUnset(PRODUCT_DIR) *)
  destruct args as [|a0 [|a1 r]]; try discriminate Har.
  apply str_eqb_eq in Har. subst a0.
  cbn [str_eqb k_envUnset k_prodDir k_setupEnv k_addAlias k_declareOptions k_envAppend k_envPrepend k_envSet
       k_unsetupOptional k_unsetupRequired k_setupOptional k_setupRequired lit
       String.list_ascii_of_string ascii_eqb Ascii.eqb Bool.eqb orb andb negb].
  rewrite str_eqb_refl. cbn [del_f]. rewrite dir_env_not_f. reflexivity.
Qed.

(* ---------------------------------------------------------------- the expected chains *)

Definition branch_elems (top : str) (b : branch) : lbb :=
  [LLog (print_cond (b_cond b)); LBlk (denote_body top (b_body b))].

Definition chain_lbb (top : str) (bs : list branch) (els : option (list cmd * bracelay)) : lbb :=
  flat_map (branch_elems top) bs
  ++ [LBlk (match els with Some (b, _) => denote_body top b | None => [] end)].

Definition flushU (U : list action) : list lbb :=
  match U with [] => [] | _ => [[LLog s_true; LBlk U; LBlk []]] end.

Fixpoint compile (top : str) (U : list action) (is : list item) : list lbb :=
  match is with
  | [] => flushU U
  | ICmd c :: r => compile top (U ++ [denote_cmd top c]) r
  | IChain b0 elifs els _ :: r => flushU U ++ chain_lbb top (b0 :: elifs) els :: compile top [] r
  end.

Section LevelB.
Variable top : str.
Hypothesis Hargs : forall c, wf_cmd c = true ->
  split_args (print_args (cl_args (c_lay c)) (c_args c)) = c_args c.

Lemma run_lines_app ks1 ks2 st :
  run_lines top (ks1 ++ ks2) st = bind (run_lines top ks1 st) (run_lines top ks2).
Proof.
  revert st. induction ks1 as [|k r IH]; intros st; [reflexivity|].
  cbn [app run_lines]. destruct (step top k st); cbn [bind]; auto.
Qed.

Lemma run_cmds body lg blk ifb ch out :
  forallb wf_cmd body = true ->
  run_lines top (map cmd_kind_line body) (mkR lg blk ifb ch out)
  = Ok (mkR lg (blk ++ denote_body top body) ifb ch out).
Proof.
  revert blk. induction body as [|c r IH]; intros blk Hwf.
  - cbn. now rewrite app_nil_r.
  - cbn [forallb] in Hwf. apply andb_true_iff in Hwf. destruct Hwf as [Hc Hr].
    cbn [map run_lines]. unfold cmd_kind_line at 1. cbn [step].
    rewrite (cmd_action top c Hc (Hargs c Hc)). cbn [step_cmd bind r_logical r_block r_ifblock r_chain r_out].
    rewrite (IH _ Hr). unfold denote_body. cbn [map]. now rewrite <- app_assoc.
Qed.

Lemma nonnil_map {A B} (f : A -> B) l : is_nil l = false -> is_nil (map f l) = false.
Proof. destruct l; auto. Qed.

Lemma is_nil_app_cons {A} (l : list A) x r : is_nil (l ++ x :: r) = false.
Proof. destruct l; reflexivity. Qed.

(* the else-if branches *)
Lemma run_elifs elifs lg blk ch out :
  is_nil blk = false ->
  forallb wf_branch elifs = true ->
  forallb (fun b => negb (is_nil (b_body b))) elifs = true ->
  exists lg' blk',
    run_lines top
      (flat_map (fun b => LElseIf (print_cond (b_cond b)) :: map cmd_kind_line (b_body b)) elifs)
      (mkR lg blk [] ch out)
    = Ok (mkR lg' blk' [] (removelast (ch ++ [LLog lg; LBlk blk] ++ flat_map (branch_elems top) elifs)
                              |> fun l => removelast l) out)
    /\ is_nil blk' = false
    /\ ch ++ [LLog lg; LBlk blk] ++ flat_map (branch_elems top) elifs
       = removelast (removelast (ch ++ [LLog lg; LBlk blk] ++ flat_map (branch_elems top) elifs))
         ++ [LLog lg'; LBlk blk'].
Proof.
Abort.

End LevelB.
