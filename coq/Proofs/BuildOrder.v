(* The manifest of Distrib.createDependencies is a safe build order; the command-line listing. *)
From Coq Require Import Lia List Sorted Permutation.
From Eupsv Require Import Base.Base Base.BaseLemmas Model.Graph Model.BuildOrder
     Proofs.GraphLib Proofs.GraphWalk Proofs.GraphListing Proofs.GraphOrder Proofs.GraphBuild Proofs.GraphTotal
     Proofs.BuildOrderLib.
Import ListNotations.

Definition keep (w : world) (q : node) : bool :=
  match relookup w q with Some _ => true | None => false end.

(* ------------------------------------------------------------ the second look-up of a listed product *)

Lemma relookup_target w p z :
  wf_world w -> step w p z ->
  (nreal z = true /\ relookup w z = Some z) \/ (nreal z = false /\ relookup w z = None).
Proof.
  intros Hwf [es [e [T [I ->]]]].
  destruct (node_table_inv w p es T) as [n [v [-> Tv]]].
  destruct (Hwf n v es e Tv I) as [H1 H2].
  unfold own_target. destruct (eres e) as [r|] eqn:Er.
  - left. split; [reflexivity|]. unfold relookup. cbn [nver nname fst snd].
    rewrite (H1 r eq_refl). reflexivity.
  - right. split; [reflexivity|]. unfold relookup. cbn [nver nname fst snd].
    destruct (evers e) as [v'|] eqn:Ev; [|reflexivity]. rewrite (H2 v' eq_refl eq_refl). reflexivity.
Qed.

Lemma relookup_listed w top z :
  wf_world w -> reach_plus w top z ->
  (nreal z = true /\ relookup w z = Some z) \/ (nreal z = false /\ relookup w z = None).
Proof.
  intros Hwf R. destruct (reach_plus_last w top z R) as [k [_ S]]. eapply relookup_target; eauto.
Qed.

(* ------------------------------------------------------------ the loop *)

Lemma manifest_loop_filter w : forall l m,
  (forall z, In z l -> relookup w (enode z) = Some (enode z) \/ relookup w (enode z) = None) ->
  manifest_loop w l = Ok m -> manifest_nodes m = filter (keep w) (map enode l).
Proof.
  unfold manifest_nodes. induction l as [|x l IH]; intros m H; cbn [manifest_loop map filter].
  - intros Q. inversion Q. reflexivity.
  - unfold keep at 1. destruct (H x (or_introl eq_refl)) as [E | E]; rewrite E.
    + destruct (manifest_loop w l) as [m'|] eqn:E'; [|discriminate]. intros Q. inversion Q. subst m.
      cbn [map fst]. f_equal. apply IH; [|reflexivity]. intros z Iz. apply H. right. exact Iz.
    + destruct (eoptional x); [|discriminate]. intros Q. apply IH; [|exact Q]. intros z Iz. apply H. right. exact Iz.
Qed.

Lemma manifest_loop_flags w : forall l m q o,
  (forall z, In z l -> relookup w (enode z) = Some (enode z) \/ relookup w (enode z) = None) ->
  manifest_loop w l = Ok m -> In (q, o) m -> exists x, In x l /\ enode x = q /\ eoptional x = o.
Proof.
  induction l as [|x l IH]; intros m q o H; cbn [manifest_loop].
  - intros Q. inversion Q. intros [].
  - destruct (H x (or_introl eq_refl)) as [E | E]; rewrite E.
    + destruct (manifest_loop w l) as [m'|] eqn:E'; [|discriminate]. intros Q. inversion Q. subst m.
      intros [I | I].
      * inversion I. exists x. split; [left; reflexivity | auto].
      * destruct (IH m' q o) as [y [Iy Hy]]; auto. { intros z Iz. apply H. right. exact Iz. }
        exists y. split; [right; exact Iy | exact Hy].
    + destruct (eoptional x); [|discriminate]. intros Q I.
      destruct (IH m q o) as [y [Iy Hy]]; auto. { intros z Iz. apply H. right. exact Iz. }
      exists y. split; [right; exact Iy | exact Hy].
Qed.

Lemma manifest_loop_ok_iff w : forall l,
  (exists m, manifest_loop w l = Ok m) <->
  (forall x, In x l -> relookup w (enode x) = None -> eoptional x = true).
Proof.
  induction l as [|x l IH]; cbn [manifest_loop].
  - split; [intros _ x [] | intros _; eexists; reflexivity].
  - destruct (relookup w (enode x)) as [q|] eqn:E.
    + split.
      * intros [m Q]. destruct (manifest_loop w l) as [m'|] eqn:E'; [|discriminate].
        intros y [<- | Iy] Ey; [congruence|]. apply (proj1 IH); eauto.
      * intros H. destruct (proj2 IH) as [m' E']. { intros y Iy. apply H. right. exact Iy. }
        rewrite E'. eexists. reflexivity.
    + destruct (eoptional x) eqn:O.
      * split.
        -- intros Q y [<- | Iy] Ey; [exact O|]. apply (proj1 IH); auto.
        -- intros H. apply (proj2 IH). intros y Iy. apply H. right. exact Iy.
      * split; [intros [m Q]; discriminate|]. intros H. specialize (H x (or_introl eq_refl) E). congruence.
Qed.

Lemma manifest_loop_errors w : forall l e, manifest_loop w l = Err e -> e = NotFound.
Proof.
  induction l as [|x l IH]; intros e; cbn [manifest_loop]; [discriminate|].
  destruct (relookup w (enode x)).
  - destruct (manifest_loop w l) as [m'|e']; [discriminate|]. intros Q. inversion Q. subst. apply IH. reflexivity.
  - destruct (eoptional x); [apply IH|]. intros Q. inversion Q. reflexivity.
Qed.

Lemma manifest_nodes_app m1 m2 : manifest_nodes (m1 ++ m2) = manifest_nodes m1 ++ manifest_nodes m2.
Proof. apply map_app. Qed.

(* ------------------------------------------------------------ createDependencies taken apart *)

Lemma create_dependencies_inv fuel w n v m :
  create_dependencies fuel w n v = Ok m ->
  declared w n v = true /\
  exists l mm, dependent_products fuel w (n, Some v, true) true = Ok l /\
               manifest_loop w (by_depth l) = Ok mm /\ m = mm ++ [((n, Some v, true), false)].
Proof.
  unfold create_dependencies. destruct (declared w n v); cbn [negb]; [|discriminate].
  destruct (dependent_products fuel w (n, Some v, true) true) as [l|e] eqn:D; [|destruct e; discriminate].
  destruct (manifest_loop w (by_depth l)) as [mm|e] eqn:M; [|discriminate].
  intros Q. inversion Q. subst. split; [reflexivity|]. exists l, mm. auto.
Qed.

Record manifest_facts (w : world) (top : node) (l : list entry) (mm : list mentry) : Prop := {
  mf_listing : forall q, In q (map enode l) <-> q <> top /\ reach_plus w top q;
  mf_nodup : NoDup (map enode l);
  mf_nodes : manifest_nodes mm = filter (keep w) (map enode (by_depth l));
  mf_keep : forall q, In q (map enode l) -> (keep w q = true <-> nreal q = true);
  mf_stable : forall z, In z (by_depth l) -> relookup w (enode z) = Some (enode z) \/ relookup w (enode z) = None
}.

Lemma manifest_facts_hold fuel w top l mm :
  length w < fuel -> wf_world w ->
  dependent_products fuel w top true = Ok l -> manifest_loop w (by_depth l) = Ok mm ->
  manifest_facts w top l mm.
Proof.
  intros Hf Hwf D M. destruct (listing_topological true node_cmp w top fuel l Hf D) as [HL HN].
  assert (St : forall z, In z (by_depth l) ->
               relookup w (enode z) = Some (enode z) \/ relookup w (enode z) = None).
  { intros z Iz. apply (proj1 (by_depth_In l z)) in Iz. assert (Iq : In (enode z) (map enode l)) by (apply in_map, Iz).
    apply HL in Iq as [_ R]. destruct (relookup_listed w top _ Hwf R) as [[_ E] | [_ E]]; auto. }
  constructor; auto.
  - apply manifest_loop_filter; auto.
  - intros q Iq. apply HL in Iq as [_ R]. unfold keep.
    destruct (relookup_listed w top q Hwf R) as [[A E] | [A E]]; rewrite E, A; split; congruence.
Qed.

Lemma by_depth_nodes l q : In q (map enode (by_depth l)) <-> In q (map enode l).
Proof.
  split; apply Permutation_in, Permutation_map; [apply by_depth_perm | apply Permutation_sym, by_depth_perm].
Qed.

(* ------------------------------------------------------------ the entries are the declared part of the listing *)

Lemma manifest_entries fuel w n v m :
  length w < fuel -> wf_world w ->
  create_dependencies fuel w n v = Ok m ->
  NoDup (manifest_nodes m) /\
  forall q, In q (manifest_nodes m) <->
            q = (n, Some v, true) \/ (q <> (n, Some v, true) /\ reach_plus w (n, Some v, true) q /\ nreal q = true).
Proof.
  intros Hf Hwf C. destruct (create_dependencies_inv _ _ _ _ _ C) as [_ [l [mm [D [M ->]]]]].
  set (top := (n, Some v, true)) in *.
  pose proof (manifest_facts_hold fuel w top l mm Hf Hwf D M) as F.
  rewrite manifest_nodes_app. change (manifest_nodes [(top, false)]) with [top]. rewrite (mf_nodes _ _ _ _ F).
  assert (Hin : forall q, In q (filter (keep w) (map enode (by_depth l))) <->
                          q <> top /\ reach_plus w top q /\ nreal q = true).
  { intros q. rewrite filter_In, by_depth_nodes. split.
    - intros [I K]. pose proof (proj1 (mf_listing _ _ _ _ F q) I) as [A B].
      split; [exact A|]. split; [exact B|]. apply (mf_keep _ _ _ _ F q I), K.
    - intros [A [B K]]. assert (I : In q (map enode l)) by (apply (mf_listing _ _ _ _ F); auto).
      split; [exact I|]. apply (mf_keep _ _ _ _ F q I), K. }
  split.
  - apply nodup_snoc.
    + apply NoDup_filter. eapply Permutation_NoDup; [|exact (mf_nodup _ _ _ _ F)].
      apply Permutation_map, Permutation_sym, by_depth_perm.
    + intros I. apply Hin in I as [A _]. apply A. reflexivity.
  - intros q. rewrite in_app_iff, Hin. cbn [In]. split.
    + intros [H | [H | []]]; [right; exact H | left; symmetry; exact H].
    + intros [H | H]; [right; left; symmetry; exact H | left; exact H].
Qed.

(* the optional flag of an entry is the flag of the listing *)
Lemma manifest_flags fuel w n v m q o :
  length w < fuel -> wf_world w ->
  create_dependencies fuel w n v = Ok m -> In (q, o) m ->
  (q = (n, Some v, true) /\ o = false) \/
  exists l x, dependent_products fuel w (n, Some v, true) true = Ok l /\ In x l /\ enode x = q /\ eoptional x = o.
Proof.
  intros Hf Hwf C I. destruct (create_dependencies_inv _ _ _ _ _ C) as [_ [l [mm [D [M ->]]]]].
  pose proof (manifest_facts_hold fuel w _ l mm Hf Hwf D M) as F.
  apply in_app_iff in I as [I | [I | []]].
  - right. destruct (manifest_loop_flags w _ _ q o (mf_stable _ _ _ _ F) M I) as [x [Ix Hx]].
    exists l, x. split; [exact D|]. split; [apply (proj1 (by_depth_In l x)), Ix | exact Hx].
  - left. inversion I. auto.
Qed.

(* createDependencies answers exactly when the product is declared and every listed product that is not declared
   is optional; otherwise ProductNotFound *)
Lemma manifest_answers fuel w n v :
  length w < fuel -> wf_world w -> declared w n v = true ->
  exists l, dependent_products fuel w (n, Some v, true) true = Ok l /\
    ((exists m, create_dependencies fuel w n v = Ok m) <->
     (forall x, In x l -> nreal (enode x) = false -> eoptional x = true)) /\
    ((exists x, In x l /\ nreal (enode x) = false /\ eoptional x = false) ->
     create_dependencies fuel w n v = Err NotFound).
Proof.
  intros Hf Hwf Dc. destruct (dependent_products_total w (n, Some v, true) fuel Hf) as [l D]. exists l.
  split; [exact D|].
  destruct (listing_topological true node_cmp w _ fuel l Hf D) as [HL _].
  assert (Hk : forall x, In x l -> (relookup w (enode x) = None <-> nreal (enode x) = false)).
  { intros x Ix. assert (Iq : In (enode x) (map enode l)) by (apply in_map, Ix). apply HL in Iq as [_ R].
    destruct (relookup_listed w _ _ Hwf R) as [[A E] | [A E]]; rewrite A, E; split; congruence. }
  assert (Hiff : (exists mm, manifest_loop w (by_depth l) = Ok mm) <->
                 (forall x, In x l -> nreal (enode x) = false -> eoptional x = true)).
  { rewrite manifest_loop_ok_iff. split.
    - intros H x Ix Nx. apply H; [apply (proj2 (by_depth_In l x)), Ix | apply Hk; auto].
    - intros H x Ix Nx. apply (proj1 (by_depth_In l x)) in Ix. apply H; [exact Ix | apply Hk; auto]. }
  unfold create_dependencies. rewrite Dc, D. cbn [negb]. split.
  - rewrite <- Hiff. split.
    + intros [m Q]. destruct (manifest_loop w (by_depth l)) as [mm|]; [eauto | discriminate].
    + intros [mm Q]. rewrite Q. eauto.
  - intros [x [Ix [Nx Ox]]]. destruct (manifest_loop w (by_depth l)) as [mm|e] eqn:E.
    + pose proof (proj1 Hiff (ex_intro _ mm eq_refl) x Ix Nx) as X. congruence.
    + rewrite (manifest_loop_errors w _ e E). reflexivity.
Qed.

(* ------------------------------------------------------------ the order *)

Lemma manifest_order_core fuel w n v m M1 p M2 y :
  length w < fuel -> wf_world w ->
  create_dependencies fuel w n v = Ok m ->
  manifest_nodes m = M1 ++ p :: M2 -> step w p y -> In y (manifest_nodes m) ->
  ~ reach_plus w y p -> In y M1.
Proof.
  intros Hf Hwf C Hsplit S Iy Ncyc.
  destruct (create_dependencies_inv _ _ _ _ _ C) as [_ [l [mm [D [M ->]]]]].
  set (top := (n, Some v, true)) in *.
  pose proof (manifest_facts_hold fuel w top l mm Hf Hwf D M) as F.
  rewrite manifest_nodes_app in *. change (manifest_nodes [(top, false)]) with [top] in *. rewrite (mf_nodes _ _ _ _ F) in *.
  set (Sq := map enode (by_depth l)) in *.
  assert (Hself : p <> y).
  { intros <-. apply Ncyc. apply rp_one, step_is_stepP, S. }
  induction M2 as [|z M2' _] using rev_ind.
  - (* p is the last entry: the product itself *)
    apply app_inj_tail in Hsplit as [HF Hp]. rewrite <- HF.
    apply in_app_iff in Iy as [Iy | [Iy | []]]; [exact Iy|]. congruence.
  - replace (M1 ++ p :: M2' ++ [z]) with ((M1 ++ p :: M2') ++ [z]) in Hsplit
      by (rewrite <- app_assoc; reflexivity).
    apply app_inj_tail in Hsplit as [HF Hz].
    destruct (filter_split_mid _ _ _ _ _ HF) as [S1 [S2 [ES [E1 E2]]]].
    destruct (map_split_mid enode _ _ _ _ ES) as [l1 [x [l2 [El [Em1 [Ex Em2]]]]]].
    assert (Ix : In x l).
    { apply (proj1 (by_depth_In l x)). rewrite El. apply in_or_app. right. left. reflexivity. }
    assert (Rp : reach_plus w top p).
    { rewrite <- Ex. apply (mf_listing _ _ _ _ F). apply in_map, Ix. }
    apply in_app_iff in Iy as [Iy | [Iy | []]].
    + apply filter_In in Iy as [Iy Ky]. unfold Sq in Iy. apply in_map_iff in Iy as [zy [Ezy Izy]].
      assert (Izl : In zy l) by (apply (proj1 (by_depth_In l zy)), Izy).
      assert (Hlt : edepth x < edepth zy).
      { apply (build_order_general w top fuel l Hf Hwf D x zy Ix Izl); rewrite Ex, Ezy; assumption. }
      rewrite El in Izy. apply in_app_iff in Izy as [I1 | [I1 | I1]].
      * rewrite <- E1. apply filter_In. split; [|exact Ky]. rewrite <- Em1, <- Ezy. apply in_map, I1.
      * subst zy. lia.
      * pose proof (by_depth_sorted l) as Hs. rewrite El in Hs. apply sorted_mid in Hs.
        rewrite Forall_forall in Hs. specialize (Hs zy I1). unfold depth_ge in Hs. lia.
    + exfalso. apply Ncyc. rewrite <- Iy. exact Rp.
Qed.

Lemma manifest_node_in_closure fuel w n v m p :
  length w < fuel -> wf_world w -> create_dependencies fuel w n v = Ok m ->
  In p (manifest_nodes m) -> closure w (n, Some v, true) p.
Proof.
  intros Hf Hwf C I. apply (proj2 (manifest_entries fuel w n v m Hf Hwf C)) in I as [-> | [_ [R _]]].
  - left. reflexivity.
  - right. exact R.
Qed.

Lemma acyclic_no_back w top p y : acyclic_from w top -> closure w top p -> step w p y -> ~ reach_plus w y p.
Proof.
  intros Ha Cp S R. apply (Ha p Cp). eapply rp_more; [apply step_is_stepP, S | exact R].
Qed.

(* ------------------------------------------------------------ installing *)

Lemma targets_step w p d : In d (targets w p) -> step w p d.
Proof.
  unfold targets. destruct (node_table w p) as [es|] eqn:T; [|intros []].
  intros I. apply in_map_iff in I as [e [E Ie]]. exists es, e. auto.
Qed.

Lemma install_loop_ok w M :
  (forall M1 p M2 y, M = M1 ++ p :: M2 -> step w p y -> In y M -> In y M1) ->
  forall todo inst pre,
  M = pre ++ todo -> (forall q, In q inst <-> In q pre) ->
  exists out, install_loop w M inst todo = Ok out /\ forall q, In q out <-> In q M.
Proof.
  intros Hord. induction todo as [|p r IH]; intros inst pre EM Hi; cbn [install_loop].
  - exists inst. split; [reflexivity|]. rewrite app_nil_r in EM. subst. exact Hi.
  - assert (Hc : forallb (fun d => implb (mem_node d M) (mem_node d inst)) (targets w p) = true).
    { apply forallb_forall. intros d Id. destruct (mem_node d M) eqn:Em; [|reflexivity]. cbn [implb].
      apply mem_node_In. apply Hi. apply (Hord pre p r d EM (targets_step _ _ _ Id)). apply mem_node_In, Em. }
    rewrite Hc. apply (IH (inst ++ [p]) (pre ++ [p])).
    + rewrite <- app_assoc. exact EM.
    + intros q. rewrite !in_app_iff. rewrite Hi. tauto.
Qed.

(* ------------------------------------------------------------ the command line *)

Lemma filter_all {A} (l : list A) : filter (fun _ => true) l = l.
Proof. induction l as [|x l IH]; simpl; [reflexivity | rewrite IH; reflexivity]. Qed.

(* under wf_world two listed products with the same name and version are the same product: the stub of a line
   that did not resolve carries a version that is not declared *)
Lemma listed_key_inj w top a b :
  wf_world w -> reach_plus w top a -> reach_plus w top b -> ukey_of a = ukey_of b -> a = b.
Proof.
  intros Hwf Ra Rb E.
  destruct a as [[na va] ra], b as [[nb vb] rb]. unfold ukey_of in E. cbn [nname nver fst snd] in E.
  inversion E. subst nb vb.
  destruct (relookup_listed w top _ Hwf Ra) as [[A1 E1] | [A1 E1]];
  destruct (relookup_listed w top _ Hwf Rb) as [[A2 E2] | [A2 E2]];
  cbn [nreal snd] in A1, A2; subst ra rb; try reflexivity;
  unfold relookup in E1, E2; cbn [nname nver fst snd] in E1, E2; rewrite E1 in E2; discriminate.
Qed.

Lemma listing_keys_nodup fuel w top l :
  length w < fuel -> wf_world w -> dependent_products fuel w top true = Ok l ->
  NoDup (map (fun x => ukey_of (enode x)) l).
Proof.
  intros Hf Hwf D. destruct (listing_topological true node_cmp w top fuel l Hf D) as [HL HN].
  rewrite <- (map_map enode ukey_of). apply nodup_map_inj_on; [exact HN|].
  intros a b Ia Ib E. apply HL in Ia as [_ Ra]. apply HL in Ib as [_ Rb]. eapply listed_key_inj; eauto.
Qed.

Lemma cli_entries_exact f l :
  NoDup (map (fun x => ukey_of (enode x)) l) ->
  cli_entries f l = filter (fun x => depth_ok f (edepth x)) l.
Proof.
  intros Hn. unfold cli_entries, cli_entries_with. apply first_of_product_id; [apply nodup_map_filter, Hn | intros x _ []].
Qed.

Lemma cli_lines_inv fuel w top topological f L :
  cli_lines fuel w top topological false f = Ok L ->
  exists l, dependent_products fuel w top topological = Ok l /\
            L = (if depth_ok f 0 then [top] else []) ++ map enode (cli_entries f l).
Proof.
  unfold cli_lines, cli_lines_with. destruct (dependent_products fuel w top topological) as [l|]; [|discriminate].
  cbn [andb]. intros Q. inversion Q. exists l. auto.
Qed.
