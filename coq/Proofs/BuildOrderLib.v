(* List and sorting lemmas for the build-order proofs (Proofs/BuildOrder.v). *)
From Coq Require Import Lia List Sorted Permutation.
From Eupsv Require Import Base.Base Base.BaseLemmas Model.Graph Model.BuildOrder Proofs.GraphLib Proofs.GraphListing.
Import ListNotations.

(* ------------------------------------------------------------ splitting *)

Lemma filter_split_mid {A} (f : A -> bool) : forall L M1 p M2,
  filter f L = M1 ++ p :: M2 ->
  exists L1 L2, L = L1 ++ p :: L2 /\ filter f L1 = M1 /\ filter f L2 = M2.
Proof.
  induction L as [|x L IH]; intros M1 p M2 H; simpl in H.
  - destruct M1; discriminate.
  - destruct (f x) eqn:E.
    + destruct M1 as [|a M1]; simpl in H.
      * inversion H; subst. exists [], L. simpl. auto.
      * inversion H as [[Ha Hr]]. destruct (IH _ _ _ Hr) as [L1 [L2 [E1 [E2 E3]]]].
        subst a. exists (x :: L1), L2. simpl. rewrite E. subst. auto.
    + destruct (IH _ _ _ H) as [L1 [L2 [E1 [E2 E3]]]]. subst. exists (x :: L1), L2. simpl. rewrite E. auto.
Qed.

Lemma map_split_mid {A B} (f : A -> B) : forall a l b c,
  map f l = a ++ b :: c ->
  exists a' b' c', l = a' ++ b' :: c' /\ map f a' = a /\ f b' = b /\ map f c' = c.
Proof.
  induction a as [|x a IH]; intros l b c H; destruct l as [|y l]; simpl in H; try discriminate.
  - inversion H. exists [], y, l. auto.
  - inversion H as [[Hx Hr]]. destruct (IH _ _ _ Hr) as [a' [b' [c' [E1 [E2 [E3 E4]]]]]].
    exists (y :: a'), b', c'. simpl. subst. auto.
Qed.

Lemma nodup_snoc {A} (l : list A) a : NoDup l -> ~ In a l -> NoDup (l ++ [a]).
Proof.
  induction l as [|x l IH]; simpl; intros Hn Hi.
  - constructor; [intros []|constructor].
  - inversion Hn as [|? ? Hx Hl]. subst. constructor.
    + rewrite in_app_iff. simpl. intros [I | [I | []]]; [contradiction|]. subst. apply Hi. left. reflexivity.
    + apply IH; [exact Hl|]. intros I. apply Hi. right. exact I.
Qed.

Lemma nodup_map_filter {A B} (g : A -> B) (f : A -> bool) l : NoDup (map g l) -> NoDup (map g (filter f l)).
Proof.
  induction l as [|x l IH]; simpl; intros Hn; [constructor|].
  inversion Hn as [|? ? Hx Hl]. subst. destruct (f x); simpl; [|auto].
  constructor; [|auto]. intros I. apply Hx. apply in_map_iff in I as [z [Ez Iz]].
  apply filter_In in Iz as [Iz _]. rewrite <- Ez. apply in_map. exact Iz.
Qed.

Lemma sorted_mid {A} (R : A -> A -> Prop) : forall l1 x l2,
  StronglySorted R (l1 ++ x :: l2) -> Forall (R x) l2.
Proof.
  induction l1 as [|y l1 IH]; simpl; intros x l2 H; inversion H; subst; auto.
Qed.

(* ------------------------------------------------------------ permutations of the partial sort *)

Section Perm.
  Context {A : Type}.
  Variable cmp : A -> A -> option comparison.

  Lemma pinsert_perm x : forall l r, pinsert cmp x l = Ok r -> Permutation r (x :: l).
  Proof.
    induction l as [|y l IH]; intros r; cbn [pinsert].
    - intros Q. inversion Q. apply Permutation_refl.
    - destruct (cmp x y) as [c|]; [|discriminate]. destruct c.
      + intros Q. inversion Q. apply Permutation_refl.
      + intros Q. inversion Q. apply Permutation_refl.
      + destruct (pinsert cmp x l) as [r'|]; [|discriminate]. intros Q. inversion Q. subst r.
        eapply Permutation_trans; [apply perm_skip, IH; reflexivity | apply perm_swap].
  Qed.

  Lemma psort_perm : forall l r, psort cmp l = Ok r -> Permutation r l.
  Proof.
    induction l as [|x l IH]; intros r; cbn [psort].
    - intros Q. inversion Q. apply Permutation_refl.
    - destruct (psort cmp l) as [r0|]; [|discriminate]. intros Q.
      eapply Permutation_trans; [apply (pinsert_perm x _ _ Q) | apply perm_skip, IH; reflexivity].
  Qed.
End Perm.

(* ------------------------------------------------------------ the sort by descending depth *)

Definition depth_ge (a b : entry) : Prop := edepth b <= edepth a.

Lemma depth_desc_total a b : depth_desc_cmp a b <> None.
Proof. discriminate. Qed.

Lemma by_depth_psort l : psort depth_desc_cmp l = Ok (by_depth l).
Proof.
  unfold by_depth. destruct (psort_total depth_desc_cmp depth_desc_total l) as [r [E _]]. rewrite E. reflexivity.
Qed.

Lemma by_depth_perm l : Permutation (by_depth l) l.
Proof. apply (psort_perm depth_desc_cmp), by_depth_psort. Qed.

Lemma by_depth_In l x : In x (by_depth l) <-> In x l.
Proof.
  split; apply Permutation_in; [apply by_depth_perm | apply Permutation_sym, by_depth_perm].
Qed.

Lemma pinsert_desc_sorted x : forall l r,
  StronglySorted depth_ge l -> pinsert depth_desc_cmp x l = Ok r -> StronglySorted depth_ge r.
Proof.
  induction l as [|y l IH]; intros r Hs; cbn [pinsert].
  - intros Q. inversion Q. constructor; constructor.
  - unfold depth_desc_cmp at 1. destruct (Nat.compare (edepth y) (edepth x)) eqn:E.
    + intros Q. inversion Q. apply Nat.compare_eq in E. inversion Hs as [|? ? Hs' Hall]. subst.
      constructor; [exact Hs|]. constructor; [unfold depth_ge; lia|].
      eapply Forall_impl; [|exact Hall]. intros z Hz. unfold depth_ge in *. lia.
    + intros Q. inversion Q. apply Nat.compare_lt_iff in E. inversion Hs as [|? ? Hs' Hall]. subst.
      constructor; [exact Hs|]. constructor; [unfold depth_ge; lia|].
      eapply Forall_impl; [|exact Hall]. intros z Hz. unfold depth_ge in *. lia.
    + apply Nat.compare_gt_iff in E.
      destruct (pinsert depth_desc_cmp x l) as [r'|] eqn:E'; [|discriminate]. intros Q. inversion Q. subst r.
      inversion Hs as [|? ? Hs' Hall]. subst.
      constructor; [apply IH; auto|].
      apply Forall_forall. intros z Hz.
      apply (Permutation_in _ (pinsert_perm depth_desc_cmp x l r' E')) in Hz. destruct Hz as [<- | Hz].
      * unfold depth_ge. lia.
      * rewrite Forall_forall in Hall. apply Hall, Hz.
Qed.

Lemma by_depth_sorted l : StronglySorted depth_ge (by_depth l).
Proof.
  assert (G : forall l r, psort depth_desc_cmp l = Ok r -> StronglySorted depth_ge r).
  { induction l0 as [|x l0 IH]; intros r; cbn [psort].
    - intros Q. inversion Q. constructor.
    - destruct (psort depth_desc_cmp l0) as [r0|]; [|discriminate]. intros Q.
      eapply pinsert_desc_sorted; [|exact Q]. apply IH. reflexivity. }
  apply (G l), by_depth_psort.
Qed.

(* ------------------------------------------------------------ names *)

Lemma mem_str_In x l : mem_str x l = true <-> In x l.
Proof.
  induction l as [|y l IH]; simpl; [split; [discriminate | intros []]|].
  destruct (str_eqb x y) eqn:E.
  - apply str_eqb_eq in E. subst. split; auto.
  - apply str_eqb_neq in E. rewrite IH. split; [auto|]. intros [H | H]; [congruence | exact H].
Qed.

Lemma first_of_name_sub : forall l seen x, In x (first_of_name seen l) -> In x l.
Proof.
  induction l as [|y l IH]; simpl; intros seen x H; [exact H|].
  destruct (mem_str (nname (enode y)) seen); [right; eapply IH; eauto|].
  destruct H as [-> | H]; [left; reflexivity | right; eapply IH; eauto].
Qed.

Lemma first_of_name_names : forall l seen x, In x l ->
  In (nname (enode x)) seen \/ exists x', In x' (first_of_name seen l) /\ nname (enode x') = nname (enode x).
Proof.
  induction l as [|y l IH]; simpl; intros seen x H; [destruct H|].
  destruct (mem_str (nname (enode y)) seen) eqn:E.
  - destruct H as [<- | H]; [left; apply mem_str_In, E | apply IH, H].
  - destruct H as [<- | H]; [right; exists y; split; [left; reflexivity | reflexivity]|].
    destruct (IH (nname (enode y) :: seen) x H) as [[Q | Q] | [x' [I Q]]].
    + right. exists y. split; [left; reflexivity | exact Q].
    + left. exact Q.
    + right. exists x'. split; [right; exact I | exact Q].
Qed.

Lemma first_of_name_id : forall l seen,
  NoDup (map (fun x => nname (enode x)) l) -> (forall x, In x l -> ~ In (nname (enode x)) seen) ->
  first_of_name seen l = l.
Proof.
  induction l as [|y l IH]; simpl; intros seen Hn Hs; [reflexivity|].
  inversion Hn as [|? ? Hy Hl]. subst.
  destruct (mem_str (nname (enode y)) seen) eqn:E.
  - apply mem_str_In in E. destruct (Hs y (or_introl eq_refl) E).
  - f_equal. apply IH; [exact Hl|]. intros x Ix [Q | Q].
    + apply Hy. rewrite Q. apply (in_map (fun x => nname (enode x))), Ix.
    + apply (Hs x (or_intror Ix) Q).
Qed.

(* ------------------------------------------------------------ products printed once (the repaired command line) *)

Lemma mem_key_In x l : mem_key x l = true <-> In x l.
Proof.
  induction l as [|y l IH]; simpl; [split; [discriminate | intros []]|].
  destruct (ukey_eqb x y) eqn:E.
  - apply ukey_eqb_eq in E. subst. split; auto.
  - rewrite IH. split; [auto|]. intros [H | H]; [|exact H].
    subst. assert (X : ukey_eqb x x = true) by (apply ukey_eqb_eq; reflexivity). congruence.
Qed.

Lemma first_of_product_sub : forall l seen x, In x (first_of_product seen l) -> In x l.
Proof.
  induction l as [|y l IH]; simpl; intros seen x H; [exact H|].
  destruct (mem_key (ukey_of (enode y)) seen); [right; eapply IH; eauto|].
  destruct H as [-> | H]; [left; reflexivity | right; eapply IH; eauto].
Qed.

Lemma first_of_product_keys : forall l seen x, In x l ->
  In (ukey_of (enode x)) seen \/
  exists x', In x' (first_of_product seen l) /\ ukey_of (enode x') = ukey_of (enode x).
Proof.
  induction l as [|y l IH]; simpl; intros seen x H; [destruct H|].
  destruct (mem_key (ukey_of (enode y)) seen) eqn:E.
  - destruct H as [<- | H]; [left; apply mem_key_In, E | apply IH, H].
  - destruct H as [<- | H]; [right; exists y; split; [left; reflexivity | reflexivity]|].
    destruct (IH (ukey_of (enode y) :: seen) x H) as [[Q | Q] | [x' [I Q]]].
    + right. exists y. split; [left; reflexivity | exact Q].
    + left. exact Q.
    + right. exists x'. split; [right; exact I | exact Q].
Qed.

Lemma first_of_product_id : forall l seen,
  NoDup (map (fun x => ukey_of (enode x)) l) -> (forall x, In x l -> ~ In (ukey_of (enode x)) seen) ->
  first_of_product seen l = l.
Proof.
  induction l as [|y l IH]; simpl; intros seen Hn Hs; [reflexivity|].
  inversion Hn as [|? ? Hy Hl]. subst.
  destruct (mem_key (ukey_of (enode y)) seen) eqn:E.
  - apply mem_key_In in E. destruct (Hs y (or_introl eq_refl) E).
  - f_equal. apply IH; [exact Hl|]. intros x Ix [Q | Q].
    + apply Hy. rewrite Q. apply (in_map (fun x => ukey_of (enode x))), Ix.
    + apply (Hs x (or_intror Ix) Q).
Qed.

Lemma nodup_map_inj_on {A B} (f : A -> B) : forall l,
  NoDup l -> (forall a b, In a l -> In b l -> f a = f b -> a = b) -> NoDup (map f l).
Proof.
  induction l as [|x l IH]; simpl; intros Hn Hi; [constructor|].
  inversion Hn as [|? ? Hx Hl]. subst. constructor.
  - intros I. apply in_map_iff in I as [y [E Iy]]. apply Hx.
    rewrite (Hi x y (or_introl eq_refl) (or_intror Iy) (eq_sym E)). exact Iy.
  - apply IH; [exact Hl|]. intros a b Ia Ib. apply Hi; right; assumption.
Qed.
