(* Named consequences: a cache that is not believed is rebuilt from the files and rewritten; a
   database update outdates every cache file of the stack. *)
From Eupsv Require Import Base.Base Base.BaseLemmas Model.Db Model.Cache.
From Eupsv Require Import Proofs.DbLib Proofs.Db Proofs.DbSim Proofs.DbInv Proofs.DbCor.
From Eupsv Require Import Proofs.CacheLib Proofs.CacheWt Proofs.CacheRebuild Proofs.CacheEff Proofs.CacheU Proofs.CacheInv
  Proofs.CacheLoad Proofs.CacheProc.
From Coq Require Import Lia.

Lemma reload_lookup_indep w loc s fls : forall ps ps',
  ps_lookup ps = ps_lookup ps' -> ps_lookup (reload w loc s fls ps) = ps_lookup (reload w loc s fls ps').
Proof.
  induction fls as [|fl r IH]; intros ps ps' H; cbn [reload]; [exact H|]. apply IH.
  destruct (pk_get w loc s fl); [|exact H]. cbn [ps_lookup]. rewrite H. reflexivity.
Qed.

Lemma try_cache_bool_indep w loc s fls ps :
  ps_lookup ps = [] -> snd (try_cache false w loc s fls ps) = believed w loc s fls.
Proof.
  intro H. unfold believed, try_cache. destruct (forallb (up_to_date false w loc s) fls); [|reflexivity].
  unfold ps_names. rewrite (reload_lookup_indep w loc s fls ps ps_empty H).
  destruct (same_names _ _); reflexivity.
Qed.

(* absent, or older than a record: not believed *)
Lemma not_up_to_date_not_believed_any b w loc s nf f ps :
  In f nf -> up_to_date b w loc s f = false -> snd (try_cache b w loc s nf ps) = false.
Proof.
  intros Hf H. unfold try_cache.
  assert (X : forallb (up_to_date b w loc s) nf = false).
  { destruct (forallb (up_to_date b w loc s) nf) eqn:E; [|reflexivity].
    rewrite forallb_forall in E. rewrite (E f Hf) in H. discriminate. }
  rewrite X. reflexivity.
Qed.

Lemma not_up_to_date_not_believed w loc s nf f :
  In f nf -> up_to_date false w loc s f = false -> believed w loc s nf = false.
Proof.
  intros Hf H. unfold believed, try_cache.
  assert (X : forallb (up_to_date false w loc s) nf = false).
  { destruct (forallb (up_to_date false w loc s) nf) eqn:E; [|reflexivity].
    rewrite forallb_forall in E. rewrite (E f Hf) in H. discriminate. }
  rewrite X. reflexivity.
Qed.

Lemma absent_not_up_to_date b w loc s f : pk_get w loc s f = None -> up_to_date b w loc s f = false.
Proof. intro H. unfold up_to_date. rewrite H. reflexivity. Qed.

Lemma older_not_up_to_date b w loc s f p :
  pk_get w loc s f = Some p -> newer_than w s (pk_stamp p) = true -> up_to_date b w loc s f = false.
Proof. intros H1 H2. unfold up_to_date. rewrite H1, H2. apply andb_false_r. Qed.

(* the same for the owner's tag directory: a cache file in a user's directory that is older than a file
   of his tag directory is not up to date *)
Lemma uolder_not_up_to_date w loc s f p :
  loc <> upsdb -> pk_get w loc s f = Some p -> unewer_than w loc s (pk_stamp p) = true ->
  up_to_date false w loc s f = false.
Proof.
  intros N H1 H2. unfold up_to_date. rewrite H1, H2. destruct (str_eqb_spec loc upsdb); [contradiction|]. reflexivity.
Qed.

Lemma stale_rebuilt tick w s loc utd nf :
  clock_strict tick -> INV w -> utd = owner loc ->
  believed w loc s nf = false -> believed w upsdb s nf = false ->
  let '(w', ps) := from_cache tick false w s loc utd nf in
  (forall f, In f (db_flavors (w_db w) s) ->
     alookup f (ps_lookup ps) = Some (rebuild_fdata (w_db w) (w_uc w) utd s f)) /\
  (forall f, In f nf -> exists p, pk_get w' loc s f = Some p /\ w_clock w < pk_stamp p) /\
  ps_ok w' utd s ps /\ w_db w' = w_db w /\ w_uc w' = w_uc w.
Proof.
  intros CS I Hutd B1 B2. unfold from_cache.
  assert (MT0 : mt_ok w s ps_empty) by (intros l f m p H; discriminate).
  destruct (try_cache false w loc s nf ps_empty) as [ps1 b1] eqn:T1.
  assert (Eb1 : b1 = false) by (unfold believed in B1; rewrite T1 in B1; exact B1). subst b1.
  destruct (try_cache_false _ _ _ _ _ _ MT0 eq_refl T1) as [MT1 Nil1].
  destruct (try_cache false w upsdb s nf ps1) as [ps2 b2] eqn:T2.
  assert (Eb2 : b2 = false).
  { pose proof (try_cache_bool_indep w upsdb s nf ps1 Nil1) as X. rewrite T2 in X. cbn [snd] in X. congruence. }
  subst b2. destruct (try_cache_false _ _ _ _ _ _ MT1 Nil1 T2) as [MT2 _].
  destruct (save tick w s loc (uniq (akeys (rebuild_lookup (w_db w) (w_uc w) utd s) ++ nf))
              (mkPS (rebuild_lookup (w_db w) (w_uc w) utd s) (ps_modtimes ps2))) as [[w3 ps3] b] eqn:Es.
  assert (OK0 : ps_ok w (owner loc) s (mkPS (rebuild_lookup (w_db w) (w_uc w) utd s) (ps_modtimes ps2))).
  { split; [|split; [|exact MT2]]; intros f fd H; cbn [ps_lookup] in H; rewrite rebuild_lookup_lookup in H;
      destruct (mem_str f (db_flavors (w_db w) s)); inversion H.
    - apply rebuild_agree. apply (inv_nd w I).
    - rewrite <- Hutd. intro n.
      apply (ugood_uagree_n _ (w_db w) (w_uc w) utd s f n (rebuild_agree (w_db w) (w_uc w) utd s f (inv_nd w I) n)).
      apply rebuild_uagree. }
  assert (Hnew : forall f, In f (uniq (akeys (rebuild_lookup (w_db w) (w_uc w) utd s) ++ nf)) ->
            alookup f (ps_lookup (mkPS (rebuild_lookup (w_db w) (w_uc w) utd s) (ps_modtimes ps2))) = None ->
            agree [] (w_db w) s f).
  { intros f _ H. cbn [ps_lookup] in H. rewrite rebuild_lookup_lookup in H.
    destruct (mem_str f (db_flavors (w_db w) s)) eqn:M; [discriminate|].
    apply empty_agree; [apply (inv_nd w I)|]. apply mem_str_not_In. exact M. }
  destruct (save_ok tick s loc _ _ _ _ _ _ CS I OK0 Hnew Es) as [I3 [OK3 [[D3 [_ [_ [U3 _]]]] [_ [_ [L3 L4]]]]]].
  split; [|split; [|split; [rewrite Hutd; exact OK3|split; [exact D3|exact U3]]]].
  - intros f Hf. apply L3. cbn [ps_lookup]. rewrite rebuild_lookup_lookup.
    apply mem_str_In in Hf. rewrite Hf. reflexivity.
  - intros f Hf. apply L4. apply uniq_In. apply in_or_app. right. exact Hf.
Qed.

(* a database update that does anything leaves the product's directory newer than every cache
   file written before: while the product keeps a version file, no such file is up to date *)
Lemma act_outdates tick b w x l f p :
  clock_strict tick -> INV w -> compile (w_db w) x <> [] ->
  pk_get w l (act_stack x) f = Some p ->
  In (act_name x) (db_names (w_db (do_act tick w x)) (act_stack x)) ->
  up_to_date b (do_act tick w x) l (act_stack x) f = false.
Proof.
  intros CS I Ne Hp Hn. unfold up_to_date. rewrite (pk_get_pickles w) by apply do_act_pickles. rewrite Hp.
  apply andb_false_iff. right. apply negb_false_iff. unfold newer_than. apply existsb_exists. exists (act_name x). split; [exact Hn|].
  destruct (compile_touch (w_db w) x) as [Nil|T]; [contradiction|].
  assert (Fresh : pk_stamp p < stamp_of (w_stamps (do_act tick w x)) (RDir (act_stack x) (act_name x))).
  { unfold do_act. apply dir_stamp_touch; auto; [apply compile_scope|]. exact (inv_pc w I _ _ _ _ Hp). }
  unfold newer_n. apply Nat.ltb_lt in Fresh. rewrite Fresh. reflexivity.
Qed.

(* a write in a user's tag directory leaves that directory newer than every cache file of his for the
   stack: while the product has a version file, none of them is up to date *)
Lemma uset_outdates tick w u s n t f v f0 p :
  clock_strict tick -> INV w -> u <> upsdb -> pk_get w u s f0 = Some p -> In n (db_names (w_db w) s) ->
  up_to_date false (do_uset tick w u s n t f v) u s f0 = false.
Proof.
  intros CS I Hu Hp Hn. unfold up_to_date.
  replace (pk_get (do_uset tick w u s n t f v) u s f0) with (pk_get w u s f0) by reflexivity. rewrite Hp.
  apply andb_false_iff. left. apply negb_false_iff. destruct (str_eqb_spec u upsdb); [contradiction|]. cbn [negb andb].
  unfold unewer_than. apply existsb_exists. exists n. split; [exact Hn|].
  unfold unewer_n. apply orb_true_iff. left. apply Nat.ltb_lt.
  replace (w_stamps (do_uset tick w u s n t f v))
    with (sset (RUChain u s (n, t)) (tick (w_clock w)) (sset (RUDir u s n) (tick (w_clock w)) (w_stamps w))) by reflexivity.
  rewrite !stamp_of_sset. cbn [rkey_eqb]. rewrite !str_eqb_refl. cbn [andb].
  pose proof (inv_pc w I _ _ _ _ Hp). pose proof (CS (w_clock w)). lia.
Qed.
