(* Effects with stamps: what one record-level action changes in the files, the product names
   and the modification times.  Everything an action does concerns one product of one stack,
   and (unless it does nothing at all) leaves that product's directory with a fresh stamp. *)
From Eupsv Require Import Base.Base Base.BaseLemmas Model.Db Model.Cache.
From Eupsv Require Import Proofs.DbLib Proofs.Db Proofs.DbSim Proofs.DbInv Proofs.DbCor.
From Eupsv Require Import Proofs.CacheLib Proofs.CacheWt Proofs.CacheRebuild.
From Coq Require Import Lia.

Definition is_touch (e : fseffect) : bool :=
  match e with Mkdir _ _ | Rmdir _ _ => false | _ => true end.

Definition in_scope (s n : str) (e : fseffect) : Prop := eff_stack e = s /\ eff_name e = n.

(* ---------------------------------------------------------------- the effects of one action *)

Lemma untag_effects_scope d s n t f : Forall (in_scope s n) (untag_effects d s n t f).
Proof.
  unfold untag_effects. destruct (db_cfile d s (n, t)) as [c|]; [|constructor].
  destruct (amem f c); [|constructor]. constructor; [|constructor].
  unfold write_or_remove_c. destruct (is_nil (aremove f c)); split; reflexivity.
Qed.

Lemma compile_scope d x : Forall (in_scope (act_stack x) (act_name x)) (compile d x).
Proof.
  destruct x as [s n v f r|s n v f|s n t f v|s n t f]; cbn [compile act_stack act_name act_nf fst].
  - apply Forall_app. split.
    + destruct (db_has_dir d s n); constructor; [split; reflexivity|constructor].
    + constructor; [split; reflexivity|constructor].
  - destruct (db_vfile d s (n, v)) as [c|]; [|constructor]. destruct (amem f c); [|constructor].
    apply Forall_app. split.
    + apply Forall_forall. intros e He. apply in_flat_map in He. destruct He as [t [_ He]].
      exact (proj1 (Forall_forall _ _) (untag_effects_scope d s n t f) e He).
    + destruct (is_nil (aremove f c)); repeat constructor.
  - repeat constructor.
  - apply untag_effects_scope.
Qed.

Lemma untag_effects_touch d s n t f :
  untag_effects d s n t f = [] \/ Exists (fun e => is_touch e = true) (untag_effects d s n t f).
Proof.
  unfold untag_effects. destruct (db_cfile d s (n, t)) as [c|]; [|left; reflexivity].
  destruct (amem f c); [|left; reflexivity]. right. constructor.
  unfold write_or_remove_c. destruct (is_nil (aremove f c)); reflexivity.
Qed.

Lemma compile_touch d x : compile d x = [] \/ Exists (fun e => is_touch e = true) (compile d x).
Proof.
  destruct x as [s n v f r|s n v f|s n t f v|s n t f]; cbn [compile].
  - right. apply Exists_app. right. constructor. reflexivity.
  - destruct (db_vfile d s (n, v)) as [c|]; [|left; reflexivity]. destruct (amem f c); [|left; reflexivity].
    right. apply Exists_app. right. destruct (is_nil (aremove f c)); constructor; reflexivity.
  - right. constructor. reflexivity.
  - apply untag_effects_touch.
Qed.

(* ---------------------------------------------------------------- frames of one effect *)

Lemma stack_of_apply1 e d s :
  stack_of (apply1 e d) s =
  match alookup s d with
  | Some st => if str_eqb s (eff_stack e) then apply_stack e st else st
  | None => empty_stack
  end.
Proof. unfold stack_of. rewrite alookup_apply1. destruct (alookup s d); reflexivity. Qed.

Lemma vfiles_frame e d s (kv : key * vcontent) :
  s <> eff_stack e \/ vname kv <> eff_name e ->
  (In kv (vfiles (stack_of (apply1 e d) s)) <-> In kv (vfiles (stack_of d s))).
Proof.
  intro H. rewrite stack_of_apply1. unfold stack_of. destruct (alookup s d) as [st|]; [|tauto].
  destruct (str_eqb_spec s (eff_stack e)) as [E|N]; [|tauto].
  assert (Hn : vname kv <> eff_name e) by (destruct H; [contradiction|assumption]).
  destruct kv as [k c]. unfold vname in Hn. cbn [fst] in Hn.
  destruct e as [s' n'|s' n'|s' k' c'|s' k'|s' k' c'|s' k']; cbn [apply_stack eff_name] in *.
  - destruct (mem_str n' (dirs st)); tauto.
  - destruct (has_files n' st); tauto.
  - cbn [vfiles]. apply (In_gset_other key_eqb key_eqb_eq). intro E2. subst k'. contradiction.
  - cbn [vfiles]. apply (In_gremove_other key_eqb key_eqb_eq). intro E2. subst k'. contradiction.
  - tauto.
  - tauto.
Qed.

Lemma cfiles_frame e d s (kv : key * ccontent) :
  s <> eff_stack e \/ cname kv <> eff_name e ->
  (In kv (cfiles (stack_of (apply1 e d) s)) <-> In kv (cfiles (stack_of d s))).
Proof.
  intro H. rewrite stack_of_apply1. unfold stack_of. destruct (alookup s d) as [st|]; [|tauto].
  destruct (str_eqb_spec s (eff_stack e)) as [E|N]; [|tauto].
  assert (Hn : cname kv <> eff_name e) by (destruct H; [contradiction|assumption]).
  destruct kv as [k c]. unfold cname in Hn. cbn [fst] in Hn.
  destruct e as [s' n'|s' n'|s' k' c'|s' k'|s' k' c'|s' k']; cbn [apply_stack eff_name] in *.
  - destruct (mem_str n' (dirs st)); tauto.
  - destruct (has_files n' st); tauto.
  - tauto.
  - tauto.
  - cbn [cfiles]. apply (In_gset_other key_eqb key_eqb_eq). intro E2. subst k'. contradiction.
  - cbn [cfiles]. apply (In_gremove_other key_eqb key_eqb_eq). intro E2. subst k'. contradiction.
Qed.

Definition rk_prod (k : rkey) : str * str :=
  match k with
  | RDir s n => (s, n) | RVer s k => (s, fst k) | RChain s k => (s, fst k)
  | RUDir _ s n => (s, n) | RUChain _ s k => (s, fst k)
  end.

(* the keys of the users' tag directories *)
Definition is_ukey (k : rkey) : bool := match k with RUDir _ _ _ | RUChain _ _ _ => true | _ => false end.

(* no record effect stamps a file of a tag directory *)
Lemma stamp_effect_ukey e d t st k : is_ukey k = true ->
  glookup rkey_eqb k (stamp_effect e d t st) = glookup rkey_eqb k st.
Proof.
  intro H. unfold stamp_effect, sset.
  destruct e as [s' n'|s' n'|s' k' c'|s' k'|s' k' c'|s' k']; try (destruct (db_has_dir d s' n'));
    rewrite ?(glookup_gset_other rkey_eqb rkey_eqb_eq); try reflexivity; intro E; subst k; discriminate.
Qed.

Lemma stamp_effect_frame e d t st k :
  rk_prod k <> (eff_stack e, eff_name e) ->
  glookup rkey_eqb k (stamp_effect e d t st) = glookup rkey_eqb k st.
Proof.
  intro H. unfold stamp_effect, sset.
  destruct e as [s' n'|s' n'|s' k' c'|s' k'|s' k' c'|s' k']; cbn [eff_stack eff_name] in H.
  - destruct (db_has_dir d s' n'); [reflexivity|].
    apply (glookup_gset_other rkey_eqb rkey_eqb_eq). intro E. subst k. apply H. reflexivity.
  - reflexivity.
  - rewrite !(glookup_gset_other rkey_eqb rkey_eqb_eq); [reflexivity| |]; intro E; subst k; apply H; reflexivity.
  - apply (glookup_gset_other rkey_eqb rkey_eqb_eq). intro E. subst k. apply H. reflexivity.
  - rewrite !(glookup_gset_other rkey_eqb rkey_eqb_eq); [reflexivity| |]; intro E; subst k; apply H; reflexivity.
  - apply (glookup_gset_other rkey_eqb rkey_eqb_eq). intro E. subst k. apply H. reflexivity.
Qed.

Lemma stamp_effect_values e d t st k t' :
  glookup rkey_eqb k (stamp_effect e d t st) = Some t' -> t' = t \/ glookup rkey_eqb k st = Some t'.
Proof.
  unfold stamp_effect, sset.
  destruct e as [s' n'|s' n'|s' k' c'|s' k'|s' k' c'|s' k'];
    try (destruct (db_has_dir d s' n')); rewrite ?(glookup_gset rkey_eqb rkey_eqb_eq);
    repeat (match goal with |- context [if ?b then _ else _] => destruct b end);
    intro H; try (inversion H; auto; fail); auto.
Qed.

Lemma stamp_effect_touch e d t st :
  is_touch e = true -> glookup rkey_eqb (RDir (eff_stack e) (eff_name e)) (stamp_effect e d t st) = Some t.
Proof.
  unfold stamp_effect, sset.
  destruct e as [s' n'|s' n'|s' k' c'|s' k'|s' k' c'|s' k']; cbn [is_touch eff_stack eff_name]; try discriminate; intros _.
  - rewrite (glookup_gset_other rkey_eqb rkey_eqb_eq) by discriminate. apply (glookup_gset_same rkey_eqb rkey_eqb_eq).
  - apply (glookup_gset_same rkey_eqb rkey_eqb_eq).
  - rewrite (glookup_gset_other rkey_eqb rkey_eqb_eq) by discriminate. apply (glookup_gset_same rkey_eqb rkey_eqb_eq).
  - apply (glookup_gset_same rkey_eqb rkey_eqb_eq).
Qed.

(* ---------------------------------------------------------------- lists of effects *)

Lemma do_effects_cons tick w e es : do_effects tick w (e :: es) = do_effects tick (do_effect tick w e) es.
Proof. reflexivity. Qed.

Lemma do_effects_db tick es : forall w, w_db (do_effects tick w es) = apply es (w_db w).
Proof.
  induction es as [|e es IH]; intro w; [reflexivity|]. rewrite do_effects_cons, IH, apply_cons. reflexivity.
Qed.

Lemma do_effects_pickles tick es : forall w, w_pickles (do_effects tick w es) = w_pickles w.
Proof. induction es as [|e es IH]; intro w; [reflexivity|]. rewrite do_effects_cons, IH. reflexivity. Qed.

Lemma do_effects_clock tick es : clock_strict tick -> forall w, w_clock w <= w_clock (do_effects tick w es).
Proof.
  intro CS. induction es as [|e es IH]; intro w; [cbn; lia|]. rewrite do_effects_cons.
  specialize (IH (do_effect tick w e)). cbn [do_effect w_clock] in IH. pose proof (CS (w_clock w)). lia.
Qed.

Lemma do_effects_stamps_le tick es : clock_strict tick -> forall w,
  (forall k t, glookup rkey_eqb k (w_stamps w) = Some t -> t <= w_clock w) ->
  forall k t, glookup rkey_eqb k (w_stamps (do_effects tick w es)) = Some t -> t <= w_clock (do_effects tick w es).
Proof.
  intro CS. induction es as [|e es IH]; intros w H; [exact H|]. rewrite do_effects_cons. apply IH.
  intros k t Hk. cbn [do_effect w_stamps w_clock] in *. apply stamp_effect_values in Hk.
  destruct Hk as [->|Hk]; [lia|]. specialize (H k t Hk). pose proof (CS (w_clock w)). lia.
Qed.

Lemma vfiles_frame_list es : forall d s n0 s0 (kv : key * vcontent),
  Forall (in_scope s0 n0) es -> s <> s0 \/ vname kv <> n0 ->
  (In kv (vfiles (stack_of (apply es d) s)) <-> In kv (vfiles (stack_of d s))).
Proof.
  induction es as [|e es IH]; intros d s n0 s0 kv F H; [tauto|]. inversion F as [|? ? [E1 E2] F']. subst.
  rewrite apply_cons, (IH _ s _ _ kv F' H). apply vfiles_frame. exact H.
Qed.

Lemma cfiles_frame_list es : forall d s n0 s0 (kv : key * ccontent),
  Forall (in_scope s0 n0) es -> s <> s0 \/ cname kv <> n0 ->
  (In kv (cfiles (stack_of (apply es d) s)) <-> In kv (cfiles (stack_of d s))).
Proof.
  induction es as [|e es IH]; intros d s n0 s0 kv F H; [tauto|]. inversion F as [|? ? [E1 E2] F']. subst.
  rewrite apply_cons, (IH _ s _ _ kv F' H). apply cfiles_frame. exact H.
Qed.

Lemma stamps_frame_list tick es : forall w s0 n0 k,
  Forall (in_scope s0 n0) es -> rk_prod k <> (s0, n0) ->
  glookup rkey_eqb k (w_stamps (do_effects tick w es)) = glookup rkey_eqb k (w_stamps w).
Proof.
  induction es as [|e es IH]; intros w s0 n0 k F H; [reflexivity|]. inversion F as [|? ? [E1 E2] F']. subst.
  rewrite do_effects_cons, (IH _ _ _ k F' H). cbn [do_effect w_stamps]. apply stamp_effect_frame. exact H.
Qed.

(* a stamp above c0 stays above c0 *)
Lemma dir_stamp_keep tick es : clock_strict tick -> forall w k c0,
  c0 <= w_clock w -> c0 < stamp_of (w_stamps w) k -> c0 < stamp_of (w_stamps (do_effects tick w es)) k.
Proof.
  intro CS. induction es as [|e es IH]; intros w k c0 Hc H; [exact H|]. rewrite do_effects_cons.
  pose proof (CS (w_clock w)) as Ht. apply IH; cbn [do_effect w_clock w_stamps]; [lia|].
  unfold stamp_of in *.
  destruct (glookup rkey_eqb k (stamp_effect e (w_db w) (tick (w_clock w)) (w_stamps w))) as [t'|] eqn:E.
  - apply stamp_effect_values in E. destruct E as [->|E]; [lia|]. rewrite E in H. exact H.
  - exfalso. destruct (glookup rkey_eqb k (w_stamps w)) as [t0|] eqn:E0; [|lia].
    (* an existing stamp never disappears *)
    clear -E E0. unfold stamp_effect, sset in E.
    destruct e as [s' n'|s' n'|s' k' c'|s' k'|s' k' c'|s' k'];
      try (destruct (db_has_dir (w_db w) s' n')); rewrite ?(glookup_gset rkey_eqb rkey_eqb_eq) in E;
      repeat (match type of E with context [if ?b then _ else _] => destruct b end); congruence.
Qed.

Lemma dir_stamp_touch tick es : clock_strict tick -> forall w s0 n0 c0,
  Forall (in_scope s0 n0) es -> Exists (fun e => is_touch e = true) es ->
  c0 <= w_clock w -> c0 < stamp_of (w_stamps (do_effects tick w es)) (RDir s0 n0).
Proof.
  intro CS. induction es as [|e es IH]; intros w s0 n0 c0 F X Hc; [inversion X|].
  inversion F as [|? ? [E1 E2] F']. subst. rewrite do_effects_cons. pose proof (CS (w_clock w)) as Ht.
  destruct (is_touch e) eqn:T.
  - apply dir_stamp_keep; [exact CS|cbn; lia|]. cbn [do_effect w_stamps]. unfold stamp_of.
    rewrite (stamp_effect_touch e _ _ _ T). lia.
  - inversion X as [? ? T'|? ? X']; subst; [congruence|]. apply IH; auto. cbn. lia.
Qed.
