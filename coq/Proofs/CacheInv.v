(* The invariant of the world: every cache file is either detectably stale, product by product,
   or says what the database files say.  Preserved by the effects of every record-level action
   (whatever the caches are), by writing a cache file from data that agrees with the files, and
   by deleting cache files. *)
From Eupsv Require Import Base.Base Base.BaseLemmas Model.Db Model.Cache.
From Eupsv Require Import Proofs.DbLib Proofs.Db Proofs.DbSim Proofs.DbInv Proofs.DbCor.
From Eupsv Require Import Proofs.CacheLib Proofs.CacheWt Proofs.CacheRebuild Proofs.CacheEff Proofs.CacheU.
From Coq Require Import Lia.

(* for product n the cache file of directory l agrees with the files -- the stack's records and, for
   the user tags, the tag directory of the owner of l (nobody's for ups_db) --, or a record of n, or
   the owner's tag directory for n, is newer than the file, or n has no version file any more while the
   cache file still lists it *)
Definition pk_ok_n (w : world) (l s f : str) (p : pickle) (n : str) : Prop :=
  (agree_n (pk_data p) (w_db w) s f n /\ uagree_n (pk_data p) (w_db w) (w_uc w) (owner l) s f n)
  \/ (In n (db_names (w_db w) s) /\
      (newer_n (w_db w) (w_stamps w) s n (pk_stamp p) = true
       \/ (l <> upsdb /\ pk_stamp p < stamp_of (w_stamps w) (RUDir l s n))))
  \/ (~ In n (db_names (w_db w) s) /\ alookup n (pk_data p) <> None).

Record INV (w : world) : Prop := mkINV {
  inv_nd : no_dangling (view (w_db w));
  inv_st : forall k t, glookup rkey_eqb k (w_stamps w) = Some t -> t <= w_clock w;
  inv_pc : forall l s f p, pk_get w l s f = Some p -> pk_stamp p <= w_clock w;
  inv_pk : forall l s f p, pk_get w l s f = Some p -> forall n, pk_ok_n w l s f p n
}.

Lemma init_INV path : INV (init_world path).
Proof.
  constructor; cbn.
  - apply no_dangling_empty.
  - discriminate.
  - unfold pk_get. cbn. discriminate.
  - unfold pk_get. cbn. discriminate.
Qed.

(* ---------------------------------------------------------------- one action on the files *)

Lemma newer_n_frame tick es w s0 n0 s n tau :
  Forall (in_scope s0 n0) es -> (s, n) <> (s0, n0) ->
  newer_n (w_db w) (w_stamps w) s n tau = true ->
  newer_n (w_db (do_effects tick w es)) (w_stamps (do_effects tick w es)) s n tau = true.
Proof.
  intros F N. unfold newer_n. rewrite do_effects_db.
  assert (St : forall k, rk_prod k = (s, n) ->
             stamp_of (w_stamps (do_effects tick w es)) k = stamp_of (w_stamps w) k).
  { intros k Hk. unfold stamp_of. rewrite (stamps_frame_list tick es w s0 n0 k F); [reflexivity|congruence]. }
  assert (Sc : s <> s0 \/ n <> n0).
  { destruct (str_eq_dec s s0) as [->|]; [|auto]. right. intro. subst. apply N. reflexivity. }
  rewrite !orb_true_iff. intros [[H|H]|H].
  - left. left. rewrite St; [exact H|reflexivity].
  - left. right. apply existsb_exists in H. destruct H as [kv [H1 H2]]. apply existsb_exists. exists kv.
    apply andb_true_iff in H2. destruct H2 as [H2 H3]. apply str_eqb_eq in H2. split.
    + apply (vfiles_frame_list es _ s n0 s0 kv F); [|exact H1]. destruct Sc; [auto|right; congruence].
    + rewrite St by (cbn; unfold vname in H2; congruence). rewrite H3, H2, str_eqb_refl. reflexivity.
  - right. apply existsb_exists in H. destruct H as [kv [H1 H2]]. apply existsb_exists. exists kv.
    apply andb_true_iff in H2. destruct H2 as [H2 H3]. apply str_eqb_eq in H2. split.
    + apply (cfiles_frame_list es _ s n0 s0 kv F); [|exact H1]. destruct Sc; [auto|right; congruence].
    + rewrite St by (cbn; unfold cname in H2; congruence). rewrite H3, H2, str_eqb_refl. reflexivity.
Qed.

Lemma db_names_frame es d s0 n0 s n :
  Forall (in_scope s0 n0) es -> (s, n) <> (s0, n0) ->
  (In n (db_names (apply es d) s) <-> In n (db_names d s)).
Proof.
  intros F N. rewrite !db_names_In.
  assert (Sc : s <> s0 \/ n <> n0).
  { destruct (str_eq_dec s s0) as [->|]; [|auto]. right. intro. subst. apply N. reflexivity. }
  split; intros [v [c H]]; exists v, c.
  - apply (vfiles_frame_list es d s n0 s0 ((n, v), c) F); [|exact H]. exact Sc.
  - apply (vfiles_frame_list es d s n0 s0 ((n, v), c) F); [|exact H]. exact Sc.
Qed.

Lemma do_effects_ukey tick es k : is_ukey k = true -> forall w,
  glookup rkey_eqb k (w_stamps (do_effects tick w es)) = glookup rkey_eqb k (w_stamps w).
Proof.
  intro H. induction es as [|e es IH]; intro w; [reflexivity|]. rewrite do_effects_cons, IH.
  cbn [do_effect w_stamps]. apply stamp_effect_ukey. exact H.
Qed.

Lemma no_decl_no_vis d uc uo s n f : (forall v, db_decl d s n v f = None) -> forall t, vis_u d uc uo s n t f = None.
Proof.
  intros H t. unfold vis_u. destruct uo as [u|]; [|reflexivity]. destruct (uc_tag uc u s n t f) as [v|]; [|reflexivity].
  rewrite H. reflexivity.
Qed.

Lemma do_act_db tick w x : w_db (do_act tick w x) = apply (compile (w_db w) x) (w_db w).
Proof. unfold do_act. apply do_effects_db. Qed.

Lemma do_act_pickles tick w x : w_pickles (do_act tick w x) = w_pickles w.
Proof. unfold do_act. apply do_effects_pickles. Qed.

Lemma pk_get_pickles w w' l s f : w_pickles w' = w_pickles w -> pk_get w' l s f = pk_get w l s f.
Proof. intro H. unfold pk_get. rewrite H. reflexivity. Qed.

Lemma do_act_inv tick w x : clock_strict tick -> INV w -> act_ok (view (w_db w)) x -> INV (do_act tick w x).
Proof.
  intros CS [ND ST PC PK] OK.
  pose proof (compile_scope (w_db w) x) as SC. pose proof (compile_touch (w_db w) x) as TC.
  assert (ND' : no_dangling (view (w_db (do_act tick w x)))).
  { rewrite do_act_db. eapply no_dangling_aeq; [apply aeq_sym, compile_refines|].
    apply aapply_no_dangling; assumption. }
  pose proof (do_effects_clock tick (compile (w_db w) x) CS w) as CL.
  constructor.
  - exact ND'.
  - apply do_effects_stamps_le; assumption.
  - intros l s f p H. rewrite (pk_get_pickles w) in H by apply do_act_pickles. specialize (PC l s f p H).
    unfold do_act. lia.
  - intros l s f p H n. rewrite (pk_get_pickles w) in H by apply do_act_pickles.
    specialize (PK l s f p H n). specialize (PC l s f p H).
    destruct (classic_nf (s, n) (act_stack x, act_name x)) as [E|N].
    + (* the product the action is about *)
      inversion E. subst s n. clear E. destruct TC as [Nil|Tch].
      * unfold do_act. rewrite Nil. exact PK.
      * assert (Fresh : pk_stamp p < stamp_of (w_stamps (do_act tick w x)) (RDir (act_stack x) (act_name x))).
        { unfold do_act. apply dir_stamp_touch; auto. }
        destruct (in_dec str_eq_dec (act_name x) (db_names (w_db (do_act tick w x)) (act_stack x))) as [I|NI].
        -- right. left. split; [exact I|]. left. unfold newer_n. apply Nat.ltb_lt in Fresh. rewrite Fresh. reflexivity.
        -- destruct (alookup (act_name x) (pk_data p)) eqn:Ea.
           ++ right. right. split; [exact NI|congruence].
           ++ left. pose proof (not_named_no_decl _ _ _ NI) as D0. split; [split; intro k|].
              ** unfold fd_decl. rewrite Ea. symmetry. apply D0.
              ** unfold fd_tag. rewrite Ea.
                 destruct (db_tag (w_db (do_act tick w x)) (act_stack x) (act_name x) k f) as [v|] eqn:Et; [|reflexivity].
                 exfalso. apply (proj1 (no_dangling_db _) ND' _ _ _ _ _ Et). apply D0.
              ** intro t. unfold fd_utag. rewrite Ea. symmetry. apply no_decl_no_vis. intro v. apply D0.
    + (* another product: nothing about it changed *)
      assert (Fr : (n, f) <> act_nf x \/ s <> act_stack x).
      { destruct (str_eq_dec s (act_stack x)) as [->|]; [|auto]. left. intro E. apply N.
        unfold act_name. rewrite <- E. reflexivity. }
      destruct PK as [[[A1 A2] A3]|[[I Nw]|[NI K]]].
      * left. rewrite do_act_db. split; [split; intro k; destruct (compile_frame (w_db w) x s n k f Fr) as [E1 E2]|].
        -- rewrite E1. apply A1.
        -- rewrite E2. apply A2.
        -- intro t. rewrite (A3 t), do_act_uc. unfold vis_u. destruct (owner l) as [u|]; [|reflexivity].
           destruct (uc_tag (w_uc w) u s n t f) as [v|]; [|reflexivity].
           destruct (compile_frame (w_db w) x s n v f Fr) as [E1 _]. rewrite E1. reflexivity.
      * right. left. split.
        -- rewrite do_act_db. apply (db_names_frame _ _ _ _ _ _ SC N). exact I.
        -- destruct Nw as [Nw|[Nl Nw]].
           ++ left. unfold do_act. apply (newer_n_frame tick _ w _ _ s n _ SC N). exact Nw.
           ++ right. split; [exact Nl|]. unfold do_act, stamp_of. rewrite do_effects_ukey by reflexivity. exact Nw.
      * right. right. split; [|exact K]. rewrite do_act_db. intro I. apply NI.
        apply (db_names_frame _ _ _ _ _ _ SC N). exact I.
Qed.

(* ---------------------------------------------------------------- cache files *)

Lemma pk_get_gset w ps l s f l' s' f' :
  glookup pkey_eqb (l', s', f') (gset pkey_eqb (l, s, f) ps (w_pickles w)) =
  if pkey_eqb (l', s', f') (l, s, f) then Some ps else pk_get w l' s' f'.
Proof. apply (glookup_gset pkey_eqb pkey_eqb_eq). Qed.

(* writing a cache file from data that agrees with the files *)
Lemma write_pickle_inv tick w l s f fd : clock_strict tick -> INV w -> agree fd (w_db w) s f ->
  uagree fd (w_db w) (w_uc w) (owner l) s f ->
  INV (mkW (w_db w) (tick (w_clock w)) (w_stamps w)
           (gset pkey_eqb (l, s, f) (mkPk (tick (w_clock w)) fd) (w_pickles w)) (w_uc w)).
Proof.
  intros CS [ND ST PC PK] AG UG. pose proof (CS (w_clock w)) as Ht. constructor; cbn [w_db w_clock w_stamps w_uc].
  - exact ND.
  - intros k t H. specialize (ST k t H). lia.
  - intros l' s' f' p. unfold pk_get. cbn [w_pickles]. rewrite pk_get_gset.
    destruct (pkey_eqb (l', s', f') (l, s, f)); intro H.
    + inversion H. cbn. lia.
    + specialize (PC _ _ _ _ H). lia.
  - intros l' s' f' p. unfold pk_get at 1. cbn [w_pickles]. rewrite pk_get_gset.
    destruct (pkey_eqb (l', s', f') (l, s, f)) eqn:E; intros H n.
    + apply pkey_eqb_eq in E. inversion E. subst. inversion H. left. split; [apply AG|apply UG].
    + exact (PK _ _ _ _ H n).
Qed.

Lemma delete_cache_inv w l s f : INV w -> INV (delete_cache w l s f).
Proof.
  intros [ND ST PC PK].
  assert (G : forall l' s' f' p, pk_get (delete_cache w l s f) l' s' f' = Some p -> pk_get w l' s' f' = Some p).
  { intros l' s' f' p. unfold pk_get, delete_cache. cbn [w_pickles].
    rewrite (glookup_gremove pkey_eqb pkey_eqb_eq). destruct (pkey_eqb (l', s', f') (l, s, f)); [discriminate|auto]. }
  constructor; cbn [delete_cache w_db w_clock w_stamps w_uc].
  - exact ND.
  - exact ST.
  - intros l' s' f' p H. exact (PC _ _ _ _ (G _ _ _ _ H)).
  - intros l' s' f' p H n. exact (PK _ _ _ _ (G _ _ _ _ H) n).
Qed.

(* ---------------------------------------------------------------- writes in a tag directory *)

Lemma existsb_ext_local {A} (p q : A -> bool) l : (forall a, p a = q a) -> existsb p l = existsb q l.
Proof. intro H. induction l as [|a l IH]; cbn; [reflexivity|]. rewrite H, IH. reflexivity. Qed.

Lemma newer_n_stamps_ext d st st' s n tau :
  (forall k, is_ukey k = false -> stamp_of st' k = stamp_of st k) ->
  newer_n d st' s n tau = newer_n d st s n tau.
Proof.
  intro H. unfold newer_n. rewrite (H (RDir s n)) by reflexivity. f_equal; [f_equal|].
  - apply existsb_ext_local. intro kv. rewrite (H (RVer s (fst kv))) by reflexivity. reflexivity.
  - apply existsb_ext_local. intro kv. rewrite (H (RChain s (fst kv))) by reflexivity. reflexivity.
Qed.

(* a step that writes in the tag directory of user u for product n of stack s and nowhere else *)
Record ustep (u s n : str) (w w' : world) : Prop := mkUstep {
  us_db : w_db w' = w_db w;
  us_pk : w_pickles w' = w_pickles w;
  us_st : forall k, is_ukey k = false -> stamp_of (w_stamps w') k = stamp_of (w_stamps w) k;
  us_mono : forall k, stamp_of (w_stamps w) k <= stamp_of (w_stamps w') k;
  us_le : forall k t, glookup rkey_eqb k (w_stamps w') = Some t -> t <= w_clock w';
  us_uc : forall u' s' n' t f, (u', s', n') <> (u, s, n) -> uc_tag (w_uc w') u' s' n' t f = uc_tag (w_uc w) u' s' n' t f;
  us_new : w' = w \/ (w_clock w < w_clock w' /\ stamp_of (w_stamps w') (RUDir u s n) = w_clock w')
}.

Lemma ustep_inv u s n w w' : u <> upsdb -> ustep u s n w w' -> INV w -> INV w'.
Proof.
  intros Hu [Edb Epk Est Emono Ele Euc Enew] [ND ST PC PK].
  assert (CL : w_clock w <= w_clock w') by (destruct Enew as [->|[H _]]; lia).
  constructor.
  - rewrite Edb. exact ND.
  - exact Ele.
  - intros l s' f p H. rewrite (pk_get_pickles w) in H by exact Epk. specialize (PC l s' f p H). lia.
  - intros l s' f p H n'. rewrite (pk_get_pickles w) in H by exact Epk.
    specialize (PK l s' f p H n'). specialize (PC l s' f p H). unfold pk_ok_n in *. rewrite Edb.
    destruct Enew as [->|[Hc Hs]]; [exact PK|].
    assert (Cases : (l, s', n') = (u, s, n) \/ (l, s', n') <> (u, s, n)).
    { destruct (str_eq_dec l u) as [->|]; [|right; congruence]. destruct (str_eq_dec s' s) as [->|]; [|right; congruence].
      destruct (str_eq_dec n' n) as [->|]; [left; reflexivity|right; congruence]. }
    destruct Cases as [E|N].
    + inversion E. subst l s' n'. clear E.
      destruct (in_dec str_eq_dec n (db_names (w_db w) s)) as [I|NI].
      * right. left. split; [exact I|]. right. split; [exact Hu|]. rewrite Hs. lia.
      * destruct PK as [[A U]|[[I _]|K]]; [|contradiction|right; right; exact K].
        left. split; [exact A|]. intro t. rewrite (U t).
        rewrite !no_decl_no_vis; [reflexivity| |]; intro v; apply not_named_no_decl; exact NI.
    + destruct PK as [[A U]|[[I Nw]|K]]; [| |right; right; exact K].
      * left. split; [exact A|]. intro t. rewrite (U t). unfold vis_u, owner.
        destruct (str_eqb_spec l upsdb) as [->|Nl]; [reflexivity|]. rewrite (Euc l s' n' t f N). reflexivity.
      * right. left. split; [exact I|]. destruct Nw as [Nw|[Nl Nw]].
        -- left. rewrite (newer_n_stamps_ext _ _ _ _ _ _ Est). exact Nw.
        -- right. split; [exact Nl|]. specialize (Emono (RUDir l s' n')). lia.
Qed.

Lemma stamp_of_sset k t st k' : stamp_of (sset k t st) k' = if rkey_eqb k' k then t else stamp_of st k'.
Proof. unfold stamp_of, sset. rewrite (glookup_gset rkey_eqb rkey_eqb_eq). destruct (rkey_eqb k' k); reflexivity. Qed.

Lemma glookup_sset k t st k' : glookup rkey_eqb k' (sset k t st) = if rkey_eqb k' k then Some t else glookup rkey_eqb k' st.
Proof. unfold sset. apply (glookup_gset rkey_eqb rkey_eqb_eq). Qed.

Lemma stamp_of_le st c k : (forall k t, glookup rkey_eqb k st = Some t -> t <= c) -> stamp_of st k <= c.
Proof. intro H. unfold stamp_of. destruct (glookup rkey_eqb k st) as [t|] eqn:E; [exact (H k t E)|lia]. Qed.

Lemma ustep_refl u s n w : INV w -> ustep u s n w w.
Proof. intros [_ ST _ _]. constructor; auto. Qed.

Lemma ustep_trans u s n w1 w2 w3 : ustep u s n w1 w2 -> ustep u s n w2 w3 -> ustep u s n w1 w3.
Proof.
  intros [A1 A2 A3 A4 A5 A6 A7] [B1 B2 B3 B4 B5 B6 B7]. constructor.
  - congruence.
  - congruence.
  - intros k H. rewrite (B3 k H). apply A3. exact H.
  - intro k. specialize (A4 k). specialize (B4 k). lia.
  - exact B5.
  - intros u' s' n' t f N. rewrite (B6 _ _ _ _ _ N). apply A6. exact N.
  - destruct B7 as [->|[Hc Hs]]; [exact A7|]. right. split; [|exact Hs].
    destruct A7 as [->|[Hc' _]]; lia.
Qed.

(* the stamps after one write: the directory, or the directory and the chain file, get the new time *)
Lemma ustamp_facts tick w u s n (ks : list rkey) (st' : list (rkey * nat)) :
  clock_strict tick -> (forall k t, glookup rkey_eqb k (w_stamps w) = Some t -> t <= w_clock w) ->
  (st' = sset (RUDir u s n) (tick (w_clock w)) (w_stamps w) \/
   exists t, st' = sset (RUChain u s (n, t)) (tick (w_clock w)) (sset (RUDir u s n) (tick (w_clock w)) (w_stamps w))) ->
  (forall k, is_ukey k = false -> stamp_of st' k = stamp_of (w_stamps w) k) /\
  (forall k, stamp_of (w_stamps w) k <= stamp_of st' k) /\
  (forall k t, glookup rkey_eqb k st' = Some t -> t <= tick (w_clock w)) /\
  stamp_of st' (RUDir u s n) = tick (w_clock w).
Proof.
  intros CS ST H. pose proof (CS (w_clock w)) as Ht.
  destruct H as [->|[t ->]].
  - repeat split.
    + intros k Hk. rewrite stamp_of_sset. destruct (rkey_eqb k (RUDir u s n)) eqn:E; [|reflexivity].
      apply rkey_eqb_eq in E. subst k. discriminate.
    + intro k. rewrite stamp_of_sset. destruct (rkey_eqb k (RUDir u s n)); [|lia].
      pose proof (stamp_of_le _ _ k ST). lia.
    + intros k t. rewrite glookup_sset. destruct (rkey_eqb k (RUDir u s n)); intro H; [inversion H; lia|].
      specialize (ST k t H). lia.
    + rewrite stamp_of_sset. replace (rkey_eqb (RUDir u s n) (RUDir u s n)) with true; [reflexivity|].
      symmetry. apply rkey_eqb_eq. reflexivity.
  - repeat split.
    + intros k Hk. rewrite !stamp_of_sset. destruct (rkey_eqb k (RUChain u s (n, t))) eqn:E.
      { apply rkey_eqb_eq in E. subst k. discriminate. }
      destruct (rkey_eqb k (RUDir u s n)) eqn:E2; [|reflexivity]. apply rkey_eqb_eq in E2. subst k. discriminate.
    + intro k. rewrite !stamp_of_sset. pose proof (stamp_of_le _ _ k ST).
      destruct (rkey_eqb k (RUChain u s (n, t))); [lia|]. destruct (rkey_eqb k (RUDir u s n)); lia.
    + intros k t0. rewrite !glookup_sset. destruct (rkey_eqb k (RUChain u s (n, t))); [intro H; inversion H; lia|].
      destruct (rkey_eqb k (RUDir u s n)); intro H; [inversion H; lia|]. specialize (ST k t0 H). lia.
    + rewrite !stamp_of_sset. cbn [rkey_eqb]. rewrite !str_eqb_refl. reflexivity.
Qed.

Lemma ukey_other u s n t u' s' n' t' : (u', s', n') <> (u, s, n) -> ukey_eqb (u', s', n', t') (u, s, n, t) = false.
Proof.
  intro N. destruct (ukey_eqb (u', s', n', t') (u, s, n, t)) eqn:E; [|reflexivity].
  apply ukey_eqb_eq in E. inversion E. subst. exfalso. apply N. reflexivity.
Qed.

Lemma do_uset_ustep tick w u s n t f v : clock_strict tick -> INV w -> ustep u s n w (do_uset tick w u s n t f v).
Proof.
  intros CS [_ ST _ _]. pose proof (CS (w_clock w)) as Ht.
  destruct (ustamp_facts tick w u s n [] (w_stamps (do_uset tick w u s n t f v)) CS ST) as [F1 [F2 [F3 F4]]].
  { right. exists t. reflexivity. }
  constructor; auto.
  - intros u' s' n' t' f' N. rewrite do_uset_uc_tag, (ukey_other _ _ _ _ _ _ _ _ N). reflexivity.
Qed.

Lemma do_udel_ustep tick w u s n t f : clock_strict tick -> INV w -> ustep u s n w (do_udel tick w u s n t f).
Proof.
  intros CS I. pose proof I as [_ ST _ _]. pose proof (CS (w_clock w)) as Ht.
  assert (UC : forall u' s' n' t' f', (u', s', n') <> (u, s, n) ->
             uc_tag (w_uc (do_udel tick w u s n t f)) u' s' n' t' f' = uc_tag (w_uc w) u' s' n' t' f').
  { intros u' s' n' t' f' N. rewrite do_udel_uc_tag, (ukey_other _ _ _ _ _ _ _ _ N). reflexivity. }
  revert UC. unfold do_udel. destruct (amem f (uc_file (w_uc w) u s n t)); [|intros _; apply ustep_refl; exact I].
  destruct (is_nil (aremove f (uc_file (w_uc w) u s n t))); intro UC.
  - destruct (ustamp_facts tick w u s n [] (sset (RUDir u s n) (tick (w_clock w)) (w_stamps w)) CS ST) as [F1 [F2 [F3 F4]]];
      [left; reflexivity|].
    constructor; auto.
  - destruct (ustamp_facts tick w u s n []
                (sset (RUChain u s (n, t)) (tick (w_clock w)) (sset (RUDir u s n) (tick (w_clock w)) (w_stamps w))) CS ST)
      as [F1 [F2 [F3 F4]]]; [right; exists t; reflexivity|].
    constructor; auto.
Qed.

Lemma do_uset_inv tick w u s n t f v : clock_strict tick -> u <> upsdb -> INV w -> INV (do_uset tick w u s n t f v).
Proof. intros CS Hu I. eapply ustep_inv; [exact Hu|apply do_uset_ustep; assumption|exact I]. Qed.

Lemma do_udel_inv tick w u s n t f : clock_strict tick -> u <> upsdb -> INV w -> INV (do_udel tick w u s n t f).
Proof. intros CS Hu I. eapply ustep_inv; [exact Hu|apply do_udel_ustep; assumption|exact I]. Qed.

Lemma fold_udel_inv tick u s n f l : clock_strict tick -> u <> upsdb -> forall w, INV w ->
  INV (fold_left (fun w t => do_udel tick w u s n t f) l w).
Proof.
  intros CS Hu. induction l as [|t l IH]; intros w I; [exact I|]. cbn [fold_left]. apply IH. apply do_udel_inv; assumption.
Qed.

Lemma do_uact_inv tick w u x : clock_strict tick -> u <> upsdb -> INV w -> INV (do_uact tick w u x).
Proof.
  intros CS Hu I. destruct x; cbn [do_uact]; try exact I. destruct (is_some _); [|exact I].
  apply fold_udel_inv; assumption.
Qed.

Lemma do_uacts_inv tick u g : clock_strict tick -> u <> upsdb -> forall w, INV w -> INV (do_uacts tick w u g).
Proof.
  intros CS Hu. unfold do_uacts. induction g as [|x g IH]; intros w I; [exact I|]. cbn [fold_left]. apply IH.
  apply do_uact_inv; assumption.
Qed.

Lemma do_uacts_db tick u g : forall w, w_db (do_uacts tick w u g) = w_db w.
Proof.
  unfold do_uacts. induction g as [|x g IH]; intro w; [reflexivity|]. cbn [fold_left]. rewrite IH. apply do_uact_db.
Qed.

Lemma do_uacts_pickles tick u g : forall w, w_pickles (do_uacts tick w u g) = w_pickles w.
Proof.
  unfold do_uacts. induction g as [|x g IH]; intro w; [reflexivity|]. cbn [fold_left]. rewrite IH. apply do_uact_pickles.
Qed.
