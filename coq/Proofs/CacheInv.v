(* The invariant of the world: every cache file is either detectably stale, product by product,
   or says what the database files say.  Preserved by the effects of every record-level action
   (whatever the caches are), by writing a cache file from data that agrees with the files, and
   by deleting cache files. *)
From Eupsv Require Import Base.Base Base.BaseLemmas Model.Db Model.Cache.
From Eupsv Require Import Proofs.DbLib Proofs.Db Proofs.DbSim Proofs.DbInv Proofs.DbCor.
From Eupsv Require Import Proofs.CacheLib Proofs.CacheWt Proofs.CacheRebuild Proofs.CacheEff.
From Coq Require Import Lia.

(* for product n the cache file agrees with the files, or a record of n is newer than the file,
   or n has no version file any more while the cache file still lists it *)
Definition pk_ok_n (w : world) (s f : str) (p : pickle) (n : str) : Prop :=
  agree_n (pk_data p) (w_db w) s f n
  \/ (In n (db_names (w_db w) s) /\ newer_n (w_db w) (w_stamps w) s n (pk_stamp p) = true)
  \/ (~ In n (db_names (w_db w) s) /\ alookup n (pk_data p) <> None).

Record INV (w : world) : Prop := mkINV {
  inv_nd : no_dangling (view (w_db w));
  inv_st : forall k t, glookup rkey_eqb k (w_stamps w) = Some t -> t <= w_clock w;
  inv_pc : forall l s f p, pk_get w l s f = Some p -> pk_stamp p <= w_clock w;
  inv_pk : forall l s f p, pk_get w l s f = Some p -> forall n, pk_ok_n w s f p n
}.

Lemma init_INV path : INV (init_world path).
Proof.
  constructor; cbn.
  - apply no_dangling_empty.
  - discriminate.
  - unfold pk_get. cbn. discriminate.
  - unfold pk_get. cbn. discriminate.
Qed.

(* ---------------------------------------------------------------- one action on the files *)

Lemma newer_n_frame tick es w s0 n0 s n tau :
  Forall (in_scope s0 n0) es -> (s, n) <> (s0, n0) ->
  newer_n (w_db w) (w_stamps w) s n tau = true ->
  newer_n (w_db (do_effects tick w es)) (w_stamps (do_effects tick w es)) s n tau = true.
Proof.
  intros F N. unfold newer_n. rewrite do_effects_db.
  assert (St : forall k, rk_prod k = (s, n) ->
             stamp_of (w_stamps (do_effects tick w es)) k = stamp_of (w_stamps w) k).
  { intros k Hk. unfold stamp_of. rewrite (stamps_frame_list tick es w s0 n0 k F); [reflexivity|congruence]. }
  assert (Sc : s <> s0 \/ n <> n0).
  { destruct (str_eq_dec s s0) as [->|]; [|auto]. right. intro. subst. apply N. reflexivity. }
  rewrite !orb_true_iff. intros [[H|H]|H].
  - left. left. rewrite St; [exact H|reflexivity].
  - left. right. apply existsb_exists in H. destruct H as [kv [H1 H2]]. apply existsb_exists. exists kv.
    apply andb_true_iff in H2. destruct H2 as [H2 H3]. apply str_eqb_eq in H2. split.
    + apply (vfiles_frame_list es _ s n0 s0 kv F); [|exact H1]. destruct Sc; [auto|right; congruence].
    + rewrite St by (cbn; unfold vname in H2; congruence). rewrite H3, H2, str_eqb_refl. reflexivity.
  - right. apply existsb_exists in H. destruct H as [kv [H1 H2]]. apply existsb_exists. exists kv.
    apply andb_true_iff in H2. destruct H2 as [H2 H3]. apply str_eqb_eq in H2. split.
    + apply (cfiles_frame_list es _ s n0 s0 kv F); [|exact H1]. destruct Sc; [auto|right; congruence].
    + rewrite St by (cbn; unfold cname in H2; congruence). rewrite H3, H2, str_eqb_refl. reflexivity.
Qed.

Lemma db_names_frame es d s0 n0 s n :
  Forall (in_scope s0 n0) es -> (s, n) <> (s0, n0) ->
  (In n (db_names (apply es d) s) <-> In n (db_names d s)).
Proof.
  intros F N. rewrite !db_names_In.
  assert (Sc : s <> s0 \/ n <> n0).
  { destruct (str_eq_dec s s0) as [->|]; [|auto]. right. intro. subst. apply N. reflexivity. }
  split; intros [v [c H]]; exists v, c.
  - apply (vfiles_frame_list es d s n0 s0 ((n, v), c) F); [|exact H]. exact Sc.
  - apply (vfiles_frame_list es d s n0 s0 ((n, v), c) F); [|exact H]. exact Sc.
Qed.

Lemma do_act_db tick w x : w_db (do_act tick w x) = apply (compile (w_db w) x) (w_db w).
Proof. unfold do_act. apply do_effects_db. Qed.

Lemma do_act_pickles tick w x : w_pickles (do_act tick w x) = w_pickles w.
Proof. unfold do_act. apply do_effects_pickles. Qed.

Lemma pk_get_pickles w w' l s f : w_pickles w' = w_pickles w -> pk_get w' l s f = pk_get w l s f.
Proof. intro H. unfold pk_get. rewrite H. reflexivity. Qed.

Lemma do_act_inv tick w x : clock_strict tick -> INV w -> act_ok (view (w_db w)) x -> INV (do_act tick w x).
Proof.
  intros CS [ND ST PC PK] OK.
  pose proof (compile_scope (w_db w) x) as SC. pose proof (compile_touch (w_db w) x) as TC.
  assert (ND' : no_dangling (view (w_db (do_act tick w x)))).
  { rewrite do_act_db. eapply no_dangling_aeq; [apply aeq_sym, compile_refines|].
    apply aapply_no_dangling; assumption. }
  pose proof (do_effects_clock tick (compile (w_db w) x) CS w) as CL.
  constructor.
  - exact ND'.
  - apply do_effects_stamps_le; assumption.
  - intros l s f p H. rewrite (pk_get_pickles w) in H by apply do_act_pickles. specialize (PC l s f p H).
    unfold do_act. lia.
  - intros l s f p H n. rewrite (pk_get_pickles w) in H by apply do_act_pickles.
    specialize (PK l s f p H n). specialize (PC l s f p H).
    destruct (classic_nf (s, n) (act_stack x, act_name x)) as [E|N].
    + (* the product the action is about *)
      inversion E. subst s n. clear E. destruct TC as [Nil|Tch].
      * unfold do_act. rewrite Nil. exact PK.
      * assert (Fresh : pk_stamp p < stamp_of (w_stamps (do_act tick w x)) (RDir (act_stack x) (act_name x))).
        { unfold do_act. apply dir_stamp_touch; auto. }
        destruct (in_dec str_eq_dec (act_name x) (db_names (w_db (do_act tick w x)) (act_stack x))) as [I|NI].
        -- right. left. split; [exact I|]. unfold newer_n. apply Nat.ltb_lt in Fresh. rewrite Fresh. reflexivity.
        -- destruct (alookup (act_name x) (pk_data p)) eqn:Ea.
           ++ right. right. split; [exact NI|congruence].
           ++ left. pose proof (not_named_no_decl _ _ _ NI) as D0. split; intro k.
              ** unfold fd_decl. rewrite Ea. symmetry. apply D0.
              ** unfold fd_tag. rewrite Ea.
                 destruct (db_tag (w_db (do_act tick w x)) (act_stack x) (act_name x) k f) as [v|] eqn:Et; [|reflexivity].
                 exfalso. apply (proj1 (no_dangling_db _) ND' _ _ _ _ _ Et). apply D0.
    + (* another product: nothing about it changed *)
      assert (Fr : (n, f) <> act_nf x \/ s <> act_stack x).
      { destruct (str_eq_dec s (act_stack x)) as [->|]; [|auto]. left. intro E. apply N.
        unfold act_name. rewrite <- E. reflexivity. }
      destruct PK as [[A1 A2]|[[I Nw]|[NI K]]].
      * left. rewrite do_act_db. split; intro k; destruct (compile_frame (w_db w) x s n k f Fr) as [E1 E2].
        -- rewrite E1. apply A1.
        -- rewrite E2. apply A2.
      * right. left. split.
        -- rewrite do_act_db. apply (db_names_frame _ _ _ _ _ _ SC N). exact I.
        -- unfold do_act. apply (newer_n_frame tick _ w _ _ s n _ SC N). exact Nw.
      * right. right. split; [|exact K]. rewrite do_act_db. intro I. apply NI.
        apply (db_names_frame _ _ _ _ _ _ SC N). exact I.
Qed.

(* ---------------------------------------------------------------- cache files *)

Lemma pk_get_gset w ps l s f l' s' f' :
  glookup pkey_eqb (l', s', f') (gset pkey_eqb (l, s, f) ps (w_pickles w)) =
  if pkey_eqb (l', s', f') (l, s, f) then Some ps else pk_get w l' s' f'.
Proof. apply (glookup_gset pkey_eqb pkey_eqb_eq). Qed.

(* writing a cache file from data that agrees with the files *)
Lemma write_pickle_inv tick w l s f fd : clock_strict tick -> INV w -> agree fd (w_db w) s f ->
  INV (mkW (w_db w) (tick (w_clock w)) (w_stamps w)
           (gset pkey_eqb (l, s, f) (mkPk (tick (w_clock w)) fd) (w_pickles w))).
Proof.
  intros CS [ND ST PC PK] AG. pose proof (CS (w_clock w)) as Ht. constructor; cbn [w_db w_clock w_stamps].
  - exact ND.
  - intros k t H. specialize (ST k t H). lia.
  - intros l' s' f' p. unfold pk_get. cbn [w_pickles]. rewrite pk_get_gset.
    destruct (pkey_eqb (l', s', f') (l, s, f)); intro H.
    + inversion H. cbn. lia.
    + specialize (PC _ _ _ _ H). lia.
  - intros l' s' f' p. unfold pk_get at 1. cbn [w_pickles]. rewrite pk_get_gset.
    destruct (pkey_eqb (l', s', f') (l, s, f)) eqn:E; intros H n.
    + apply pkey_eqb_eq in E. inversion E. subst. inversion H. left. apply AG.
    + exact (PK _ _ _ _ H n).
Qed.

Lemma delete_cache_inv w l s f : INV w -> INV (delete_cache w l s f).
Proof.
  intros [ND ST PC PK].
  assert (G : forall l' s' f' p, pk_get (delete_cache w l s f) l' s' f' = Some p -> pk_get w l' s' f' = Some p).
  { intros l' s' f' p. unfold pk_get, delete_cache. cbn [w_pickles].
    rewrite (glookup_gremove pkey_eqb pkey_eqb_eq). destruct (pkey_eqb (l', s', f') (l, s, f)); [discriminate|auto]. }
  constructor; cbn [delete_cache w_db w_clock w_stamps].
  - exact ND.
  - exact ST.
  - intros l' s' f' p H. exact (PC _ _ _ _ (G _ _ _ _ H)).
  - intros l' s' f' p H n. exact (PK _ _ _ _ (G _ _ _ _ H) n).
Qed.
