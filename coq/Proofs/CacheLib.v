(* Library lemmas for Model/Cache.v: association lists, key equalities, names. *)
From Eupsv Require Import Base.Base Base.BaseLemmas Model.Db Model.Cache Proofs.DbLib Proofs.Db.
From Coq Require Import Lia.

Lemma pkey_eqb_eq (a b : pkey) : pkey_eqb a b = true <-> a = b.
Proof.
  destruct a as [[l s] f], b as [[l' s'] f']. unfold pkey_eqb. rewrite !andb_true_iff, !str_eqb_eq.
  split; [intros [[-> ->] ->]; reflexivity|intro H; inversion H; auto].
Qed.

Lemma rkey_eqb_eq (a b : rkey) : rkey_eqb a b = true <-> a = b.
Proof.
  destruct a as [s n|s k|s k|u s n|u s k], b as [s' n'|s' k'|s' k'|u' s' n'|u' s' k']; cbn;
    try (split; [discriminate|intro H; inversion H]).
  - rewrite andb_true_iff, !str_eqb_eq. split; [intros [-> ->]; reflexivity|intro H; inversion H; auto].
  - rewrite andb_true_iff, str_eqb_eq, key_eqb_eq. split; [intros [-> ->]; reflexivity|intro H; inversion H; auto].
  - rewrite andb_true_iff, str_eqb_eq, key_eqb_eq. split; [intros [-> ->]; reflexivity|intro H; inversion H; auto].
  - rewrite !andb_true_iff, !str_eqb_eq. split; [intros [[-> ->] ->]; reflexivity|intro H; inversion H; auto].
  - rewrite !andb_true_iff, !str_eqb_eq, key_eqb_eq. split; [intros [[-> ->] ->]; reflexivity|intro H; inversion H; auto].
Qed.

Lemma ukey_eqb_eq (a b : ukey) : ukey_eqb a b = true <-> a = b.
Proof.
  destruct a as [[[u s] n] t], b as [[[u' s'] n'] t']. unfold ukey_eqb. rewrite !andb_true_iff, !str_eqb_eq.
  split; [intros [[[-> ->] ->] ->]; reflexivity|intro H; inversion H; auto].
Qed.

Lemma alookup_not_None_In {V} k (m : amap V) : alookup k m <> None -> In k (akeys m).
Proof.
  induction m as [|[k' v] m IH]; cbn; [congruence|].
  destruct (str_eqb_spec k k') as [->|N]; [auto|]. intro H. right. exact (IH H).
Qed.

Lemma In_akeys_alookup {V} k (m : amap V) : In k (akeys m) -> alookup k m <> None.
Proof.
  induction m as [|[k' v] m IH]; cbn; [tauto|].
  destruct (str_eqb_spec k k') as [->|N]; [discriminate|]. intros [H|H]; [congruence|]. exact (IH H).
Qed.

Lemma alookup_remove_keys {V} ks : forall (m : amap V) k,
  alookup k (remove_keys ks m) = if mem_str k ks then None else alookup k m.
Proof.
  unfold remove_keys. induction ks as [|k0 ks IH]; intros m k; cbn [fold_left mem_str]; [reflexivity|].
  rewrite IH, alookup_aremove. destruct (str_eqb k k0); [|reflexivity]. destruct (mem_str k ks); reflexivity.
Qed.

Lemma mem_filter (p : str -> bool) x l : mem_str x (filter p l) = mem_str x l && p x.
Proof.
  induction l as [|y l IH]; cbn; [reflexivity|].
  destruct (p y) eqn:P; cbn; destruct (str_eqb_spec x y) as [->|N]; rewrite ?IH; try reflexivity.
  - rewrite P. reflexivity.
  - rewrite P, andb_false_r. destruct (mem_str y l); reflexivity.
Qed.

Lemma mem_tags_of_version v tags t : mem_str t (tags_of_version v tags) = opt_str_eqb (alookup t tags) v.
Proof.
  unfold tags_of_version. rewrite mem_filter.
  destruct (alookup t tags) as [v'|] eqn:E; cbn [opt_str_eqb].
  - assert (H : mem_str t (akeys tags) = true).
    { apply mem_str_In. apply alookup_not_None_In. congruence. }
    rewrite H. reflexivity.
  - rewrite andb_false_r. reflexivity.
Qed.

(* an association list built from candidates whose value is a function of the key *)
Lemma alookup_flat_map_fun {A V} (g : str -> option V) (key : A -> str) (l : list A) k :
  alookup k (flat_map (fun a => match g (key a) with Some v => [(key a, v)] | None => [] end) l) =
  if existsb (fun a => str_eqb k (key a)) l then g k else None.
Proof.
  induction l as [|a l IH]; cbn [flat_map existsb]; [reflexivity|].
  destruct (str_eqb_spec k (key a)) as [->|N]; cbn [orb].
  - destruct (g (key a)) as [v|] eqn:G; cbn [app alookup].
    + rewrite str_eqb_refl. reflexivity.
    + rewrite IH. destruct (existsb _ l); reflexivity.
  - destruct (g (key a)) as [v|]; cbn [app alookup]; [|exact IH].
    destruct (str_eqb_spec k (key a)); [contradiction|exact IH].
Qed.

Lemma existsb_In_str (k : str) {A} (key : A -> str) (l : list A) :
  existsb (fun a => str_eqb k (key a)) l = true <-> exists a, In a l /\ key a = k.
Proof.
  rewrite existsb_exists. split; intros [a [H1 H2]]; exists a; split; auto.
  - apply str_eqb_eq in H2. auto.
  - apply str_eqb_eq. auto.
Qed.

Lemma same_names_true a b : same_names a b = true <-> (forall x, In x a <-> In x b).
Proof.
  unfold same_names. rewrite andb_true_iff, !forallb_forall. split.
  - intros [H1 H2] x. split; intro H; apply mem_str_In; auto.
  - intro H. split; intros x Hx; apply mem_str_In; apply H; exact Hx.
Qed.

Lemma glookup_In_keys {K V} (eqb : K -> K -> bool) (eqb_eq : forall a b, eqb a b = true <-> a = b)
  (k : K) (v : V) m : In (k, v) m -> glookup eqb k m <> None.
Proof.
  intro H. destruct (In_glookup_some eqb eqb_eq k v m H) as [v' E]. congruence.
Qed.

(* In-frames of gset / gremove *)
Lemma In_gset_other {K V} (eqb : K -> K -> bool) (eqb_eq : forall a b, eqb a b = true <-> a = b)
  (k0 : K) (v0 : V) m k v : k <> k0 -> (In (k, v) (gset eqb k0 v0 m) <-> In (k, v) m).
Proof.
  intro N. induction m as [|[k1 v1] m IH]; cbn.
  - split; [intros [H|[]]; inversion H; congruence|tauto].
  - destruct (eqb k0 k1) eqn:E; cbn.
    + apply eqb_eq in E. subst k1. split; intros [H|H]; auto; inversion H; congruence.
    + rewrite IH. tauto.
Qed.

Lemma In_gremove_other {K V} (eqb : K -> K -> bool) (eqb_eq : forall a b, eqb a b = true <-> a = b)
  (k0 : K) (m : list (K * V)) k v : k <> k0 -> (In (k, v) (gremove eqb k0 m) <-> In (k, v) m).
Proof.
  intro N. induction m as [|[k1 v1] m IH]; cbn; [tauto|].
  destruct (eqb k0 k1) eqn:E; cbn.
  - apply eqb_eq in E. subst k1. rewrite IH. split; [auto|]. intros [H|H]; [inversion H; congruence|exact H].
  - rewrite IH. tauto.
Qed.

Lemma classic_nf (a b : str * str) : a = b \/ a <> b.
Proof.
  destruct a as [a1 a2], b as [b1 b2]. destruct (str_eq_dec a1 b1) as [->|N]; [|right; congruence].
  destruct (str_eq_dec a2 b2) as [->|N]; [left; reflexivity|right; congruence].
Qed.
