(* Several live instances (Model/CacheLive.v): what ensureInSync gives an instance whose cache files
   were rewritten by another instance of the same user.

   [live_ok w loc s ps]: the state of one loaded stack of a live instance between two of its steps --
   every flavor it holds is right, or its cache file was rewritten since the instance loaded or wrote
   it; and when some held file was rewritten, the files of the held flavors are right.  The second half
   is what the write-through of the other instance establishes (persist_ok, save_flavor_ok of
   Proofs/CacheLoad.v, CacheProc.v: the file an instance writes agrees with the database).
   A freshly loaded instance, and an instance right after its own step, satisfy it ([ps_ok_live_ok]). *)
From Eupsv Require Import Base.Base Base.BaseLemmas Model.Db Model.Cache Model.CacheLive.
From Eupsv Require Import Proofs.DbLib Proofs.Db Proofs.DbInv Proofs.DbCor.
From Eupsv Require Import Proofs.CacheLib Proofs.CacheWt Proofs.CacheRebuild Proofs.CacheEff Proofs.CacheU Proofs.CacheInv
  Proofs.CacheLoad Proofs.CacheProc.
From Coq Require Import Lia.

(* the cache file of some held flavor was rewritten since this stack loaded or wrote it *)
Definition held_moved (w : world) (s loc : str) (ps : pstack) : bool :=
  negb (forallb (in_sync w s ps loc) (akeys (ps_lookup ps))).

Definition live_ok (w : world) (loc s : str) (ps : pstack) : Prop :=
  (forall f fd, alookup f (ps_lookup ps) = Some fd -> agree fd (w_db w) s f \/ in_sync w s ps loc f = false) /\
  (held_moved w s loc ps = true ->
   forall f p, alookup f (ps_lookup ps) <> None -> pk_get w loc s f = Some p -> agree (pk_data p) (w_db w) s f).

Lemma sync_held_unmoved w s loc ps : held_moved w s loc ps = false -> ensure_in_sync_held w s loc ps = ps.
Proof.
  unfold held_moved, ensure_in_sync_held. destruct (forallb _ _); [reflexivity|discriminate].
Qed.

Lemma sync_held_moved w s loc ps :
  held_moved w s loc ps = true -> ensure_in_sync_held w s loc ps = reload w loc s (akeys (ps_lookup ps)) ps.
Proof.
  unfold held_moved, ensure_in_sync_held. destruct (forallb _ _); [discriminate|reflexivity].
Qed.

(* when a held file moved, every held flavor that has a cache file holds exactly what the file holds:
   versions, directories, tables and tags -- nothing of the old copy is kept *)
Lemma sync_held_wholesale w s loc ps f p :
  held_moved w s loc ps = true -> alookup f (ps_lookup ps) <> None -> pk_get w loc s f = Some p ->
  alookup f (ps_lookup (ensure_in_sync_held w s loc ps)) = Some (pk_data p).
Proof.
  intros M H P. rewrite (sync_held_moved _ _ _ _ M), reload_lookup.
  assert (E : mem_str f (akeys (ps_lookup ps)) = true) by (apply mem_str_In, alookup_not_None_In; exact H).
  rewrite E, P. reflexivity.
Qed.

(* no flavor is added: the repaired ensureInSync never makes the stack hold a flavor it did not hold *)
Lemma sync_held_no_new_flavor w s loc ps f :
  alookup f (ps_lookup ps) = None -> alookup f (ps_lookup (ensure_in_sync_held w s loc ps)) = None.
Proof.
  intro H. unfold ensure_in_sync_held. destruct (forallb _ _); [exact H|]. rewrite reload_lookup.
  assert (E : mem_str f (akeys (ps_lookup ps)) = false).
  { apply mem_str_not_In. intro HI. apply In_akeys_alookup in HI. contradiction. }
  rewrite E. exact H.
Qed.

Lemma sync_held_agree w s loc ps : live_ok w loc s ps -> lookup_agree (ensure_in_sync_held w s loc ps) (w_db w) s.
Proof.
  intros [H1 H2]. destruct (held_moved w s loc ps) eqn:M.
  - rewrite (sync_held_moved _ _ _ _ M). intros f fd Ef. rewrite reload_lookup in Ef.
    destruct (mem_str f (akeys (ps_lookup ps))) eqn:Em.
    + destruct (pk_get w loc s f) as [p|] eqn:Ep.
      * inversion Ef. subst fd. apply (H2 eq_refl f p); [|exact Ep].
        apply In_akeys_alookup, mem_str_In. exact Em.
      * destruct (H1 f fd Ef) as [A|B]; [exact A|]. unfold in_sync in B. rewrite Ep in B.
        destruct (glookup key_eqb (loc, f) (ps_modtimes ps)); discriminate.
    + apply mem_str_not_In in Em. exfalso. apply Em. apply alookup_not_None_In. congruence.
  - rewrite (sync_held_unmoved _ _ _ _ M). intros f fd Ef. destruct (H1 f fd Ef) as [A|B]; [exact A|].
    unfold held_moved in M. apply Bool.negb_false_iff in M. rewrite forallb_forall in M.
    rewrite (M f) in B; [discriminate|]. apply alookup_not_None_In. congruence.
Qed.

(* a stack that agrees with the files and whose cache files did not move behind its back: a freshly
   loaded instance, an instance right after its own step *)
Lemma ps_ok_live_ok w uo loc s ps : ps_ok w uo s ps -> live_ok w loc s ps.
Proof.
  intro H. split.
  - intros f fd Ef. left. destruct H as [A _]. exact (A f fd Ef).
  - intro M. exfalso. unfold held_moved in M. apply Bool.negb_true_iff in M.
    assert (E : forallb (in_sync w s ps loc) (akeys (ps_lookup ps)) = true).
    { apply forallb_forall. intros fl _. apply (in_sync_true _ uo). exact H. }
    congruence.
Qed.

Lemma alookup_sync_mem pin w loc m s :
  alookup s (sync_mem pin w loc m) =
  match alookup s m with Some ps => Some (ensure_sync pin w s loc ps) | None => None end.
Proof.
  unfold sync_mem. induction m as [|[s' ps] m IH]; cbn [map alookup fst snd]; [reflexivity|].
  destruct (str_eqb_spec s s') as [->|N]; [reflexivity|exact IH].
Qed.

Lemma sync_mem_keys pin w loc m : map fst (sync_mem pin w loc m) = map fst m.
Proof. unfold sync_mem. rewrite map_map. cbn [fst]. reflexivity. Qed.

(* the answers of a live instance after ensureInSync: those of the database files, for every flavor *)
Lemma live_coherent w loc m q :
  map fst m = wpath w ->
  (forall s ps, alookup s m = Some ps -> live_ok w loc s ps) ->
  q_served w (sync_mem false w loc m) q = q_db w q.
Proof.
  intros K L. unfold q_served, q_db. rewrite sync_mem_keys, K. fold (wpath w).
  assert (Out : forall s, alookup s m = None -> has_stack (w_db w) s = false).
  { intros s Hs. rewrite <- has_stack_path. apply mem_str_not_In. fold (wpath w). rewrite <- K.
    intro HI. change (In s (akeys m)) in HI. apply In_akeys_alookup in HI. contradiction. }
  apply q_eval_ext.
  - intros s n v. unfold srv_decl. rewrite alookup_sync_mem. destruct (alookup s m) as [ps|] eqn:Es.
    + cbn [ensure_sync]. pose proof (sync_held_agree w s loc ps (L s ps Es)) as A.
      destruct (alookup (q_flavor q) (ps_lookup (ensure_in_sync_held w s loc ps))) as [fd|] eqn:Ef; [|reflexivity].
      apply (proj1 (A _ _ Ef n)).
    + symmetry. apply db_decl_no_stack. apply Out. exact Es.
  - intros s n t. unfold srv_tag. rewrite alookup_sync_mem. destruct (alookup s m) as [ps|] eqn:Es.
    + cbn [ensure_sync]. pose proof (sync_held_agree w s loc ps (L s ps Es)) as A.
      destruct (alookup (q_flavor q) (ps_lookup (ensure_in_sync_held w s loc ps))) as [fd|] eqn:Ef; [|reflexivity].
      apply (proj2 (A _ _ Ef n)).
    + symmetry. apply db_tag_no_stack. apply Out. exact Es.
Qed.

(* parsing a table on demand, and being asked, change no file and nothing of any other instance *)
Lemma table_and_ask_keep_world tick vr pin u fl w ms i :
  fst (fst (run_lstep tick vr pin u fl w ms (LTable i))) = w /\
  fst (fst (run_lstep tick vr pin u fl w ms (LAsk i))) = w /\
  run_lstep tick vr pin u fl w ms (LTable i) = run_lstep tick vr pin u fl w ms (LAsk i).
Proof. cbn [run_lstep]. destruct (nth_error ms i); repeat split. Qed.
