(* Loading: what ProductStack.fromCache returns agrees with the files.  Saving keeps the
   invariant.  [ps_ok]: the data of one loaded stack agrees with the files, and no cache file
   it knows about was rewritten behind its back. *)
From Eupsv Require Import Base.Base Base.BaseLemmas Model.Db Model.Cache.
From Eupsv Require Import Proofs.DbLib Proofs.Db Proofs.DbSim Proofs.DbInv Proofs.DbCor.
From Eupsv Require Import Proofs.CacheLib Proofs.CacheWt Proofs.CacheRebuild Proofs.CacheEff Proofs.CacheU Proofs.CacheInv.
From Coq Require Import Lia.

(* uo: whose tag directory the instance reads (nobody's for an administrator) *)
Definition ps_ok (w : world) (uo : option str) (s : str) (ps : pstack) : Prop :=
  lookup_agree ps (w_db w) s /\ ps_ugood ps (w_uc w) uo s /\
  (forall l f m p, glookup key_eqb (l, f) (ps_modtimes ps) = Some m -> pk_get w l s f = Some p -> pk_stamp p <= m).

Lemma ugood_nil uc uo s f : ugood [] uc uo s f.
Proof. intros n t. unfold fd_utag. cbn. destruct uo; [|reflexivity]. unfold vis_fd. destruct (uc_tag _ _ _ _ _ _); reflexivity. Qed.

(* w' differs from w only in the clock and the cache files of stack s *)
Definition same_but (s : str) (w w' : world) : Prop :=
  w_db w' = w_db w /\ w_stamps w' = w_stamps w /\ w_clock w <= w_clock w' /\ w_uc w' = w_uc w /\
  (forall l s' f, s' <> s -> pk_get w' l s' f = pk_get w l s' f).

Lemma same_but_refl s w : same_but s w w.
Proof. repeat split; auto. Qed.

Lemma same_but_trans s w1 w2 w3 : same_but s w1 w2 -> same_but s w2 w3 -> same_but s w1 w3.
Proof.
  intros [A1 [A2 [A3 [A5 A4]]]] [B1 [B2 [B3 [B5 B4]]]]. repeat split; try congruence; try lia.
  intros. rewrite B4, A4; auto.
Qed.

Lemma ps_ok_frame s w w' uo s2 ps : same_but s w w' -> s2 <> s -> ps_ok w uo s2 ps -> ps_ok w' uo s2 ps.
Proof.
  intros [E1 [_ [_ [E3 E2]]]] N [A [U B]]. split; [|split].
  - rewrite E1. exact A.
  - rewrite E3. exact U.
  - intros l f m p H1 H2. rewrite E2 in H2 by exact N. exact (B l f m p H1 H2).
Qed.

Lemma in_sync_true w uo s ps loc fl : ps_ok w uo s ps -> in_sync w s ps loc fl = true.
Proof.
  intros [_ [_ B]]. unfold in_sync. destruct (glookup key_eqb (loc, fl) (ps_modtimes ps)) as [m|] eqn:E1; [|reflexivity].
  destruct (pk_get w loc s fl) as [p|] eqn:E2; [|reflexivity]. apply Nat.leb_le. exact (B _ _ _ _ E1 E2).
Qed.

Lemma ensure_in_sync_id w uo s loc ps : ps_ok w uo s ps -> ensure_in_sync w s loc ps = ps.
Proof.
  intro H. unfold ensure_in_sync.
  assert (E : forallb (in_sync w s ps loc) (akeys (ps_lookup ps)) = true).
  { apply forallb_forall. intros fl _. apply (in_sync_true _ uo). exact H. }
  rewrite E. reflexivity.
Qed.

(* ---------------------------------------------------------------- persist and save *)

Lemma persist_ok tick w s loc fl ps w' ps' :
  clock_strict tick -> INV w -> ps_ok w (owner loc) s ps ->
  (alookup fl (ps_lookup ps) = None -> agree [] (w_db w) s fl) ->
  persist tick w s loc fl ps = (w', ps') ->
  INV w' /\ ps_ok w' (owner loc) s ps' /\ same_but s w w' /\
  alookup fl (ps_lookup ps') <> None /\
  (forall f, alookup f (ps_lookup ps) <> None -> alookup f (ps_lookup ps') <> None) /\
  (forall f fd, alookup f (ps_lookup ps) = Some fd -> alookup f (ps_lookup ps') = Some fd) /\
  (exists p, pk_get w' loc s fl = Some p /\ w_clock w < pk_stamp p /\ agree (pk_data p) (w_db w') s fl).
Proof.
  intros CS I [A [U B]] Hnew E. unfold persist in E. inversion E. clear E. subst w' ps'.
  pose proof (CS (w_clock w)) as Ht.
  set (data := match alookup fl (ps_lookup ps) with Some fd => fd | None => [] end).
  assert (AD : agree data (w_db w) s fl).
  { unfold data. destruct (alookup fl (ps_lookup ps)) as [fd|] eqn:Ef; [exact (A _ _ Ef)|apply Hnew; reflexivity]. }
  assert (UD : ugood data (w_uc w) (owner loc) s fl).
  { unfold data. destruct (alookup fl (ps_lookup ps)) as [fd|] eqn:Ef; [exact (U _ _ Ef)|apply ugood_nil]. }
  split; [|split; [|split; [|split; [|split; [|split]]]]].
  - apply write_pickle_inv; try assumption.
    intro n. apply (ugood_uagree_n data (w_db w) (w_uc w) (owner loc) s fl n (AD n)). apply UD.
  - split; [|split]; cbn [w_db w_uc ps_lookup ps_modtimes].
    + destruct (alookup fl (ps_lookup ps)) as [fd0|] eqn:Ef; intros f fd H; cbn [ps_lookup] in H.
      * exact (A _ _ H).
      * rewrite alookup_aset in H. destruct (str_eqb_spec f fl) as [->|N].
        -- inversion H. subst fd. apply Hnew. reflexivity.
        -- exact (A _ _ H).
    + destruct (alookup fl (ps_lookup ps)) as [fd0|] eqn:Ef; intros f fd H; cbn [ps_lookup] in H.
      * exact (U _ _ H).
      * rewrite alookup_aset in H. destruct (str_eqb_spec f fl) as [->|N].
        -- inversion H. subst fd. apply ugood_nil.
        -- exact (U _ _ H).
    + intros l f m p. rewrite (glookup_gset key_eqb key_eqb_eq). unfold pk_get. cbn [w_pickles]. rewrite pk_get_gset.
      destruct (key_eqb (l, f) (loc, fl)) eqn:Ek.
      * apply key_eqb_eq in Ek. inversion Ek. subst l f.
        assert (X : pkey_eqb (loc, s, fl) (loc, s, fl) = true) by (apply pkey_eqb_eq; reflexivity).
        rewrite X. intros H1 H2. inversion H1. inversion H2. cbn. lia.
      * assert (X : pkey_eqb (l, s, f) (loc, s, fl) = false).
        { destruct (pkey_eqb (l, s, f) (loc, s, fl)) eqn:X; [|reflexivity]. apply pkey_eqb_eq in X.
          inversion X. subst. rewrite (proj2 (key_eqb_eq _ _) eq_refl) in Ek. discriminate. }
        rewrite X. apply B.
  - repeat split; cbn; try lia. intros l s' f N. unfold pk_get. cbn [w_pickles]. rewrite pk_get_gset.
    destruct (pkey_eqb (l, s', f) (loc, s, fl)) eqn:X; [|reflexivity]. apply pkey_eqb_eq in X. inversion X. congruence.
  - cbn [ps_lookup]. destruct (alookup fl (ps_lookup ps)) eqn:Ef; [congruence|]. rewrite alookup_aset, str_eqb_refl. discriminate.
  - intros f H. cbn [ps_lookup]. destruct (alookup fl (ps_lookup ps)) eqn:Ef; [exact H|]. apply keys_kept_aset. exact H.
  - intros f fd H. cbn [ps_lookup]. destruct (alookup fl (ps_lookup ps)) eqn:Ef; [exact H|].
    rewrite alookup_aset. destruct (str_eqb_spec f fl) as [->|N]; [congruence|exact H].
  - eexists. split; [|split].
    + unfold pk_get. cbn [w_pickles]. rewrite pk_get_gset.
      assert (X : pkey_eqb (loc, s, fl) (loc, s, fl) = true) by (apply pkey_eqb_eq; reflexivity).
      rewrite X. reflexivity.
    + cbn. lia.
    + cbn. exact AD.
Qed.

Lemma save_other tick s loc fls f : ~ In f fls -> forall w ps w' ps' b,
  save tick w s loc fls ps = (w', ps', b) -> pk_get w' loc s f = pk_get w loc s f.
Proof.
  induction fls as [|fl r IH]; intros Hn w ps w' ps' b E; cbn [save] in E.
  - inversion E. reflexivity.
  - destruct (in_sync w s ps loc fl).
    + destruct (persist tick w s loc fl ps) as [w1 ps1] eqn:Ep.
      rewrite (IH (fun H => Hn (or_intror H)) _ _ _ _ _ E).
      unfold persist in Ep. inversion Ep. unfold pk_get. cbn [w_pickles]. rewrite pk_get_gset.
      destruct (pkey_eqb (loc, s, f) (loc, s, fl)) eqn:X; [|reflexivity].
      apply pkey_eqb_eq in X. inversion X. subst. exfalso. apply Hn. left. reflexivity.
    + destruct (save tick w s loc r ps) as [[w1 ps1] b1] eqn:Es. inversion E. subst.
      exact (IH (fun H => Hn (or_intror H)) _ _ _ _ _ Es).
Qed.

Lemma save_ok tick s loc fls : forall w ps w' ps' b,
  clock_strict tick -> INV w -> ps_ok w (owner loc) s ps ->
  (forall f, In f fls -> alookup f (ps_lookup ps) = None -> agree [] (w_db w) s f) ->
  save tick w s loc fls ps = (w', ps', b) ->
  INV w' /\ ps_ok w' (owner loc) s ps' /\ same_but s w w' /\
  (forall f, In f fls -> alookup f (ps_lookup ps') <> None) /\
  (forall f, alookup f (ps_lookup ps) <> None -> alookup f (ps_lookup ps') <> None) /\
  (forall f fd, alookup f (ps_lookup ps) = Some fd -> alookup f (ps_lookup ps') = Some fd) /\
  (forall f, In f fls -> exists p, pk_get w' loc s f = Some p /\ w_clock w < pk_stamp p).
Proof.
  induction fls as [|fl r IH]; intros w ps w' ps' b CS I OK Hnew E; cbn [save] in E.
  - inversion E. subst. split; [exact I|]. split; [exact OK|]. split; [apply same_but_refl|].
    split; [intros f []|]. split; [auto|]. split; [auto|]. intros f [].
  - rewrite (in_sync_true _ _ _ _ _ _ OK) in E.
    destruct (persist tick w s loc fl ps) as [w1 ps1] eqn:Ep.
    destruct (persist_ok tick w s loc fl ps w1 ps1 CS I OK (Hnew fl (or_introl eq_refl)) Ep)
      as [I1 [OK1 [SB1 [K1 [K2 [K3 [p1 [G1 [G2 _]]]]]]]]].
    assert (Hnew1 : forall f, In f r -> alookup f (ps_lookup ps1) = None -> agree [] (w_db w1) s f).
    { intros f Hf Hn. destruct SB1 as [Edb _]. rewrite Edb. apply Hnew; [right; exact Hf|].
      destruct (alookup f (ps_lookup ps)) eqn:Ef; [|reflexivity]. exfalso. apply (K2 f); congruence. }
    destruct (IH w1 ps1 w' ps' b CS I1 OK1 Hnew1 E) as [I2 [OK2 [SB2 [L1 [L2 [L3 L4]]]]]].
    split; [exact I2|]. split; [exact OK2|]. split; [eapply same_but_trans; eassumption|].
    split; [|split; [|split]].
    + intros f [->|Hf]; [apply L2; exact K1|apply L1; exact Hf].
    + intros f H. apply L2, K2, H.
    + intros f fd H. apply L3, K3, H.
    + intros f [->|Hf].
      * destruct (in_dec str_eq_dec f r) as [Hr|Hr].
        -- destruct (L4 f Hr) as [p [P1 P2]]. exists p. split; [exact P1|]. destruct SB1 as [_ [_ [C _]]]. lia.
        -- (* later saves do not touch this file: shown through the frame of save on other flavors *)
           rewrite (save_other tick s loc r f Hr _ _ _ _ _ E). exists p1. split; [exact G1|exact G2].
      * destruct (L4 f Hf) as [p [P1 P2]]. exists p. split; [exact P1|]. destruct SB1 as [_ [_ [C _]]]. lia.
Qed.

(* ---------------------------------------------------------------- reload, _tryCache *)

Definition mt_ok (w : world) (s : str) (ps : pstack) : Prop :=
  forall l f m p, glookup key_eqb (l, f) (ps_modtimes ps) = Some m -> pk_get w l s f = Some p -> pk_stamp p <= m.

Lemma reload_lookup w loc s fls : forall ps f,
  alookup f (ps_lookup (reload w loc s fls ps)) =
  match (if mem_str f fls then pk_get w loc s f else None) with
  | Some p => Some (pk_data p)
  | None => alookup f (ps_lookup ps)
  end.
Proof.
  induction fls as [|fl r IH]; intros ps f; cbn [reload mem_str]; [reflexivity|].
  rewrite IH. destruct (str_eqb_spec f fl) as [->|N].
  - destruct (mem_str fl r); destruct (pk_get w loc s fl) as [p|] eqn:E; cbn [ps_lookup]; try reflexivity.
    rewrite alookup_aset, str_eqb_refl. reflexivity.
  - destruct (if mem_str f r then pk_get w loc s f else None); [reflexivity|].
    destruct (pk_get w loc s fl); cbn [ps_lookup]; [|reflexivity].
    rewrite alookup_aset. destruct (str_eqb_spec f fl); [contradiction|reflexivity].
Qed.

Lemma reload_mt w loc s fls : forall ps, mt_ok w s ps -> mt_ok w s (reload w loc s fls ps).
Proof.
  induction fls as [|fl r IH]; intros ps H; cbn [reload]; [exact H|]. apply IH.
  destruct (pk_get w loc s fl) as [p0|] eqn:E; [|exact H].
  intros l f m p. cbn [ps_modtimes]. rewrite (glookup_gset key_eqb key_eqb_eq).
  destruct (key_eqb (l, f) (loc, fl)) eqn:Ek.
  - apply key_eqb_eq in Ek. inversion Ek. subst. intros H1 H2. inversion H1. subst. rewrite E in H2. inversion H2. lia.
  - apply H.
Qed.

Lemma up_to_date_true w loc s fl : up_to_date false w loc s fl = true ->
  exists p, pk_get w loc s fl = Some p /\ newer_than w s (pk_stamp p) = false /\
            (loc <> upsdb -> unewer_than w loc s (pk_stamp p) = false).
Proof.
  unfold up_to_date. destruct (pk_get w loc s fl) as [p|]; [|discriminate].
  intro H. apply andb_true_iff in H. destruct H as [H1 H2]. exists p. split; [reflexivity|]. split.
  - apply negb_true_iff. exact H2.
  - intro N. apply negb_true_iff in H1. cbn [negb andb] in H1.
    destruct (str_eqb_spec loc upsdb); [contradiction|]. exact H1.
Qed.

Lemma try_cache_true w loc s fls ps ps' :
  INV w -> mt_ok w s ps -> ps_lookup ps = [] ->
  try_cache false w loc s fls ps = (ps', true) ->
  ps_ok w (owner loc) s ps' /\ (forall f, In f fls -> alookup f (ps_lookup ps') <> None).
Proof.
  intros I MT Nil E. unfold try_cache in E.
  destruct (forallb (up_to_date false w loc s) fls) eqn:U; [|discriminate].
  destruct (same_names (db_names (w_db w) s) (ps_names (reload w loc s fls ps))) eqn:SN; [|discriminate].
  inversion E. subst ps'. clear E. rewrite forallb_forall in U. rewrite same_names_true in SN.
  assert (Both : forall f fd, alookup f (ps_lookup (reload w loc s fls ps)) = Some fd -> forall n,
            agree_n fd (w_db w) s f n /\ uagree_n fd (w_db w) (w_uc w) (owner loc) s f n).
  { intros f fd H. rewrite reload_lookup, Nil in H.
    destruct (mem_str f fls) eqn:Mf; [|discriminate].
    destruct (pk_get w loc s f) as [p|] eqn:Ep; [|discriminate]. inversion H. subst fd.
    assert (Hf : In f fls) by (apply mem_str_In; exact Mf).
    destruct (up_to_date_true _ _ _ _ (U f Hf)) as [p' [Ep' [Nw UNw]]]. rewrite Ep in Ep'. inversion Ep'. subst p'.
    intro n. destruct (inv_pk w I loc s f p Ep n) as [A|[[In1 [Nw1|[Nl Nw1]]]|[NI K]]].
    + exact A.
    + exfalso. unfold newer_than in Nw.
      assert (X : existsb (fun n0 => newer_n (w_db w) (w_stamps w) s n0 (pk_stamp p)) (db_names (w_db w) s) = true).
      { apply existsb_exists. exists n. split; assumption. }
      congruence.
    + exfalso. specialize (UNw Nl). unfold unewer_than in UNw.
      assert (X : existsb (fun n0 => unewer_n (w_uc w) (w_stamps w) loc s n0 (pk_stamp p)) (db_names (w_db w) s) = true).
      { apply existsb_exists. exists n. split; [exact In1|]. unfold unewer_n. apply orb_true_iff. left.
        apply Nat.ltb_lt. exact Nw1. }
      congruence.
    + exfalso. apply NI. apply SN. unfold ps_names. apply in_flat_map. exists (f, pk_data p). split.
      * apply alookup_In. rewrite reload_lookup, Mf, Ep. reflexivity.
      * cbn [snd]. apply alookup_not_None_In. exact K. }
  split; [split; [|split]|].
  - intros f fd H n. apply (Both f fd H n).
  - intros f fd H n. destruct (Both f fd H n) as [A Ua].
    apply (ugood_uagree_n fd (w_db w) (w_uc w) (owner loc) s f n A). exact Ua.
  - apply reload_mt. exact MT.
  - intros f Hf. rewrite reload_lookup. apply mem_str_In in Hf. rewrite Hf.
    assert (Hf' : In f fls) by (apply mem_str_In; exact Hf).
    destruct (up_to_date_true _ _ _ _ (U f Hf')) as [p [Ep _]]. rewrite Ep. discriminate.
Qed.

Lemma try_cache_false w loc s fls ps ps' :
  mt_ok w s ps -> ps_lookup ps = [] -> try_cache false w loc s fls ps = (ps', false) ->
  mt_ok w s ps' /\ ps_lookup ps' = [].
Proof.
  intros MT Nil E. unfold try_cache in E. destruct (forallb (up_to_date false w loc s) fls).
  - destruct (same_names _ _); [discriminate|]. inversion E. subst ps'. cbn [ps_modtimes ps_lookup].
    split; [|reflexivity]. apply reload_mt. exact MT.
  - inversion E. subst. auto.
Qed.

(* ---------------------------------------------------------------- fromCache *)

Lemma owner_upsdb : owner upsdb = None.
Proof. unfold owner. rewrite str_eqb_refl. reflexivity. Qed.

Lemma from_cache_ok tick w s loc utd nf w' ps :
  clock_strict tick -> INV w -> utd = owner loc -> from_cache tick false w s loc utd nf = (w', ps) ->
  INV w' /\ ps_ok w' utd s ps /\ same_but s w w' /\ (forall f, In f nf -> alookup f (ps_lookup ps) <> None).
Proof.
  intros CS I Hutd E. unfold from_cache in E.
  assert (MT0 : mt_ok w s ps_empty) by (intros l f m p H; discriminate).
  destruct (try_cache false w loc s nf ps_empty) as [ps1 [|]] eqn:T1.
  - inversion E. subst. destruct (try_cache_true _ _ _ _ _ _ I MT0 eq_refl T1) as [H1 H2].
    split; [exact I|]. split; [exact H1|]. split; [apply same_but_refl|exact H2].
  - destruct (try_cache_false _ _ _ _ _ _ MT0 eq_refl T1) as [MT1 Nil1].
    destruct (try_cache false w upsdb s nf ps1) as [ps2 [|]] eqn:T2.
    + destruct (try_cache_true _ _ _ _ _ _ I MT1 Nil1 T2) as [[H1 [H1u H1m]] H2].
      rewrite owner_upsdb in H1u.
      destruct (load_user_tags_ok (w_db w) (w_uc w) utd s ps2 H1 H1u) as [L1 [L2 [L3 L4]]].
      assert (OKu : ps_ok w utd s (load_user_tags (w_db w) (w_uc w) utd s ps2)).
      { split; [exact L1|]. split; [exact L2|]. rewrite L3. exact H1m. }
      assert (Held : forall f, In f nf -> alookup f (ps_lookup (load_user_tags (w_db w) (w_uc w) utd s ps2)) <> None).
      { intros f Hf N. apply (H2 f Hf). apply L4. exact N. }
      destruct (str_eqb loc upsdb).
      * inversion E. subst w' ps. clear E.
        split; [exact I|]. split; [exact OKu|]. split; [apply same_but_refl|exact Held].
      * (* persisted into the instance's own directory *)
        destruct (save tick w s loc nf (load_user_tags (w_db w) (w_uc w) utd s ps2)) as [[w3 ps3] b] eqn:Es.
        inversion E. subst w' ps. clear E.
        assert (Hnew : forall f, In f nf ->
                  alookup f (ps_lookup (load_user_tags (w_db w) (w_uc w) utd s ps2)) = None -> agree [] (w_db w) s f).
        { intros f Hf N. exfalso. exact (Held f Hf N). }
        subst utd.
        destruct (save_ok tick s loc _ _ _ _ _ _ CS I OKu Hnew Es) as [I3 [OK3 [SB3 [K1 _]]]].
        split; [exact I3|]. split; [exact OK3|]. split; [exact SB3|exact K1].
    + destruct (try_cache_false _ _ _ _ _ _ MT1 Nil1 T2) as [MT2 _].
      destruct (save tick w s loc (uniq (akeys (rebuild_lookup (w_db w) (w_uc w) utd s) ++ nf))
                  (mkPS (rebuild_lookup (w_db w) (w_uc w) utd s) (ps_modtimes ps2))) as [[w3 ps3] b] eqn:Es.
      inversion E. subst w' ps. clear E.
      assert (OK0 : ps_ok w (owner loc) s (mkPS (rebuild_lookup (w_db w) (w_uc w) utd s) (ps_modtimes ps2))).
      { split; [|split; [|exact MT2]]; intros f fd H; cbn [ps_lookup] in H; rewrite rebuild_lookup_lookup in H;
          destruct (mem_str f (db_flavors (w_db w) s)); inversion H.
        - apply rebuild_agree. apply (inv_nd w I).
        - rewrite <- Hutd. intro n.
          apply (ugood_uagree_n _ (w_db w) (w_uc w) utd s f n (rebuild_agree (w_db w) (w_uc w) utd s f (inv_nd w I) n)).
          apply rebuild_uagree. }
      assert (Hnew : forall f, In f (uniq (akeys (rebuild_lookup (w_db w) (w_uc w) utd s) ++ nf)) ->
                alookup f (ps_lookup (mkPS (rebuild_lookup (w_db w) (w_uc w) utd s) (ps_modtimes ps2))) = None ->
                agree [] (w_db w) s f).
      { intros f _ H. cbn [ps_lookup] in H. rewrite rebuild_lookup_lookup in H.
        destruct (mem_str f (db_flavors (w_db w) s)) eqn:M; [discriminate|].
        apply empty_agree; [apply (inv_nd w I)|]. apply mem_str_not_In. exact M. }
      destruct (save_ok tick s loc _ _ _ _ _ _ CS I OK0 Hnew Es) as [I3 [OK3 [SB3 [L1 _]]]].
      split; [exact I3|]. split; [rewrite Hutd; exact OK3|]. split; [exact SB3|].
      intros f Hf. apply L1. apply uniq_In. apply in_or_app. right. exact Hf.
Qed.
