(* Histories without user-tag commands: the tag directories stay empty, and then the five behaviours that
   the proposed user-tag repairs change (where Eups.assignTag writes a user tag, whether cacheIsUpToDate
   looks into the tag directory, whether Eups.declare reads the tags back, whose tag directory an
   administrator's rebuild reads) make no difference: every process does, step by step, what the repaired
   code does.  So the theorems about declarations and global tags hold for the tree as it is. *)
From Eupsv Require Import Base.Base Base.BaseLemmas Model.Db Model.Cache.
From Eupsv Require Import Proofs.DbLib Proofs.Db Proofs.CacheLib Proofs.CacheEff Proofs.CacheU Proofs.CacheInv.
From Coq Require Import Lia.

(* no chain file in any tag directory, no file of a tag directory ever stamped *)
Definition nouc (w : world) : Prop :=
  w_uc w = [] /\ forall k, is_ukey k = true -> glookup rkey_eqb k (w_stamps w) = None.

(* same declarations-and-global-tags code as the repaired tree: removeVersion and the flavor set-up *)
Definition base_repaired (vr : variant) : Prop := v_rm vr = false /\ v_init vr = false.

Definition base_pop (x : pop) : bool := match x with POp _ | PDel _ _ _ => true | _ => false end.

Lemma nouc_same w w' : w_uc w' = w_uc w -> w_stamps w' = w_stamps w -> nouc w -> nouc w'.
Proof. intros A B [H1 H2]. split; [congruence|]. intros k Hk. rewrite B. apply H2. exact Hk. Qed.

(* ---------------------------------------------------------------- freshness *)

Lemma existsb_false {A} (p : A -> bool) l : (forall a, p a = false) -> existsb p l = false.
Proof. intro H. induction l as [|a l IH]; cbn; [reflexivity|]. rewrite H, IH. reflexivity. Qed.

Lemma unewer_than_nouc w u s tau : nouc w -> unewer_than w u s tau = false.
Proof.
  intros [H1 H2]. unfold unewer_than. apply existsb_false. intro n. unfold unewer_n. rewrite H1.
  unfold stamp_of. rewrite (H2 (RUDir u s n)) by reflexivity. cbn. reflexivity.
Qed.

Lemma up_to_date_nouc b w loc s fl : nouc w -> up_to_date b w loc s fl = up_to_date false w loc s fl.
Proof.
  intro H. unfold up_to_date. destruct (pk_get w loc s fl) as [p|]; [|reflexivity].
  rewrite (unewer_than_nouc w loc s (pk_stamp p) H), !andb_false_r. reflexivity.
Qed.

Lemma try_cache_nouc b w loc s fls ps : nouc w -> try_cache b w loc s fls ps = try_cache false w loc s fls ps.
Proof.
  intro H. unfold try_cache.
  assert (E : forallb (up_to_date b w loc s) fls = forallb (up_to_date false w loc s) fls).
  { induction fls as [|f r IH]; cbn; [reflexivity|]. rewrite (up_to_date_nouc b w loc s f H), IH. reflexivity. }
  rewrite E. reflexivity.
Qed.

(* ---------------------------------------------------------------- rebuild, _loadUserTags *)

Lemma rebuild_utags_nil d utd s f n : rebuild_utags d [] utd s f n = [].
Proof. destruct utd; reflexivity. Qed.

Lemma rebuild_lookup_nil d utd s : rebuild_lookup d [] utd s = rebuild_lookup d [] None s.
Proof.
  unfold rebuild_lookup. apply map_ext. intro f. f_equal. unfold rebuild_fdata. apply flat_map_ext. intro n.
  unfold rebuild_family. rewrite !rebuild_utags_nil. reflexivity.
Qed.

Lemma load_user_tags_nil d utd s ps : load_user_tags d [] utd s ps = ps.
Proof.
  destruct utd as [u|]; [|reflexivity]. unfold load_user_tags.
  assert (E : forall names lk, fold_left (fun lk n => load_utags_n [] u s n lk) names lk = lk).
  { induction names as [|n r IH]; intro lk; [reflexivity|]. cbn [fold_left]. rewrite IH. reflexivity. }
  rewrite E. destruct ps. reflexivity.
Qed.

(* ---------------------------------------------------------------- save *)

Lemma persist_frame tick w s loc fl ps : w_uc (fst (persist tick w s loc fl ps)) = w_uc w /\
  w_stamps (fst (persist tick w s loc fl ps)) = w_stamps w.
Proof. unfold persist. cbn. auto. Qed.

Lemma save_frame tick s loc fls : forall w ps,
  w_uc (fst (fst (save tick w s loc fls ps))) = w_uc w /\ w_stamps (fst (fst (save tick w s loc fls ps))) = w_stamps w.
Proof.
  induction fls as [|fl r IH]; intros w ps; cbn [save]; [auto|].
  destruct (in_sync w s ps loc fl).
  - destruct (persist tick w s loc fl ps) as [w1 ps1] eqn:Ep. destruct (IH w1 ps1) as [A B].
    destruct (persist_frame tick w s loc fl ps) as [C D]. rewrite Ep in C, D. cbn [fst] in C, D.
    destruct (save tick w1 s loc r ps1) as [[w2 ps2] b]. cbn [fst] in *. split; congruence.
  - destruct (IH w ps) as [A B]. destruct (save tick w s loc r ps) as [[w2 ps2] b]. cbn [fst] in *. auto.
Qed.

Lemma save_flavor_frame tick w s loc u fl ps :
  w_uc (fst (save_flavor tick w s loc u fl ps)) = w_uc w /\ w_stamps (fst (save_flavor tick w s loc u fl ps)) = w_stamps w.
Proof. unfold save_flavor. destruct (in_sync w s ps loc fl); [apply persist_frame|cbn; auto]. Qed.

(* ---------------------------------------------------------------- the load *)

Lemma from_cache_nouc tick b w s loc utd nf : nouc w ->
  from_cache tick b w s loc utd nf = from_cache tick false w s loc None nf /\
  nouc (fst (from_cache tick false w s loc None nf)).
Proof.
  intro H. pose proof H as [H1 _]. unfold from_cache.
  rewrite (try_cache_nouc b w loc s nf ps_empty H).
  destruct (try_cache false w loc s nf ps_empty) as [ps1 [|]]; [split; [reflexivity|exact H]|].
  rewrite (try_cache_nouc b w upsdb s nf ps1 H).
  destruct (try_cache false w upsdb s nf ps1) as [ps2 [|]].
  - rewrite H1, !load_user_tags_nil. split; [reflexivity|].
    destruct (str_eqb loc upsdb); [exact H|].
    (* the stack loaded from the shared files is persisted into the instance's own directory *)
    destruct (save_frame tick s loc nf w ps2) as [A B].
    destruct (save tick w s loc nf ps2) as [[w' ps3] b']. cbn [fst] in *.
    apply (nouc_same w); assumption.
  - rewrite H1, (rebuild_lookup_nil (w_db w) utd s).
    destruct (save_frame tick s loc (uniq (akeys (rebuild_lookup (w_db w) [] None s) ++ nf)) w
                (mkPS (rebuild_lookup (w_db w) [] None s) (ps_modtimes ps2))) as [A B].
    destruct (save tick w s loc _ _) as [[w' ps3] b']. cbn [fst] in *. split; [reflexivity|].
    apply (nouc_same w); assumption.
Qed.

Lemma load_stacks_nouc tick b loc utd nf path : forall w, nouc w ->
  load_stacks tick b w loc utd nf path = load_stacks tick false w loc None nf path /\
  nouc (fst (load_stacks tick false w loc None nf path)).
Proof.
  induction path as [|s r IH]; intros w H; cbn [load_stacks]; [split; [reflexivity|exact H]|].
  destruct (from_cache_nouc tick b w s loc utd nf H) as [E N]. rewrite E.
  destruct (from_cache tick false w s loc None nf) as [w1 ps]. cbn [fst] in N.
  destruct (IH w1 N) as [E2 N2]. rewrite E2.
  destruct (load_stacks tick false w1 loc None nf r) as [w2 m]. cbn [fst] in *. split; [reflexivity|exact N2].
Qed.

Lemma load_nouc tick vr w loc u fl : base_repaired vr -> nouc w ->
  load tick vr w loc u fl = load tick repaired w loc u fl /\ nouc (fst (load tick repaired w loc u fl)).
Proof.
  intros [_ Hi] H. unfold load. rewrite Hi. cbn [v_init v_ustale v_shared repaired].
  destruct (load_stacks_nouc tick (v_ustale vr) loc (tag_dir (v_shared vr) loc u) (needed false fl) (map fst (w_db w)) w H) as [E1 N].
  destruct (load_stacks_nouc tick false loc (tag_dir false loc u) (needed false fl) (map fst (w_db w)) w H) as [E2 _].
  rewrite E1, E2. split; [reflexivity|exact N].
Qed.

(* ---------------------------------------------------------------- the commands *)

Lemma do_uacts_nouc tick u g : forall w, w_uc w = [] -> do_uacts tick w u g = w.
Proof.
  unfold do_uacts. induction g as [|x g IH]; intros w H; [reflexivity|]. cbn [fold_left].
  assert (E : do_uact tick w u x = w).
  { destruct x; cbn [do_uact]; try reflexivity. rewrite H. destruct (is_some _); reflexivity. }
  rewrite E. apply IH. exact H.
Qed.

Lemma do_acts_nouc tick g : forall w, nouc w -> nouc (do_acts tick w g).
Proof.
  induction g as [|x g IH]; intros w H; [exact H|]. cbn [do_acts fold_left].
  change (fold_left (do_act tick) g (do_act tick w x)) with (do_acts tick (do_act tick w x) g). apply IH.
  destruct H as [H1 H2]. split; [rewrite do_act_uc; exact H1|].
  intros k Hk. unfold do_act. rewrite do_effects_ukey by exact Hk. apply H2. exact Hk.
Qed.

Lemma run_group_nouc tick vr loc u fl w m g die : base_repaired vr -> nouc w ->
  run_group tick vr loc u fl w m g die = run_group tick repaired loc u fl w m g die /\
  nouc (fst (fst (run_group tick repaired loc u fl w m g die))).
Proof.
  intros [Hr _] H. pose proof H as [H1 _]. unfold run_group. rewrite Hr. cbn [v_rm v_noread repaired].
  rewrite (do_uacts_nouc tick u g w H1).
  pose proof (do_acts_nouc tick g w H) as N1. pose proof N1 as [U1 _].
  destruct die; [split; [reflexivity|exact N1]|].
  destruct (alookup (group_stack g) m) as [ps|]; [|split; [reflexivity|exact N1]].
  assert (RB : read_back (v_noread vr) (do_acts tick w g) u = read_back false (do_acts tick w g) u).
  { unfold read_back. rewrite U1. destruct (v_noread vr); reflexivity. }
  rewrite RB.
  destruct (wt_acts false (read_back false (do_acts tick w g) u) g _) as [[ps2 ch]|]; [|split; [reflexivity|exact N1]].
  destruct (save_always g || ch); [|split; [reflexivity|exact N1]].
  destruct (save_flavor_frame tick (do_acts tick w g) (group_stack g) loc u fl ps2) as [A B].
  destruct (save_flavor tick (do_acts tick w g) (group_stack g) loc u fl ps2) as [w2 ps3]. cbn [fst] in *.
  split; [reflexivity|]. apply (nouc_same (do_acts tick w g)); assumption.
Qed.

Lemma run_groups_nouc tick vr loc u fl gs : base_repaired vr -> forall w m crash, nouc w ->
  run_groups tick vr loc u fl w m gs crash = run_groups tick repaired loc u fl w m gs crash /\
  nouc (fst (fst (run_groups tick repaired loc u fl w m gs crash))).
Proof.
  intro B. induction gs as [|g rest IH]; intros w m crash H; cbn [run_groups]; [split; [reflexivity|exact H]|].
  assert (Step : forall die crash',
    (let '(w1, m1, r) := run_group tick vr loc u fl w m g die in
     match r with GOk => run_groups tick vr loc u fl w1 m1 rest crash' | _ => (w1, m1, r) end) =
    (let '(w1, m1, r) := run_group tick repaired loc u fl w m g die in
     match r with GOk => run_groups tick repaired loc u fl w1 m1 rest crash' | _ => (w1, m1, r) end) /\
    nouc (fst (fst (let '(w1, m1, r) := run_group tick repaired loc u fl w m g die in
     match r with GOk => run_groups tick repaired loc u fl w1 m1 rest crash' | _ => (w1, m1, r) end)))).
  { intros die crash'. destruct (run_group_nouc tick vr loc u fl w m g die B H) as [E N]. rewrite E.
    destruct (run_group tick repaired loc u fl w m g die) as [[w1 m1] r]. cbn [fst] in N.
    destruct r; try (split; [reflexivity|exact N]). apply IH. exact N. }
  destruct crash as [[[|k] [|]]|]; try apply Step. split; [reflexivity|exact H].
Qed.

Lemma run_pop_nouc tick vr loc u fl w m x crash : base_repaired vr -> nouc w -> base_pop x = true ->
  run_pop tick vr loc u fl w m x crash = run_pop tick repaired loc u fl w m x crash /\
  nouc (fst (fst (run_pop tick repaired loc u fl w m x crash))).
Proof.
  intros B H Hx. destruct x as [o|l s f|o t n v|o t n vo|o t n v]; try discriminate; cbn [run_pop].
  - unfold run_op. destruct (negb _); [split; [reflexivity|exact H]|].
    destruct (decide false (view (w_db w)) o) as [acts|e]; [|split; [reflexivity|exact H]].
    destruct (run_groups_nouc tick vr loc u fl (groups acts) B w m crash H) as [E N]. rewrite E.
    destruct (run_groups tick repaired loc u fl w m (groups acts) crash) as [[w1 m1] r]. cbn [fst] in *.
    split; [reflexivity|exact N].
  - split; [reflexivity|]. cbn [fst]. apply (nouc_same w); [reflexivity|reflexivity|exact H].
Qed.

Lemma run_pops_nouc tick vr loc u fl xs : base_repaired vr -> forall w m crash, nouc w -> forallb base_pop xs = true ->
  run_pops tick vr loc u fl w m xs crash = run_pops tick repaired loc u fl w m xs crash /\
  nouc (fst (fst (run_pops tick repaired loc u fl w m xs crash))).
Proof.
  intro B. induction xs as [|x rest IH]; intros w m crash H F; cbn [run_pops]; [split; [reflexivity|exact H]|].
  cbn [forallb] in F. apply andb_true_iff in F. destruct F as [Fx Fr].
  destruct (run_pop_nouc tick vr loc u fl w m x (match crash with Some (0, g, b) => Some (g, b) | _ => None end) B H Fx)
    as [E N]. rewrite E.
  destruct (run_pop tick repaired loc u fl w m x _) as [[w1 m1] oc]. cbn [fst] in N.
  destruct oc; try (destruct (IH w1 m1 (match crash with Some (S i, g, b) => Some (i, g, b) | _ => None end) N Fr) as [E2 N2];
                    rewrite E2; destruct (run_pops tick repaired loc u fl w1 m1 rest _) as [[w2 m2] ocs];
                    cbn [fst] in *; split; [reflexivity|exact N2]).
  split; [reflexivity|exact N].
Qed.

Lemma run_proc_nouc tick vr w p : base_repaired vr -> nouc w -> forallb base_pop (p_ops p) = true ->
  run_proc tick vr w p = run_proc tick repaired w p /\ nouc (run_proc tick repaired w p).
Proof.
  intros B H F. unfold run_proc, run_proc_full.
  destruct (load_nouc tick vr w (p_loc p) (p_user p) (p_flavor p) B H) as [E N]. rewrite E.
  destruct (load tick repaired w (p_loc p) (p_user p) (p_flavor p)) as [w1 m]. cbn [fst] in N.
  destruct (run_pops_nouc tick vr (p_loc p) (p_user p) (p_flavor p) (p_ops p) B w1 m (p_crash p) N F) as [E2 N2].
  rewrite E2. split; [reflexivity|exact N2].
Qed.

(* the worlds of histories without user-tag commands, under any behaviour of the five user-tag switches *)
Inductive reachable_nut (tick : nat -> nat) (vr : variant) : world -> Prop :=
| RN_init path : NoDup path -> reachable_nut tick vr (init_world path)
| RN_proc w p : p_user p <> upsdb -> (p_admin p = true -> p_ops p = []) -> forallb base_pop (p_ops p) = true ->
    reachable_nut tick vr w -> reachable_nut tick vr (run_proc tick vr w p)
| RN_del w loc s fl : reachable_nut tick vr w -> reachable_nut tick vr (delete_cache w loc s fl).

Lemma reachable_nut_repaired tick vr w : base_repaired vr -> reachable_nut tick vr w ->
  reachable tick repaired w /\ nouc w.
Proof.
  intros B R. induction R as [path ND|w p Hu Ha F R [IH N]|w loc s fl R [IH N]].
  - split; [apply R_init; exact ND|]. split; [reflexivity|]. intros k _. reflexivity.
  - destruct (run_proc_nouc tick vr w p B N F) as [E N2]. rewrite E. split; [|exact N2]. apply R_proc; assumption.
  - split; [apply R_del; exact IH|]. apply (nouc_same w); [reflexivity|reflexivity|exact N].
Qed.
